SPECIFICATION Spec
CONSTANTS MaxStack = 3
          MaxReon = 2
INVARIANTS TypeOK NoReentry HandlerStopsTrap NoDispatchWhenBlocked
CHECK_DEADLOCK FALSE
