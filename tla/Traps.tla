------------------------------- MODULE Traps -------------------------------
(* Abstract machine of BASIC event trapping (two traps + ON ERROR), at the level of
   BasicEvents.command / EventQueues._check_input / Interpreter.handle_basic_events /
   return_ / trap_error / resume_.  TLC enumerates every reachable state; every path of
   the dumped graph up to a depth, and every edge, is replayed against the real objects
   (checks/c38.py, leg tlc-replay).  *)
EXTENDS Naturals, Sequences, FiniteSets

CONSTANTS MaxStack, MaxReon

Traps == {1, 2}

VARIABLES en,       \* trap is in the enabled set (ON, or STOPped after ON)
          stp,      \* trap is stopped (explicit STOP or its handler is running)
          trig,     \* an occurrence is remembered
          errmode,  \* an error handler is active (events suspended)
          stack,    \* handler frames not yet RETURNed (sequence of traps)
          running,  \* a program is running
          reon      \* history: ON(i) executed while a frame of i is on the stack

vars == <<en, stp, trig, errmode, stack, running, reon>>

Count(i, s) == Cardinality({k \in 1..Len(s) : s[k] = i})

Init == /\ en = [i \in Traps |-> FALSE]
        /\ stp = [i \in Traps |-> FALSE]
        /\ trig = [i \in Traps |-> FALSE]
        /\ errmode = FALSE
        /\ stack = <<>>
        /\ running = TRUE
        /\ reon = [i \in Traps |-> 0]

On(i) == /\ running
         /\ en' = [en EXCEPT ![i] = TRUE]
         /\ stp' = [stp EXCEPT ![i] = FALSE]
         /\ reon' = [reon EXCEPT ![i] = IF Count(i, stack) > 0 /\ reon[i] < MaxReon THEN reon[i] + 1 ELSE reon[i]]
         /\ UNCHANGED <<trig, errmode, stack, running>>

Off(i) == /\ running
          /\ en' = [en EXCEPT ![i] = FALSE]
          /\ UNCHANGED <<stp, trig, errmode, stack, running, reon>>

Stop(i) == /\ running
           /\ stp' = [stp EXCEPT ![i] = TRUE]
           /\ UNCHANGED <<en, trig, errmode, stack, running, reon>>

\* the event of trap i occurs at a poll; only enabled handlers see it
Occur(i) == /\ running
            /\ trig' = [trig EXCEPT ![i] = trig[i] \/ en[i]]
            /\ UNCHANGED <<en, stp, errmode, stack, running, reon>>

Dispatchable(i) == running /\ ~errmode /\ en[i] /\ trig[i] /\ ~stp[i]

\* statement boundary: all dispatchable traps are entered (order a then b)
Enter(s, i) == Append(s, i)

Dispatch1 == /\ Dispatchable(1) /\ ~Dispatchable(2)
             /\ Len(stack) < MaxStack
             /\ trig' = [trig EXCEPT ![1] = FALSE]
             /\ stp' = [stp EXCEPT ![1] = TRUE]
             /\ stack' = Append(stack, 1)
             /\ UNCHANGED <<en, errmode, running, reon>>

Dispatch2 == /\ Dispatchable(2) /\ ~Dispatchable(1)
             /\ Len(stack) < MaxStack
             /\ trig' = [trig EXCEPT ![2] = FALSE]
             /\ stp' = [stp EXCEPT ![2] = TRUE]
             /\ stack' = Append(stack, 2)
             /\ UNCHANGED <<en, errmode, running, reon>>

Dispatch12 == /\ Dispatchable(1) /\ Dispatchable(2)
              /\ Len(stack) + 1 < MaxStack
              /\ trig' = [i \in Traps |-> FALSE]
              /\ stp' = [i \in Traps |-> TRUE]
              /\ stack' = Append(Append(stack, 1), 2)
              /\ UNCHANGED <<en, errmode, running, reon>>

Dispatch21 == /\ Dispatchable(1) /\ Dispatchable(2)
              /\ Len(stack) + 1 < MaxStack
              /\ trig' = [i \in Traps |-> FALSE]
              /\ stp' = [i \in Traps |-> TRUE]
              /\ stack' = Append(Append(stack, 2), 1)
              /\ UNCHANGED <<en, errmode, running, reon>>

Return == /\ running
          /\ Len(stack) > 0
          /\ LET i == stack[Len(stack)] IN
               /\ stp' = [stp EXCEPT ![i] = FALSE]
               /\ stack' = SubSeq(stack, 1, Len(stack) - 1)
               /\ reon' = [reon EXCEPT ![i] = IF Count(i, stack) = 1 THEN 0 ELSE reon[i]]
          /\ UNCHANGED <<en, trig, errmode, running>>

Error == /\ running /\ ~errmode
         /\ errmode' = TRUE
         /\ UNCHANGED <<en, stp, trig, stack, running, reon>>

Resume == /\ running /\ errmode
          /\ errmode' = FALSE
          /\ UNCHANGED <<en, stp, trig, stack, running, reon>>

End == /\ running
       /\ running' = FALSE
       /\ UNCHANGED <<en, stp, trig, errmode, stack, reon>>

On1 == On(1)
On2 == On(2)
Off1 == Off(1)
Off2 == Off(2)
Stop1 == Stop(1)
Stop2 == Stop(2)
Occur1 == Occur(1)
Occur2 == Occur(2)

Next == \/ On1 \/ On2 \/ Off1 \/ Off2 \/ Stop1 \/ Stop2 \/ Occur1 \/ Occur2
        \/ Dispatch1 \/ Dispatch2 \/ Dispatch12 \/ Dispatch21
        \/ Return \/ Error \/ Resume \/ End

Spec == Init /\ [][Next]_vars

TypeOK == /\ en \in [Traps -> BOOLEAN] /\ stp \in [Traps -> BOOLEAN] /\ trig \in [Traps -> BOOLEAN]
          /\ errmode \in BOOLEAN /\ running \in BOOLEAN
          /\ Len(stack) <= MaxStack

\* S4: a trap's handler is on the stack more than once only if it turned itself back ON
NoReentry == \A i \in Traps : Count(i, stack) <= 1 + reon[i]

\* a running handler keeps its trap stopped unless the trap was turned ON again since
HandlerStopsTrap == \A i \in Traps : (Count(i, stack) > 0 /\ reon[i] = 0) => stp[i]

\* S2: a remembered occurrence can only exist for a trap that has been ON
\* S1/S3: nothing is dispatchable in direct mode or while an error handler is active
NoDispatchWhenBlocked == (~running \/ errmode) => (\A i \in Traps : ~Dispatchable(i))
=============================================================================
