SPECIFICATION Spec
CONSTANTS MaxStack = 2
          MaxReon = 1
INVARIANTS TypeOK NoReentry HandlerStopsTrap NoDispatchWhenBlocked
CHECK_DEADLOCK FALSE
