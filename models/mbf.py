"""
Reference model of Microsoft Binary Format numbers for checks C03-C06.

Boring, exact, integer-only arithmetic written from the property statements
(never from the pcbasic source, and never importing it).

Encodings (little-endian words):
  integer : 16-bit two's complement
  single  : 32-bit word  = exp<<24 | sign<<23 | mantissa[22:0]    (hidden bit 23)
  double  : 64-bit word  = exp<<56 | sign<<55 | mantissa[54:0]    (hidden bit 55)
  value   = (-1)^sign * 0.1mmm...(binary) * 2^(exp-128) ;  exp byte 0 -> zero
            = man * 2^(exp - 128 - nbits),  man in [2^(nbits-1), 2^nbits)

An operand is described by a triple (neg, exp, man) where man includes the
hidden bit; exp == 0 means zero (whatever the mantissa: "non-canonical zero").

`scaled(...)` represents any integer/single/double value exactly as the Python
int  value * 2^SCALE  (the smallest MBF unit is 2^(1-128-56) = 2^-183).
"""
import struct

SCALE = 184
OVERFLOW = 6
DIVISION_BY_ZERO = 11


class Fmt(object):
    def __init__(self, name, size):
        self.name = name
        self.size = size
        self.nbits = (size - 1) * 8
        self.top = 1 << (self.nbits - 1)
        self.full = (1 << self.nbits) - 1
        self.code = '<I' if size == 4 else '<Q'
        self.eshift = self.nbits           # exponent byte position in the word
        self.sshift = self.nbits - 1       # sign bit position in the word
        self.bias2 = 128 + self.nbits      # value = man * 2^(exp - bias2)
        self.maxword = (0xff << self.eshift) | (self.full >> 1)
        self.pos_max = struct.pack(self.code, self.maxword)
        self.neg_max = struct.pack(self.code, self.maxword | (1 << self.sshift))

    def word(self, neg, exp, man):
        return (exp << self.eshift) | ((1 if neg else 0) << self.sshift) | (man & (self.top - 1))

    def bytes(self, neg, exp, man):
        return struct.pack(self.code, self.word(neg, exp, man))

    def unword(self, w):
        """word -> (neg, exp, man incl. hidden bit)."""
        return bool((w >> self.sshift) & 1), w >> self.eshift, (w & (self.top - 1)) | self.top

    def unbytes(self, b):
        return self.unword(struct.unpack(self.code, bytes(b))[0])


SNG = Fmt('single', 4)
DBL = Fmt('double', 8)
BY_SIZE = {4: SNG, 8: DBL}


def scaled_triple(fmt, neg, exp, man):
    """Exact value * 2^SCALE of an (neg, exp, man) operand."""
    if exp == 0:
        return 0
    v = man << (exp - fmt.bias2 + SCALE)
    return -v if neg else v


def scaled_bytes(b):
    """Exact value * 2^SCALE of the encoding b (2 = integer, 4 = single, 8 = double)."""
    b = bytes(b)
    if len(b) == 2:
        return struct.unpack('<h', b)[0] << SCALE
    fmt = BY_SIZE[len(b)]
    neg, exp, man = fmt.unbytes(b)
    return scaled_triple(fmt, neg, exp, man)


def encode_scaled(fmt, x):
    """Encoding (bytes) of the exact value x / 2^SCALE in format fmt, or None if it is not
    exactly representable there (zero -> canonical zero)."""
    if x == 0:
        return bytes(fmt.size)
    neg = x < 0
    ax = -x if neg else x
    bl = ax.bit_length()
    # man = ax >> (bl - nbits) must be exact
    sh = bl - fmt.nbits
    if sh > 0:
        if ax & ((1 << sh) - 1):
            return None
        man = ax >> sh
    else:
        man = ax << -sh
    # ax = man * 2^sh ; value = man * 2^(sh - SCALE) = man * 2^(exp - bias2)
    exp = sh - SCALE + fmt.bias2
    if not 1 <= exp <= 255:
        return None
    return fmt.bytes(neg, exp, man)


def int_to_fmt(fmt, i):
    """Exact encoding of a Python int in fmt (None if not representable)."""
    return encode_scaled(fmt, i << SCALE)


# ---------------------------------------------------------------------------
# rounding to integer (statement of C03)

_HALF = 1 << (SCALE - 1)


def cint_scaled(x):
    """Round half away from zero."""
    if x < 0:
        return -((-x + _HALF) >> SCALE)
    return (x + _HALF) >> SCALE


def fix_scaled(x):
    if x < 0:
        return -((-x) >> SCALE)
    return x >> SCALE


def floor_scaled(x):
    return x >> SCALE


# ---------------------------------------------------------------------------
# double -> single (statement of C03): allowed results

def csng_allowed(neg, exp, man56):
    """Set of acceptable outcomes for converting the double (neg, exp, man56):
    each is ('ok', single bytes) or ('err', OVERFLOW)."""
    if exp == 0:
        return None   # zero: any zero encoding
    lo = man56 >> 32
    low = man56 & 0xffffffff
    cands = []
    if low == 0 or low <= (1 << 31) - (1 << 24):
        cands.append(lo)
    elif low >= (1 << 31) + (1 << 24):
        cands.append(lo + 1)
    else:
        cands.extend((lo, lo + 1))
    out = []
    for m in cands:
        e = exp
        if m == 1 << 24:
            m >>= 1
            e += 1
        if e > 255:
            out.append(('err', OVERFLOW))
        else:
            out.append(('ok', SNG.bytes(neg, e, m)))
    return out


# ---------------------------------------------------------------------------
# exact arithmetic judge (statement of C04)
#
# exact result = P / Q * 2^s  (P signed int, Q positive int)

def exact_arith(op, fmt, a, b):
    """-> (P, Q, s) or 'dz' for division by zero.  a, b = (neg, exp, man)."""
    an, ae, am = a
    bn, be, bm = b
    if op == 'sub':
        bn = not bn
        op = 'add'
    if op == 'add':
        if ae == 0 and be == 0:
            return 0, 1, 0
        if ae == 0:
            return (-bm if bn else bm), 1, be - fmt.bias2
        if be == 0:
            return (-am if an else am), 1, ae - fmt.bias2
        s = ae if ae < be else be
        P = ((-am if an else am) << (ae - s)) + ((-bm if bn else bm) << (be - s))
        return P, 1, s - fmt.bias2
    if op == 'mul':
        if ae == 0 or be == 0:
            return 0, 1, 0
        P = am * bm
        return (-P if an != bn else P), 1, ae + be - 2 * fmt.bias2
    if op == 'div':
        if be == 0:
            return 'dz'
        if ae == 0:
            return 0, 1, 0
        return (-am if an != bn else am), bm, ae - be
    raise ValueError(op)


def _cmp_pow(absP, Q, s, num, k):
    """sign of  absP/Q*2^s  -  num*2^k   (num positive int)."""
    # absP * 2^s  vs  Q * num * 2^k
    l, r = absP, Q * num
    if s >= k:
        l <<= (s - k)
    else:
        r <<= (k - s)
    return (l > r) - (l < r)


def judge_arith(op, fmt, a, b, got):
    """Compare an observed outcome with the statement of C04.
    got = ('ok', (neg, exp, man)) | ('err', code).
    Returns (problem, label): problem is None if acceptable, else (key_suffix, explanation);
    label classifies the case (dz / ov / ov-edge / zero / underflow / exact / inexact)."""
    ex = exact_arith(op, fmt, a, b)
    if ex == 'dz':
        if got == ('err', DIVISION_BY_ZERO):
            return None, 'dz'
        return ('div-by-zero-not-raised', 'expected Division by zero, got %r' % (got,)), 'dz'
    P, Q, s = ex
    absP = -P if P < 0 else P
    nb = fmt.nbits
    if got[0] == 'err':
        if got[1] != OVERFLOW:
            return ('unexpected-error-%s' % got[1], 'unexpected error %r' % (got[1],)), 'err'
        # allowed only if |exact| > MAX = (2^nb - 1) * 2^(127 - nb)
        if absP and _cmp_pow(absP, Q, s, fmt.full, 127 - nb) > 0:
            return None, ('ov' if _cmp_pow(absP, Q, s, 1, 127) >= 0 else 'ov-edge')
        return ('spurious-overflow', 'Overflow raised although |exact| <= largest representable'), 'ov'
    rn, re_, rm = got[1]
    if re_ >= 254 and absP and _cmp_pow(absP, Q, s, 1, 127) >= 0:
        return ('missed-overflow', '|exact| >= 2^127 but no Overflow'), 'ov'
    if re_ == 0:
        # zero result: allowed iff exact is zero or |exact| < 2^-128
        if absP == 0:
            return None, 'zero'
        if _cmp_pow(absP, Q, s, 1, -128) < 0:
            return None, 'underflow'
        if op == 'mul' and fmt is DBL and _cmp_pow(absP, Q, s, 1, -96) < 0:
            return ('premature-underflow', 'result 0 although 2^-128 <= |exact| < 2^-96'), 'underflow'
        return ('zero-result-above-min', 'result 0 although |exact| >= 2^-128'), 'underflow'
    # error bound in units of the last place of the result
    t = re_ - fmt.bias2
    R = -rm if rn else rm
    m = s if s < t else t
    lhs = R * Q * (1 << (t - m)) - P * (1 << (s - m))
    if lhs == 0:
        return None, 'exact'
    if lhs < 0:
        lhs = -lhs
    unit = Q << (t - m)
    if op == 'add' or op == 'sub':
        if lhs <= 2 * unit:
            return None, ('inexact' if lhs <= unit else 'inexact>1ulp')
    else:
        if lhs < unit:
            return None, 'inexact'
    if _cmp_pow(absP, Q, s, 1, 127) >= 0:
        return ('missed-overflow', '|exact| >= 2^127 but no Overflow'), 'ov'
    return ('error-bound', 'error = %d/1024 ulp of the result' % (lhs * 1024 // unit,)), 'inexact'


def overflow_sign(op, fmt, a, b):
    """Sign (True = negative) of the exact result, None if zero / div by zero."""
    ex = exact_arith(op, fmt, a, b)
    if ex == 'dz' or ex[0] == 0:
        return None
    return ex[0] < 0


# ---------------------------------------------------------------------------
# alphabets (fixed; no randomness)

def mant_set(nbits, level):
    """Rounding-critical mantissa patterns, hidden bit set, as a sorted list.
    level 0: ~12 core patterns; 1: ~64; 2: ~170/400; 3: rich (with +-1 neighbours)."""
    full = (1 << nbits) - 1
    top = 1 << (nbits - 1)
    nbytes = nbits // 8
    s = set()

    def add(m):
        s.add((m | top) & full)

    # core
    core = [0, 1, full, full - 1, top >> 1, (top >> 1) | 1, full >> 2, 0x80, 0xff, 0x100,
            int('aa' * nbytes, 16), int('55' * nbytes, 16)]
    for m in core:
        add(m)
    # the two neighbours of sqrt(1/2): their squares straddle the normalisation boundary
    r = _isqrt(1 << (2 * nbits - 1))
    add(r)
    add(r + 1)
    if level == 0:
        return sorted(s)
    ks = range(nbits - 1)
    if level == 1:
        # single bits at every position; runs and guard-byte patterns at byte/shift boundaries
        for k in ks:
            add(1 << k)
        for k in (1, 2, 3, 7, 8, 9, 15, 16, 17, 23, 24, 31, 32, 33, 47, 48, 54):
            if k < nbits - 1:
                add((1 << k) - 1)
                add(full ^ ((1 << k) - 1))
        for byte in (0x7f, 0x81, 0xff):
            for k in (0, 1, 7, 8, 9, 16, 24, 32, 40, 47):
                if k + 8 <= nbits - 1:
                    add(byte << k)
        return sorted(s)
    for k in ks:
        add(1 << k)
        add(full ^ (1 << k))
        add((1 << k) - 1)
        add(full ^ ((1 << k) - 1))
    for byte in (0x7f, 0x81, 0xff, 0x55):
        for k in range(0, nbits - 8):
            add(byte << k)
    for m in ('0123456789abcdef', 'fedcba9876543210', 'c90fdaa22168c2', 'b504f333f9de64',
              'ffff0000ffff00', '8000800080008000'):
        add(int(m[:nbits // 4], 16))
    if level >= 3:
        base = sorted(s)
        for m in base:
            for d in (-2, -1, 1, 2):
                add((m + d) & full)
        for byte in range(256):
            add(byte)
            add(byte << 8)
            add(byte << (nbits - 9))
    return sorted(s)


def _isqrt(n):
    import math
    return math.isqrt(n)


def pick(seq, n):
    """Deterministic thinning of a sorted alphabet to about n elements (keeps both ends)."""
    seq = list(seq)
    if len(seq) <= n:
        return seq
    idx = sorted(set(i * (len(seq) - 1) // (n - 1) for i in range(n)))
    return [seq[i] for i in idx]
