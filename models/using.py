"""
Reference for PRINT USING fields (C08), written from the property statement and the
manual (docs/source/reference.html, "Format string syntax"); it does not import pcbasic.

The statement does not fix every character (tie rounding "within the accuracy of decimal
conversion", optional zero before the point, exponent letter), so instead of producing one
expected string the reference *analyses* an output string against the field:

    problems = analyse_number(spec, out, value, ulp, precision_digits)

returns a list of (key, message); empty list = the output is one of the outputs the
statement allows.  All arithmetic is exact (Fractions / ints).
"""
import re
from fractions import Fraction


class Spec(object):
    """A numeric field.  positions_before counts '#', ',' and the positions supplied by ** / $$ / **$."""
    __slots__ = ('text', 'width', 'lead_plus', 'star', 'dollar', 'before', 'comma', 'dot', 'decimals',
                 'sci', 'trail')

    def __repr__(self):
        return 'Spec(%r)' % (self.text,)


_SPEC = re.compile(r'^(\+?)(\*\*\$|\*\*|\$\$)?([#,]*)(\.(#*))?(\^\^\^\^)?([+-]?)$')


def parse_spec(text):
    """Parse a well-formed numeric field (the whole string is one field)."""
    m = _SPEC.match(text)
    if not m:
        return None
    plus, pre, ints, dotpart, decs, sci, trail = m.groups()
    if plus and trail:
        return None                      # a trailing sign after a leading + is a literal, not part of the field
    if ints.startswith(','):
        return None                      # a comma cannot start the digit part
    sp = Spec()
    sp.text = text
    sp.width = len(text)
    sp.lead_plus = bool(plus)
    sp.star = bool(pre) and pre.startswith('**')
    sp.dollar = bool(pre) and pre.endswith('$')
    # "** provides two digit positions", "$$ provides one digit position" (the other one is the $)
    sp.before = len(ints) + ({None: 0, '**': 2, '$$': 1, '**$': 2}[pre])
    sp.comma = ',' in ints
    sp.dot = dotpart is not None
    sp.decimals = len(decs or '')
    sp.sci = bool(sci)
    sp.trail = trail or None
    if sp.before + sp.decimals == 0:
        return None
    return sp


def digit_positions(sp):
    return sp.before + sp.decimals


_OUT = re.compile(rb'^([ *]*)([+-]?)(\$?)([0-9,]*)(\.([0-9]*))?(([ED])([+-])([0-9]{2,3}))?([+\- ]?)$')


def analyse_number(sp, out, value, ulp, prec):
    """value, ulp: Fractions (exact stored value and its binary unit in the last place);
    prec: 7 or 16 decimal digits of the type."""
    probs = []
    text = out
    overflow = text.startswith(b'%')
    if overflow:
        text = text[1:]
        if len(text) <= sp.width:
            probs.append(('percent-although-it-fits', '%r: the representation behind %% is not longer than the field' % out))
    elif len(out) != sp.width:
        probs.append(('wrong-width', '%r has %d characters, the field declares %d' % (out, len(out), sp.width)))
    if overflow and sp.sci:
        # the exponent absorbs the magnitude: a number fits a ^^^^ field whenever there is a place for its sign -
        # a sign position of the field, or the position before the point that ^^^^ fields keep for the sign
        # (not kept in $$ fields); a non-negative number always fits
        if value >= 0 or sp.lead_plus or sp.trail or (sp.before >= 1 and not sp.dollar):
            probs.append(('percent-in-scientific-notation', '%r: the number fits the field in scientific notation' % out))
    m = _OUT.match(text)
    if not m:
        probs.append(('malformed', '%r is not [fill][sign][$]digits[.digits][E+nn][sign]' % out))
        return probs
    fill, lsign, dollar, ints, dotpart, decs, expart, eletter, esign, edigits, tsign = m.groups()
    decs = decs or b''
    # the trailing-sign group also swallows a trailing blank of a non-trailing-sign field: only legal with trail '-'
    neg = value < 0
    # --- fill
    if overflow and fill:
        probs.append(('fill-behind-percent', '%r: fill characters although the number does not fit' % out))
    if fill.strip(b'*' if sp.star else b' '):
        probs.append(('wrong-fill-character', '%r: fill must be %r' % (out, '*' if sp.star else ' ')))
    # --- sign placement
    intdigits = ints.replace(b',', b'')
    shown_zero = not (intdigits + decs).strip(b'0')
    if sp.lead_plus:
        want_l, want_t = {b'-'} if neg else {b'+'}, {b''}
        if neg and shown_zero:
            want_l = {b'-', b'+'}
    elif sp.trail == '+':
        want_l, want_t = {b''}, ({b'-'} if neg else {b'+'})
        if neg and shown_zero:
            want_t = {b'-', b'+'}
    elif sp.trail == '-':
        want_l, want_t = {b''}, ({b'-'} if neg else {b' '})
        if neg and shown_zero:
            want_t = {b'-', b' '}
    else:
        want_l, want_t = ({b'-'} if neg else {b''}), {b''}
        if neg and shown_zero:
            want_l = {b'-', b''}
    if lsign not in want_l or tsign not in want_t:
        probs.append(('wrong-sign-placement', '%r: leading sign %r trailing sign %r for a %s value' % (
            out, lsign, tsign, 'negative' if neg else 'non-negative')))
    # --- dollar
    if bool(dollar) != sp.dollar:
        probs.append(('wrong-dollar', '%r: $ %s' % (out, 'missing' if sp.dollar else 'not asked for')))
    # --- commas
    if sp.comma and not sp.sci:
        if ints and not re.match(rb'^[0-9]{1,3}(,[0-9]{3})*$', ints):
            probs.append(('wrong-comma-grouping', '%r: integer part %r is not grouped in threes' % (out, ints)))
    elif b',' in ints:
        probs.append(('unexpected-comma', '%r: commas not asked for (or scientific notation)' % out))
    # --- decimal point and decimals
    if sp.dot:
        if dotpart is None:
            probs.append(('missing-decimal-point', '%r' % out))
        elif len(decs) != sp.decimals:
            probs.append(('wrong-number-of-decimals', '%r: %d decimals, field has %d' % (out, len(decs), sp.decimals)))
    elif dotpart is not None:
        probs.append(('unexpected-decimal-point', '%r' % out))
    # --- exponent
    if sp.sci != bool(expart):
        probs.append(('wrong-exponent-part', '%r: exponent part %s' % (out, 'missing' if sp.sci else 'not asked for')))
    # --- no superfluous zero in front when the number does not fit
    if overflow and len(intdigits) > 1 and intdigits.startswith(b'0'):
        probs.append(('leading-zeros-behind-percent', '%r' % out))
    if overflow and intdigits == b'0' and decs:
        probs.append(('leading-zeros-behind-percent', '%r: optional zero shown although the number does not fit' % out))
    if len(intdigits) > 1 and intdigits.startswith(b'0') and not sp.sci:
        probs.append(('leading-zeros', '%r' % out))
    # --- digits
    # scientific notation keeps one position before the point for the sign unless the field has its own sign
    # position; a field like "#^^^^" or "#.^^^^" then has no mantissa position at all.  GW-BASIC prints just the
    # exponent part (tests/basic/gwbasic/PRINT_USING_scientific: " E+01" for 1); the statement is silent there.
    no_mantissa = sp.sci and sp.decimals == 0 and sp.before - (0 if (sp.lead_plus or sp.trail) else 1) <= 0
    if no_mantissa and not (intdigits + decs).strip(b'0'):
        return probs
    if not intdigits and not decs:
        # no digit at all: GW-BASIC does that for zero in scientific notation; in fixed notation a bare "."
        # (no decimals asked for, optional zero omitted) stands for zero
        if sp.sci:
            if value != 0:
                probs.append(('no-digits', '%r shows no digits' % out))
            return probs
        if not (sp.dot and sp.decimals == 0 and dotpart is not None):
            probs.append(('no-digits', '%r shows no digits' % out))
            return probs
    if sp.sci and expart and value != 0 and not overflow:
        # the exponent is chosen so that the mantissa fills every position before the point (less the one
        # kept for the sign): a field shows as many significant digits as it has positions
        reserve = 0 if (sp.lead_plus or sp.trail or sp.dollar) else 1
        nd = 0 if intdigits == b'0' else len(intdigits)      # a lone zero is the optional zero before the point
        if nd != max(0, sp.before - reserve):
            probs.append(('mantissa-does-not-fill-the-field', '%r: %d digits before the point, the field has %d positions%s' % (
                out, nd, sp.before, ' (one kept for the sign)' if reserve else '')))
    shown = Fraction(int(intdigits + decs or b'0'), 10 ** len(decs))
    x = 0
    if expart:
        x = int(edigits)
        if esign == b'-':
            x = -x
        shown *= Fraction(10) ** x
    unit_field = Fraction(10) ** (x - len(decs))
    av = -value if neg else value
    if av == 0:
        if shown != 0:
            probs.append(('zero-shown-nonzero', '%r for the value 0' % out))
        return probs
    # position of the leading decimal digit of the value
    e10 = 0
    p = Fraction(1)
    if av >= 1:
        while p * 10 <= av:
            p *= 10
            e10 += 1
    else:
        while p > av:
            p /= 10
            e10 -= 1
    unit_prec = Fraction(10) ** (e10 - prec + 1)
    tol = max(unit_field, unit_prec) / 2 + ulp
    if abs(shown - av) > tol:
        probs.append(('digits-not-the-rounded-value',
                      '%r shows %s for the value %s (allowed: half a unit of the last digit = %s, plus one binary ulp)' % (
                          out, _dec(shown), _dec(av), _dec(max(unit_field, unit_prec) / 2))))
    return probs


def _dec(fr):
    return '%.17g' % float(fr)


# ---------------------------------------------------------------------------
# string fields

def string_field(field, s):
    """'!' first character, '&' whole string, backslash-spaces-backslash: cut or space-padded to the width."""
    if field == b'&':
        return s
    w = len(field)
    return s[:w] + b' ' * (w - len(s[:w]))


# ---------------------------------------------------------------------------
# enumeration of well-formed numeric fields

def int_patterns(maxlen):
    """Digit parts before the point: '', '#'*a, and the same with commas inserted (at most 2)."""
    out = ['']
    for a in range(1, maxlen + 1):
        out.append('#' * a)
    for total in range(2, maxlen + 1):
        # one comma somewhere behind the first #
        for pos in range(1, total):
            s = ['#'] * total
            s[pos] = ','
            out.append(''.join(s))
        if total >= 3:
            s = ['#'] * total
            s[1] = ','
            s[2] = ','
            out.append(''.join(s))       # "#,,#..." as in the GW-BASIC corpus
    seen = set()
    res = []
    for s in out:
        if s not in seen:
            seen.add(s)
            res.append(s)
    return res


def all_specs(max_positions, max_int, max_dec):
    """All well-formed fields  [+][**|$$|**$] ints [. #*] [^^^^] [+|-]  with at most max_positions digit
    positions (counting those of the prefix)."""
    specs = []
    for pre in ('', '**', '$$', '**$'):
        for ints in int_patterns(max_int):
            for dec in [None] + list(range(0, max_dec + 1)):
                body = pre + ints + ('' if dec is None else '.' + '#' * dec)
                for sci in ('', '^^^^'):
                    for lead, trail in (('', ''), ('+', ''), ('', '+'), ('', '-')):
                        text = lead + body + sci + trail
                        sp = parse_spec(text)
                        if sp is None or digit_positions(sp) > max_positions:
                            continue
                        specs.append(text)
    return specs
