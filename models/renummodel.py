"""
Reference model of RENUM on a program *AST* (C14), written from the property
statement; it never looks at tokenised bytes and never imports pcbasic.

A program is a list of (line number, parts) in ascending order; a part is either
bytes (literal listing text) or Ref(n), a line-number reference.  A part may also
be Opaque(text): text the oracle does not constrain (used for the arguments of a
RENUM statement stored inside the program).
"""


class Ref(object):
    __slots__ = ('n',)

    def __init__(self, n):
        self.n = n

    def __repr__(self):
        return 'Ref(%d)' % self.n


class Opaque(object):
    __slots__ = ('text',)

    def __init__(self, text):
        self.text = text


def line_text(num, parts):
    out = [b'%d ' % num]
    for p in parts:
        if isinstance(p, Ref):
            out.append(b'%d' % p.n)
        elif isinstance(p, Opaque):
            out.append(p.text)
        else:
            out.append(p)
    return b''.join(out)


def listing(program):
    return [line_text(num, parts) for num, parts in program]


def is_opaque_line(parts):
    return any(isinstance(p, Opaque) for p in parts)


def plan(program, new=None, old=None, inc=None):
    """old number -> new number for RENUM new,old,inc (defaults 10, 0, 10): the lines from
    `old` onward get new, new+inc, ... in their original order."""
    new = 10 if new is None else new
    old = 0 if old is None else old
    inc = 10 if inc is None else inc
    mapping = {}
    for num, _parts in program:
        if num >= old:
            mapping[num] = new
            new += inc
    return mapping


def renumber(program, mapping):
    """-> (renumbered program, [(missing reference, old number of the line holding it)])."""
    existing = set(num for num, _ in program)
    out = []
    missing = []
    for num, parts in program:
        newparts = []
        for p in parts:
            if isinstance(p, Ref):
                if p.n in existing:
                    p = Ref(mapping.get(p.n, p.n))
                else:
                    missing.append((p.n, num))
            newparts.append(p)
        out.append((mapping.get(num, num), newparts))
    return out, missing
