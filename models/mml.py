"""
Reference Music Macro Language interpreter (C42), written from the property statement and the
GW-BASIC manual's description of PLAY (not from sound.py):

  note number n = octave*12 + semitone + 1   (C=0 C#=1 D=2 ... B=11), or  N n  (1..84; N0 = rest)
  frequency   f = 440 * 2^((n-33)/12)
  duration    D = (60*4/T)/L seconds, x1.5 per dot; L from the note suffix or the current L
  gap         g*D with g = 1/8 (MN), 0 (ML), 1/4 (MS)
  P n         rest of length n (1..64); O n octave 0..6; < > octave down/up clamped to 0..6
  L n 1..64;  T n 32..255;  numbers may be given as  =variable;  or  = + VARPTR$ pointer
  X string    executes a substring (variable;  or VARPTR$ pointer)
  anything else / out-of-range numbers / sharps and flats that are not black keys: Illegal function call
Defaults: O4 L4 T120 MN.

A VARPTR$ pointer is represented in the reference string by 3 bytes whose first byte is the type
length (2 integer, 3 string); the variable is looked up by type in `variables`.

run(text, variables) -> (status, events, unspecified)
  status 'ok' | 'ifc';  events = list of ('note', n, D, g) / ('rest', D) emitted before the end/error
  unspecified: set of labels of constructs the statement/manual leave open (the caller accepts both
  outcomes for them).
"""

SEMITONE = {'C': 0, 'D': 2, 'E': 4, 'F': 5, 'G': 7, 'A': 9, 'B': 11}
BLACK = {1, 3, 6, 8, 10}
DIGITS = b'0123456789'


class IFC(Exception):
    pass


def freq(n):
    return 440.0 * 2.0 ** ((n - 33) / 12.0)


class State(object):
    def __init__(self):
        self.octave = 4
        self.L = 4
        self.T = 120
        self.gap = 0.125


class _Reader(object):
    def __init__(self, text):
        self.t = bytearray(text)
        self.i = 0

    def skip(self):
        while self.i < len(self.t) and self.t[self.i] == 0x20:
            self.i += 1

    def peek(self):
        self.skip()
        return bytes(self.t[self.i:self.i + 1])

    def read(self):
        c = self.peek()
        self.i += len(c)
        return c

    def insert(self, sub):
        self.t[self.i:self.i] = bytearray(sub)


def _number(rd, variables):
    """digits | =name; | = pointer."""
    c = rd.peek()
    if c == b'=':
        rd.read()
        v = _variable(rd, variables, 2)
        if isinstance(v, float):
            # a single or double is rounded to the nearest whole number, halves away from zero
            import math
            v = int(math.floor(abs(v) + 0.5)) * (-1 if v < 0 else 1)
        if not isinstance(v, int):
            raise IFC()
        return v
    if c and c in DIGITS:
        n = 0
        while rd.peek() and rd.peek() in DIGITS:
            n = n * 10 + int(rd.read())
        return n
    raise IFC()


def _variable(rd, variables, want_type):
    c = rd.peek()
    if not c:
        raise IFC()
    if ord(c) <= 8:
        # pointer: type byte + 2 address bytes
        rd.i += 3
        typ = ord(c)
        for name, val in variables.items():
            if (typ == 3) == isinstance(val, bytes) and (typ == 3 or name.endswith('%')):
                return val
        raise IFC()
    name = b''
    while rd.i < len(rd.t) and bytes(rd.t[rd.i:rd.i + 1]) not in (b';', b''):
        name += bytes(rd.t[rd.i:rd.i + 1])
        rd.i += 1
    if rd.read() != b';':
        raise IFC()
    try:
        return variables[name.decode('latin-1').strip().upper()]
    except KeyError:
        raise IFC()


def run(text, variables=None, state=None):
    variables = variables or {}
    st = state or State()
    rd = _Reader(text)
    events = []
    unspecified = set()
    try:
        while True:
            c = rd.read().upper()
            if c == b'':
                break
            if c == b';':
                nxt = rd.peek()
                if nxt in (b'', b';'):
                    # trailing / doubled separator: not specified
                    unspecified.add('separator')
                    if nxt == b'':
                        break
                continue
            if c in (b'A', b'B', b'C', b'D', b'E', b'F', b'G'):
                semi = SEMITONE[c.decode()]
                a = rd.peek()
                if a in (b'#', b'+'):
                    rd.read()
                    semi += 1
                    if semi % 12 not in BLACK:
                        raise IFC()
                elif a == b'-':
                    rd.read()
                    semi -= 1
                    if semi % 12 not in BLACK:
                        raise IFC()
                L = st.L
                if rd.peek() and rd.peek() in DIGITS:
                    n = 0
                    while rd.peek() and rd.peek() in DIGITS:
                        n = n * 10 + int(rd.read())
                    if n > 64:
                        raise IFC()
                    if n == 0:
                        unspecified.add('note-length-0')
                    else:
                        L = n
                D = (240.0 / st.T) / L
                while rd.peek() == b'.':
                    rd.read()
                    D *= 1.5
                events.append(('note', st.octave * 12 + semi + 1, D, st.gap))
            elif c == b'N':
                n = _number(rd, variables)
                if not 0 <= n <= 84:
                    raise IFC()
                D = (240.0 / st.T) / st.L
                while rd.peek() == b'.':
                    rd.read()
                    D *= 1.5
                if n == 0:
                    events.append(('rest', D))
                else:
                    events.append(('note', n, D, st.gap))
            elif c == b'P':
                if not (rd.peek() and rd.peek() in DIGITS):
                    raise IFC()
                n = 0
                while rd.peek() and rd.peek() in DIGITS:
                    n = n * 10 + int(rd.read())
                if n > 64:
                    raise IFC()
                if n == 0:
                    unspecified.add('rest-length-0')
                    while rd.peek() == b'.':
                        rd.read()
                    continue
                D = (240.0 / st.T) / n
                while rd.peek() == b'.':
                    rd.read()
                    D *= 1.5
                events.append(('rest', D))
            elif c == b'L':
                n = _number(rd, variables)
                if not 1 <= n <= 64:
                    raise IFC()
                st.L = n
            elif c == b'T':
                n = _number(rd, variables)
                if not 32 <= n <= 255:
                    raise IFC()
                st.T = n
            elif c == b'O':
                n = _number(rd, variables)
                if not 0 <= n <= 6:
                    raise IFC()
                st.octave = n
            elif c == b'>':
                st.octave = min(6, st.octave + 1)
            elif c == b'<':
                st.octave = max(0, st.octave - 1)
            elif c == b'M':
                m = rd.read().upper()
                if m == b'N':
                    st.gap = 0.125
                elif m == b'L':
                    st.gap = 0.0
                elif m == b'S':
                    st.gap = 0.25
                elif m in (b'F', b'B'):
                    pass
                else:
                    raise IFC()
            elif c == b'X':
                sub = _variable(rd, variables, 3)
                if not isinstance(sub, bytes):
                    raise IFC()
                rd.insert(sub)
            else:
                raise IFC()
    except IFC:
        return 'ifc', events, unspecified
    return 'ok', events, unspecified


def timeline(events, reading=1, shift=0):
    """Audible timeline [(frequency or 0, seconds)], adjacent silences merged.
    reading 1: the note sounds for D*(1-g) and is silent for D*g (the note occupies D);
    reading 2: the note sounds for D and is followed by a silence of D*g.
    shift: note numbers are offset by this many semitones (see C42: the statement's formula
    is one semitone above what GW-BASIC plays)."""
    out = []

    def add(f, d):
        if d <= 0:
            return
        if f == 0 and out and out[-1][0] == 0:
            out[-1] = (0, out[-1][1] + d)
        else:
            out.append((f, d))

    for ev in events:
        if ev[0] == 'rest':
            add(0, ev[1])
        else:
            _, n, D, g = ev
            add(freq(n + shift), D * (1 - g) if reading == 1 else D)
            add(0, D * g)
    return out
