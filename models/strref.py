"""
Reference definitions of the GW-BASIC string functions and statements (C09).

Written from the property statement and the manual (docs/source/reference.html), not from
the pcbasic sources.  Every function returns a pair

    (errors, value)

`errors` is the set of BASIC error codes that apply to the arguments (each out-of-range
argument contributes its own error; the statement does not fix which one is reported when
several apply, so the caller accepts any member).  If `errors` is empty the call must
succeed and return `value` (bytes or int).

Numeric arguments arrive as Python ints already rounded to the nearest integer, or the
token OVF if the number is outside [-32768, 32767].
"""

IFC = 5
OVERFLOW = 6
TYPE_MISMATCH = 13
STRING_TOO_LONG = 15

OVF = 'ovf'


def _num_errors(n, lo, hi):
    """Errors for one integer argument that must be in [lo, hi]."""
    if n is None:
        return set()
    if n == OVF:
        return {OVERFLOW}
    if not lo <= n <= hi:
        return {IFC}
    return set()


def left(s, n):
    errs = _num_errors(n, 0, 255)
    if errs:
        return errs, None
    return errs, s[:n]


def right(s, n):
    errs = _num_errors(n, 0, 255)
    if errs:
        return errs, None
    return errs, (s[len(s) - n:] if n < len(s) else s)


def mid(s, pos, n=None):
    errs = _num_errors(pos, 1, 255) | _num_errors(n, 0, 255)
    if errs:
        return errs, None
    if n is None:
        return errs, s[pos - 1:]
    return errs, s[pos - 1:pos - 1 + n]


def instr(start, parent, child):
    """Returns (errors, set of acceptable positions)."""
    errs = _num_errors(start, 1, 255)
    if errs:
        return errs, None
    if start is None:
        start = 1
    if start > len(parent):
        # GW-BASIC manual (INSTR): "returns 0 if I > LEN(X$), X$ is null, Y$ cannot be found"; these come
        # before "if Y$ is null, returns I", so also for an empty child just behind the end
        return errs, {0}
    if child == b'':
        return errs, {start}
    return errs, {parent.find(child, start - 1) + 1}


def string_(n, char):
    """char: int code (or OVF) or bytes."""
    errs = _num_errors(n, 0, 255)
    if isinstance(char, bytes):
        if char == b'':
            errs = errs | {IFC}
    else:
        errs = errs | _num_errors(char, 0, 255)
    if errs:
        return errs, None
    c = char[:1] if isinstance(char, bytes) else bytes([char])
    return errs, c * n


def space(n):
    errs = _num_errors(n, 0, 255)
    if errs:
        return errs, None
    return errs, b' ' * n


def chr_(n):
    errs = _num_errors(n, 0, 255)
    if errs:
        return errs, None
    return errs, bytes([n])


def asc(s):
    if s == b'':
        return {IFC}, None
    return set(), s[0]


def len_(s):
    return set(), len(s)


def concat(s, t):
    if len(s) + len(t) > 255:
        return {STRING_TOO_LONG}, None
    return set(), s + t


def compare(rel, s, t):
    """Byte-wise lexicographic; a proper prefix orders first.  BASIC truth = -1."""
    # explicit definition (not relying on Python's bytes ordering)
    k = 0
    c = 0
    while k < len(s) and k < len(t):
        if s[k] != t[k]:
            c = -1 if s[k] < t[k] else 1
            break
        k += 1
    else:
        c = (len(s) > len(t)) - (len(s) < len(t))
    r = {'=': c == 0, '<>': c != 0, '<': c < 0, '>': c > 0, '<=': c <= 0, '>=': c >= 0}[rel]
    return set(), (-1 if r else 0)


def mid_statement(target, pos, n, value):
    """MID$(target, pos[, n]) = value.
    Returns (errors, new target, optional_noop_ok): the third item is True where the manual is
    not decisive whether an error is due (length 0 with a position outside [1,255]): then both
    an Illegal function call and an unchanged target are accepted."""
    errs = _num_errors(n, 0, 255)
    optional = False
    if pos == OVF:
        errs = errs | {OVERFLOW}
    elif n == 0:
        # "position greater than the length: Illegal function call, except if length is 0";
        # whether a position outside [1,255] is still an error then is not decided
        optional = not 1 <= pos <= 255
    elif not 1 <= pos <= 255 or pos > len(target):
        errs = errs | {IFC}
    if errs:
        return errs, None, False
    if n == 0:
        if optional:
            return {IFC}, target, True
        return set(), target, False
    k = len(value)
    if n is not None:
        k = min(k, n)
    k = min(k, len(target) - pos + 1)
    new = target[:pos - 1] + value[:k] + target[pos - 1 + k:]
    assert len(new) == len(target)
    return set(), new, False


def mid_statement_forward_copy(target, pos, n):
    """What a byte-by-byte left-to-right copy yields for MID$(A$, pos[, n]) = A$ (the behaviour
    GW-BASIC itself shows: tests/basic/unsorted/MIDS)."""
    buf = bytearray(target)
    k = len(target)
    if n is not None:
        k = min(k, n)
    k = min(k, len(target) - pos + 1)
    for i in range(k):
        buf[pos - 1 + i] = buf[i]
    return bytes(buf)


def lset(target, value):
    w = len(target)
    v = value[:w]
    return set(), v + b' ' * (w - len(v))


def rset(target, value):
    w = len(target)
    v = value[:w]
    return set(), b' ' * (w - len(v)) + v
