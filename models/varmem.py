"""
Reference model of GW-BASIC variable storage, written from the documented layout
(GW-BASIC manual, appendix on memory / VARPTR) -- it does not import pcbasic.

  scalar record : type byte, name[0], name[1] or 0, len(name)-2 extra count, rest of name, VALUE
  array  record : type byte, name (as above), 2-byte size, 1-byte ndims, 2 bytes/dim, ELEMENTS
  value bytes   : % -> 16-bit two's complement little endian (MKI$)
                  ! -> 4-byte Microsoft Binary Format        (MKS$)
                  # -> 8-byte Microsoft Binary Format        (MKD$)
                  $ -> length byte + 16-bit address of the characters
  element order : first subscript varies fastest
"""
import struct
from fractions import Fraction
from itertools import product

SIZE = {'%': 2, '!': 4, '#': 8, '$': 3}


def sigil(name):
    return name[-1]


def value_size(name):
    return SIZE[name[-1]]


def scalar_record_size(name):
    """Bytes taken by a scalar: header (type byte + 3 name bytes, longer names extend it) + value.
    `name` includes the sigil; the sigil is not stored."""
    return 1 + max(3, len(name)) + value_size(name)


def array_record_size(name, dims, base):
    """Bytes taken by an array with maximum subscripts `dims` under OPTION BASE `base`."""
    n = 1
    for d in dims:
        n *= d + 1 - base
    return 1 + max(3, len(name)) + 3 + 2 * len(dims) + n * value_size(name)


def subscripts(dims, base):
    """All subscript tuples in storage order (first subscript fastest)."""
    ranges = [range(base, d + 1) for d in reversed(dims)]
    for t in product(*ranges):
        yield tuple(reversed(t))


def flat_index(sub, dims, base):
    idx = 0
    stride = 1
    for s, d in zip(sub, dims):
        idx += (s - base) * stride
        stride *= d + 1 - base
    return idx


# ---------------------------------------------------------------------------
# Microsoft Binary Format, exact encoder for values that are exactly representable

def mbf(x, size):
    """Encode an exactly representable rational as MBF single (size 4) or double (size 8)."""
    x = Fraction(x)
    if x == 0:
        return bytes(size)
    neg = x < 0
    ax = -x if neg else x
    nbits = (size - 1) * 8
    e = 0
    while ax >= 1:
        ax /= 2
        e += 1
    while ax < Fraction(1, 2):
        ax *= 2
        e -= 1
    man = ax * (1 << nbits)
    if man.denominator != 1:
        raise ValueError('%r is not exactly representable in %d-byte MBF' % (x, size))
    man = man.numerator
    expb = e + 128
    if not 1 <= expb <= 255:
        raise ValueError('%r out of MBF range' % (x,))
    mb = bytearray(man.to_bytes(size - 1, 'little'))
    mb[-1] &= 0x7f
    if neg:
        mb[-1] |= 0x80
    return bytes(mb) + bytes([expb])


def number_bytes(name, value):
    """MKI$/MKS$/MKD$ form of a numeric value for the variable's type."""
    t = name[-1]
    if t == '%':
        return struct.pack('<h', value)
    if t == '!':
        return mbf(value, 4)
    if t == '#':
        return mbf(value, 8)
    raise ValueError(name)


TYPE_BYTE = {'%': 2, '$': 3, '!': 4, '#': 8}
