"""
Reference text terminal (C36), written from the property statement:

  * printing plain text puts each character at the cursor and advances it; at the right margin
    the text wraps to the next row; when the cursor would leave the bottom of the VIEW PRINT
    window the window (and nothing else) scrolls up by one row;
  * LOCATE r, c puts the cursor on an in-screen cell.

Where the statement is silent the model is non-deterministic and returns every outcome it
allows (the real outcome must equal one of them):
  B  a PRINT item that does not fit on the rest of the row may be moved to the start of the next
     row as a whole (GW-BASIC does that) or wrap character by character;
  N  the newline after an item that ended exactly at the right margin may or may not leave an
     empty row (the wrap is pending: the terminal may count it as a line break or not);
  P  a cursor with a pending wrap may be reported at the margin or at the next cell.
"""


class Term(object):

    def __init__(self, width, height=25):
        self.w = width
        self.h = height
        self.grid = [bytearray(b' ' * width) for _ in range(height)]
        self.r, self.c = 1, 1           # c == w+1: wrap pending
        self.top, self.bottom = 1, height - 1
        self.view = False

    def clone(self):
        t = Term.__new__(Term)
        t.w, t.h = self.w, self.h
        t.grid = [bytearray(r) for r in self.grid]
        t.r, t.c = self.r, self.c
        t.top, t.bottom, t.view = self.top, self.bottom, self.view
        return t

    # ---------------------------------------------------------------------------

    def _scroll(self):
        del self.grid[self.top - 1]
        self.grid.insert(self.bottom - 1, bytearray(b' ' * self.w))

    def _down(self):
        self.r += 1
        self.c = 1
        if self.r > self.bottom:
            self._scroll()
            self.r = self.bottom

    def _put(self, ch):
        if self.c > self.w:
            self._down()
        self.grid[self.r - 1][self.c - 1] = ch
        self.c += 1

    def in_window(self):
        return self.top <= self.r <= self.bottom

    # ---------------------------------------------------------------------------

    def print_variants(self, text, newline):
        """All states the statement allows after PRINT text[;]."""
        starts = [self.clone()]
        col = min(self.c, self.w + 1)
        if self.c != 1 and (self.c - 1) + len(text) > self.w:
            t = self.clone()
            t._down()
            starts.append(t)
        out = []
        for t in starts:
            for ch in bytearray(text):
                t._put(ch)
            if not newline:
                out.append(t)
                continue
            if t.c > t.w:
                # pending wrap followed by a newline: one or two line breaks
                t2 = t.clone()
                t2._down()
                t2._down()
                out.append(t2)
            t._down()
            out.append(t)
        return out

    def cursor_reports(self):
        """Acceptable (CSRLIN, POS) reports for the current cursor."""
        if self.c <= self.w:
            return {(self.r, self.c)}
        reps = {(self.r, self.w)}
        if self.r < self.bottom:
            reps.add((self.r + 1, 1))
        else:
            reps.add((self.r, 1))
        return reps

    def rows(self):
        return [bytes(r) for r in self.grid]
