"""
Exact (integer arithmetic only) reference for C07: decimal text <-> MBF value.

Nothing here imports pcbasic.  A stored MBF value is the triple (neg, man, t) meaning
(-1)^neg * man * 2^t with man the mantissa including the hidden bit (24 or 56 bits),
or man == 0 for zero.
"""
import re

POW10 = [10 ** i for i in range(0, 400)]


def mbf_triple(b):
    """bytes of a Single/Double -> (neg, man, t, nbits); man == 0 for zero."""
    n = len(b)
    e = b[n - 1]
    nbits = (n - 1) * 8
    if e == 0:
        return False, 0, 0, nbits
    man = int.from_bytes(bytes(b[:n - 1]), 'little') | (1 << (nbits - 1))
    neg = bool(b[n - 2] & 0x80)
    return neg, man, e - 128 - nbits, nbits


# ---------------------------------------------------------------------------
# shown text

_SHOWN = re.compile(rb'^([ -]?)([0-9]*)(\.([0-9]*))?(([ED])([+-])([0-9][0-9]))?([!#%]?)$')


class Shown(object):
    __slots__ = ('neg', 'lead', 'digits', 'k', 'sig', 'expletter', 'typesign', 'ndigits', 'point')


def parse_shown(text):
    """Parse the output of a number-to-text conversion.  Returns Shown or None if the text is
    not of the form  [space|-] digits [. digits] [E|D sign dd] [!|#|%]."""
    m = _SHOWN.match(text)
    if not m:
        return None
    lead, ip, pt, fp, ex, el, es, ed, ts = m.groups()
    fp = fp or b''
    if not ip and not fp:
        return None
    s = Shown()
    s.lead = lead
    s.neg = lead == b'-'
    ds = ip + fp
    s.digits = int(ds)
    s.ndigits = len(ds)
    s.point = pt is not None
    x = 0
    if ex:
        x = int(ed)
        if es == b'-':
            x = -x
    s.k = x - len(fp)          # power of ten of the last digit shown
    sig = ds.lstrip(b'0').rstrip(b'0')
    s.sig = len(sig)
    s.expletter = el
    s.typesign = ts
    return s


def shown_error(sh, man, t):
    """Compare the shown magnitude with the stored magnitude man * 2^t.
    Returns (cmp_units, exact):  cmp_units is 0 if |shown - stored| < 1/2 unit of the last digit
    shown, 1 if < 1 unit, 2 otherwise; exact is True if shown == stored."""
    k = sh.k
    a = man << t if t >= 0 else man
    u = 1 if t >= 0 else 1 << (-t)
    if k < 0:
        a *= POW10[-k]
    elif k > 0:
        u *= POW10[k]
    d = sh.digits * u - a
    if d == 0:
        return 0, True
    if d < 0:
        d = -d
    if 2 * d <= u:
        return 0, False
    if d < u:
        return 1, False
    return 2, False


def int_value(man, t):
    """Integer value of man * 2^t, or None if not an integer."""
    if t >= 0:
        return man << t
    if man & ((1 << -t) - 1):
        return None
    return man >> -t


# ---------------------------------------------------------------------------
# decimal text to be read

_NUMERAL = re.compile(rb'^([+-]?)([0-9]*)(\.([0-9]*))?(([EDed])([+-]?)([0-9]*))?([!#%]?)$')


class Numeral(object):
    __slots__ = ('neg', 'signed', 'dint', 'x', 'sig_all', 'sig_min', 'expletter', 'sigil', 'plain_int', 'blanks')


def parse_numeral(text):
    """Reference reading of a decimal numeral (blanks anywhere are ignored).
    value = (-1)^neg * dint * 10^x."""
    raw = bytes(text)
    t = raw.replace(b' ', b'')
    m = _NUMERAL.match(t)
    if not m:
        return None
    sign, ip, pt, fp, ex, el, es, ed, sigil = m.groups()
    fp = fp or b''
    n = Numeral()
    n.blanks = t != raw
    n.neg = sign == b'-'
    n.signed = sign != b''
    ds = ip + fp
    n.dint = int(ds) if ds else 0
    x = 0
    if ex and ed:
        x = int(ed)
        if es == b'-':
            x = -x
    n.x = x - len(fp)
    # significant digits: leading zeros never count; trailing zeros of the fraction may or may not
    lead_stripped = ds.lstrip(b'0')
    n.sig_all = len(lead_stripped)
    if fp:
        fz = len(fp) - len(fp.rstrip(b'0'))
        n.sig_min = max(0, len(lead_stripped) - fz) if lead_stripped else 0
    else:
        n.sig_min = n.sig_all
    n.expletter = el.upper() if el else None
    n.sigil = sigil or None
    n.plain_int = pt is None and not ex
    return n


def read_error(num, man, t, nbits):
    """Is |stored - decimal| below one unit in the last binary place?
    stored magnitude = man * 2^t (man has nbits bits), decimal magnitude = dint * 10^x.
    Returns 0 if within half an ulp, 1 if within one ulp (ulp of the binade of the stored value,
    or of the decimal value when that lies in the next binade), 2 otherwise."""
    x = num.x
    # common scale F = 2^max(-t,0) * 10^max(-x,0) makes everything an integer
    f2 = -t if t < 0 else 0
    a = (man << t) if t >= 0 else man        # stored * F (before the power of ten)
    d = num.dint << f2                       # decimal * F (before the power of ten)
    u = (1 << t) if t >= 0 else 1            # ulp * F, ulp = 2^t
    if x >= 0:
        d *= POW10[x]
    else:
        p = POW10[-x]
        a *= p
        u *= p
    diff = d - a
    if diff < 0:
        diff = -diff
    if 2 * diff <= u:
        return 0
    if diff < u:
        return 1
    # decimal value in the next binade up: its ulp is twice as large
    top = (1 << nbits) * u           # 2^nbits * 2^t * F
    if d >= top and diff < 2 * u:
        return 1
    return 2


def decimal_cmp_pow2(num, p):
    """Compare the decimal magnitude dint*10^x with 2^p: -1, 0, 1."""
    a = num.dint
    b = 1
    if num.x >= 0:
        a *= POW10[num.x]
    else:
        b *= POW10[-num.x]
    if p >= 0:
        b <<= p
    else:
        a <<= -p
    return (a > b) - (a < b)


def decimal_cmp_frac(num, n2, d2):
    """Compare the decimal magnitude with n2/d2."""
    a = num.dint
    b = 1
    if num.x >= 0:
        a *= POW10[num.x]
    else:
        b *= POW10[-num.x]
    l, r = a * d2, n2 * b
    return (l > r) - (l < r)
