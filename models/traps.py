"""
Reference model of BASIC event trapping for the C38 program family, written from the
property statement.  Where the statement is silent the model is nondeterministic
(it keeps a SET of possible states) so that every behaviour the statement allows
is accepted:

  U1  occurrence while the trap is not enabled but 'stopped' (STOP issued from OFF, or
      OFF executed inside its own running handler): remembered or lost
  U2  a remembered occurrence when OFF is executed: kept or dropped
  U3  RETURN from a handler in which an explicit STOP was executed: stays stopped or not
  U4  occurrence while an error handler is active (trap ON/STOPped): remembered or lost
  U5  several traps dispatchable at one boundary: any non-empty subset may be entered, in
      any order (the implementation iterates a set); also none, for at most SLACK
      consecutive boundaries (the statement gives no timing, only that it is handled)
  kinds with latch_off=True (TIMER): an occurrence while OFF may be latched (the period
      elapsed) or lost

No pcbasic import.
"""

SLACK = 2   # boundaries a dispatchable occurrence may stay unhandled before 'missing entry'


class Program(object):
    """lines: dict line -> op; ops:
    ('def', trap, line) ('onerror', line) ('cmd', trap, 'ON'|'OFF'|'STOP') ('error',)
    ('nop',) ('end',) ('return',) ('resume_next',)"""

    def __init__(self, lines, handler_line, latch_off=()):
        self.lines = dict(lines)
        self.order = sorted(self.lines)
        self.nxt = {}
        for a, b in zip(self.order, self.order[1:]):
            self.nxt[a] = b
        self.nxt[self.order[-1]] = None
        self.handler_line = dict(handler_line)    # trap -> first line of its handler
        self.traps = sorted(self.handler_line)
        self.latch_off = set(latch_off)


class St(object):
    """One possible model state (hashable via key())."""
    __slots__ = ('en', 'stp', 'xstop', 'pend', 'gosub', 'errmode', 'resume_pc', 'on_error',
                 'stack', 'pc', 'wait', 'ended')

    def __init__(self, traps):
        self.en = {t: False for t in traps}       # in the enabled set (ON or STOPped after ON)
        self.stp = {t: False for t in traps}      # stopped (explicit STOP or running handler)
        self.xstop = {t: False for t in traps}    # an explicit STOP is in force
        self.pend = {t: False for t in traps}     # remembered occurrence
        self.gosub = {t: None for t in traps}     # handler line, None if undefined
        self.errmode = False
        self.resume_pc = None
        self.on_error = None
        self.stack = ()                           # frames (return_pc, trap or None)
        self.pc = None
        self.wait = {t: 0 for t in traps}
        self.ended = False

    def copy(self):
        c = St.__new__(St)
        c.en = dict(self.en)
        c.stp = dict(self.stp)
        c.xstop = dict(self.xstop)
        c.pend = dict(self.pend)
        c.gosub = dict(self.gosub)
        c.errmode = self.errmode
        c.resume_pc = self.resume_pc
        c.on_error = self.on_error
        c.stack = self.stack
        c.pc = self.pc
        c.wait = dict(self.wait)
        c.ended = self.ended
        return c

    def key(self):
        def t(d):
            return tuple(sorted(d.items()))
        return (t(self.en), t(self.stp), t(self.xstop), t(self.pend), t(self.gosub), self.errmode,
                self.resume_pc, self.on_error, self.stack, self.pc, t(self.wait), self.ended)

    def dispatchable(self, t):
        return (self.en[t] and not self.stp[t] and self.pend[t] and self.gosub[t] is not None
                and not self.errmode)


def _occur(prog, st, trap):
    """Successor states after an occurrence of trap's event (program running)."""
    out = []
    if st.en[trap]:
        if st.errmode:
            a = st.copy()
            a.pend[trap] = True
            out.append(a)
            out.append(st.copy())            # U4
        else:
            a = st.copy()
            a.pend[trap] = True
            out.append(a)
    else:
        out.append(st.copy())                # lost
        if st.stp[trap] or trap in prog.latch_off:
            a = st.copy()
            a.pend[trap] = True              # U1 / timer latch
            out.append(a)
    return out


def _perms(items):
    if not items:
        yield ()
        return
    for i, x in enumerate(items):
        for rest in _perms(items[:i] + items[i + 1:]):
            yield (x,) + rest


def _subsets(items):
    n = len(items)
    for mask in range(1, 1 << n):
        yield [items[i] for i in range(n) if mask & (1 << i)]


def _dispatch(prog, st, line):
    """States after the dispatch phase given that `line` is executed next."""
    out = []
    able = [t for t in prog.traps if st.dispatchable(t)]
    if line == st.pc:
        a = st.copy()
        dead = False
        for t in able:
            a.wait[t] += 1
            if a.wait[t] > SLACK:
                dead = True
        if not dead:
            out.append(a)
    for sub in _subsets(able):
        for seq in _perms(sub):
            if st.gosub[seq[-1]] != line:
                continue
            a = st.copy()
            for t in seq:
                a.pend[t] = False
                a.stp[t] = True
                a.wait[t] = 0
                a.stack = a.stack + ((a.pc, t),)
                a.pc = a.gosub[t]
            for t in able:
                if t not in seq:
                    a.wait[t] += 1
            if all(a.wait[t] <= SLACK for t in able):
                out.append(a)
    return out


def _exec(prog, st, line):
    """States after executing the statement on `line` (st.pc == line already)."""
    op = prog.lines[line]
    a = st.copy()
    a.pc = prog.nxt[line]
    kind = op[0]
    if kind == 'def':
        a.gosub[op[1]] = op[2]
        return [a]
    if kind == 'onerror':
        a.on_error = op[1]
        return [a]
    if kind == 'nop':
        return [a]
    if kind == 'cmd':
        t, c = op[1], op[2]
        if c == 'ON':
            a.en[t] = True
            a.stp[t] = False
            a.xstop[t] = False
            return [a]
        if c == 'STOP':
            a.stp[t] = True
            a.xstop[t] = True
            return [a]
        if c == 'OFF':
            a.en[t] = False
            a.wait[t] = 0
            if a.pend[t]:
                b = a.copy()
                b.pend[t] = False            # U2
                return [a, b]
            return [a]
    if kind == 'error':
        if a.on_error is not None and not a.errmode:
            a.errmode = True
            a.resume_pc = prog.nxt[line]
            a.pc = a.on_error
            return [a]
        a.ended = True
        a.pc = None
        return [a]
    if kind == 'end':
        a.ended = True
        a.pc = None
        return [a]
    if kind == 'return':
        if not a.stack:
            a.ended = True          # RETURN without GOSUB
            a.pc = None
            return [a]
        (rpc, t) = a.stack[-1]
        a.stack = a.stack[:-1]
        a.pc = rpc
        if t is None:
            return [a]
        if a.xstop[t]:
            b = a.copy()
            b.stp[t] = False        # U3
            b.xstop[t] = False
            return [a, b]
        a.stp[t] = False
        return [a]
    if kind == 'resume_next':
        a.errmode = False
        a.pc = a.resume_pc
        a.resume_pc = None
        return [a]
    raise ValueError('unknown op %r' % (op,))


def initial(prog):
    st = St(prog.traps)
    st.pc = prog.order[0]
    return st


def monitor(prog, iterations):
    """iterations: list of (occurrences, line) — the traps whose event occurred at the poll
    before the statement on `line` ran.  Returns None if some model behaviour matches the
    observation, else (index, reason, detail)."""
    states = {initial(prog).key(): initial(prog)}
    for idx, (occ, line) in enumerate(iterations):
        # 1. occurrences
        cur = list(states.values())
        for t in occ:
            nxt = {}
            for s in cur:
                for s2 in _occur(prog, s, t):
                    nxt[s2.key()] = s2
            cur = list(nxt.values())
        # 2. dispatch
        after = {}
        for s in cur:
            if s.ended:
                continue
            for s2 in _dispatch(prog, s, line):
                after[s2.key()] = s2
        if not after:
            return idx, _diagnose(prog, cur, line), {'line': line, 'occ': list(occ)}
        # 3. execute
        nxt = {}
        for s in after.values():
            for s2 in _exec(prog, s, line):
                nxt[s2.key()] = s2
        states = nxt
    if not any(s.ended for s in states.values()):
        return len(iterations), 'run-stopped-before-END', {}
    return None


def final_check(prog, states_final):
    return None


def _diagnose(prog, cur, line):
    """Why no model state can explain executing `line` next."""
    live = [s for s in cur if not s.ended]
    if not live:
        return 'ran-after-end'
    entered = [t for t in prog.traps if any(s.gosub[t] == line for s in live)]
    s = live[0]
    if entered and line != s.pc:
        t = entered[0]
        if s.errmode:
            return 'entry-while-error-handler-active'
        if not s.en[t]:
            return 'entry-while-off'
        if s.stp[t]:
            if any(fr[1] == t for fr in s.stack):
                return 'reentry-before-return'
            return 'entry-while-stopped'
        if not s.pend[t]:
            return 'entry-without-occurrence'
        return 'entry-not-allowed'
    able = [t for t in prog.traps if s.dispatchable(t)]
    if line == s.pc and able:
        return 'missing-entry'
    return 'wrong-control-flow'
