"""
Reference model of the DRAW pen (GML without angle commands), written from the property statement:

  * U D L R E F G H n : offset n * unit vector;  relative M dx,dy : offset (dx,dy);
    every offset component is multiplied by scale, divided by four and truncated (toward zero)
  * absolute M x,y sets the position
  * prefix B: move without drawing; prefix N: draw, then return to the start of the move
  * S n sets the scale (default 4), C n the colour
  * each drawn segment is the line from the start to the end of the move

The model works on semantic primitives; the check builds DRAW strings and the primitive
list side by side from one token table, so no parser is shared with the code under test.
"""

UNIT = {
    'U': (0, -1), 'D': (0, 1), 'L': (-1, 0), 'R': (1, 0),
    'E': (1, -1), 'F': (1, 1), 'G': (-1, 1), 'H': (-1, -1),
}


def trunc_div4(v):
    """v/4 truncated toward zero, exact integer arithmetic."""
    q = abs(v) // 4
    return -q if v < 0 else q


def move(letter, n=1, plot=True, goback=False):
    ux, uy = UNIT[letter]
    return ('rel', ux * n, uy * n, plot, goback)


def rel(dx, dy, plot=True, goback=False):
    return ('rel', dx, dy, plot, goback)


def absolute(x, y, plot=True, goback=False):
    return ('abs', x, y, plot, goback)


def scale(n):
    return ('scale', n)


def colour(n):
    return ('colour', n)


class Pen(object):
    def __init__(self, x, y, scale=4, colour=None):
        self.x, self.y = x, y
        self.scale = scale
        self.colour = colour
        self.segments = []      # (x0, y0, x1, y1, colour) in drawing order

    def run(self, prims):
        for p in prims:
            k = p[0]
            if k == 'scale':
                self.scale = p[1]
            elif k == 'colour':
                self.colour = p[1]
            elif k == 'nop':
                pass
            elif k in ('rel', 'abs'):
                _, a, b, plot, goback = p
                x0, y0 = self.x, self.y
                if k == 'rel':
                    x1 = x0 + trunc_div4(a * self.scale)
                    y1 = y0 + trunc_div4(b * self.scale)
                else:
                    x1, y1 = a, b
                if plot:
                    self.segments.append((x0, y0, x1, y1, self.colour))
                if not goback:
                    self.x, self.y = x1, y1
            else:
                raise ValueError('unknown primitive %r' % (p,))
        return self
