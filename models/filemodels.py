"""
Boring reference models for the file properties C24-C26.  Written from the property
statements; nothing here imports pcbasic.

LockModel     - per file number a set of held record ranges on ONE file
RecordFile    - a random-access file as a list of fixed-length records
"""

WHOLE = (0, 0)      # whole-file lock (LOCK #n without a range)


def overlaps(a, b):
    """Do two lock ranges share at least one record?  WHOLE covers every record."""
    if a == WHOLE or b == WHOLE:
        return True
    return a[0] <= b[1] and b[0] <= a[1]


def relation(new, held):
    """Name the geometric relation of range `new` to a held range (for case classes)."""
    if new == WHOLE and held == WHOLE:
        return 'whole-whole'
    if new == WHOLE:
        return 'whole-over-range'
    if held == WHOLE:
        return 'range-under-whole'
    (a, b), (c, d) = new, held
    if (a, b) == (c, d):
        return 'equal'
    if b < c or d < a:
        return 'adjacent' if (b + 1 == c or d + 1 == a) else 'disjoint'
    if a <= c and d <= b:
        return 'containing'
    if c <= a and b <= d:
        return 'contained'
    return 'overlap-left' if a < c else 'overlap-right'


class LockModel(object):
    """Lock sets per file number; numbers that are closed hold nothing."""

    def __init__(self, numbers):
        self.held = {n: set() for n in numbers}
        self.open = {n: True for n in numbers}

    def copy(self):
        m = LockModel(())
        m.held = {n: set(s) for n, s in self.held.items()}
        m.open = dict(self.open)
        return m

    def key(self):
        return tuple(
            (n, self.open[n], tuple(sorted(self.held[n]))) for n in sorted(self.held)
        )

    def all_held(self, exclude=None):
        return [(n, r) for n, s in self.held.items() if n != exclude for r in s]

    def conflicts(self, rng):
        """Held (number, range) pairs overlapping rng - through ANY number."""
        return [(n, r) for n, r in self.all_held() if overlaps(rng, r)]

    def may_lock(self, n, rng):
        return self.open[n] and not self.conflicts(rng)

    def may_unlock(self, n, rng):
        return self.open[n] and rng in self.held[n]

    def locked_by_other(self, n, rec):
        return [(m, r) for m, r in self.all_held(exclude=n) if overlaps((rec, rec), r)]

    def lock(self, n, rng):
        self.held[n].add(rng)

    def unlock(self, n, rng):
        self.held[n].discard(rng)

    def close(self, n):
        self.held[n] = set()
        self.open[n] = False

    def reopen(self, n):
        self.open[n] = True
        self.held[n] = set()

    def disjoint(self):
        """All held ranges pairwise disjoint (across and within numbers)?"""
        allr = self.all_held()
        for i in range(len(allr)):
            for j in range(i + 1, len(allr)):
                if overlaps(allr[i][1], allr[j][1]):
                    return False
        return True


def pairwise_overlaps(lock_sets):
    """lock_sets: {number: iterable of ranges}. -> list of overlapping ((n,r),(m,q))."""
    allr = [(n, r) for n, s in sorted(lock_sets.items()) for r in sorted(s)]
    bad = []
    for i in range(len(allr)):
        for j in range(i + 1, len(allr)):
            if overlaps(allr[i][1], allr[j][1]):
                bad.append((allr[i], allr[j]))
    return bad


class RecordFile(object):
    """A random-access file: fixed record length, records numbered from 1,
    never-written records below the end are zero bytes."""

    def __init__(self, reclen, data=b''):
        self.reclen = reclen
        self.data = bytearray(data)

    def copy(self):
        return RecordFile(self.reclen, self.data)

    def nrec(self):
        return len(self.data) // self.reclen

    def put(self, rec, payload):
        assert len(payload) == self.reclen
        end = rec * self.reclen
        if len(self.data) < end:
            self.data.extend(b'\0' * (end - len(self.data)))
        self.data[end - self.reclen:end] = payload

    def get(self, rec):
        """Record content, or None if the record lies beyond the end (unspecified)."""
        end = rec * self.reclen
        if end > len(self.data):
            return None
        return bytes(self.data[end - self.reclen:end])

    def lof(self):
        return len(self.data)
