"""
Reference video-signal consumer (C35): a plain byte canvas plus a character grid.

Semantics as a display plugin applies them (pcbasic/interface/video.py documents the
signal parameters; video_sdl2 is the pixel consumer, video_ansi/curses the text one):

  set_mode(canvas_height, canvas_width, text_height, text_width)
      new black canvas, blank text grid; cell = ceil(ch/th) x (cw // tw) pixels
  update(row, col, unicode_matrix, attr_matrix, y0, x0, sprite)
      sprite pixels are copied to (y0, x0) (clipped to the canvas); the characters
      are written from (row, col)
  clear_rows(back_attr, start_row, stop_row)
      text rows start..stop (inclusive, 1-based) become blank / back_attr pixels
  scroll(direction, start_row, stop_row, back_attr)
      direction -1: rows start+1..stop move up one, row stop is cleared to back_attr
      direction  1: rows start..stop-1 move down one, row start is cleared to back_attr
"""


class Canvas(object):

    def __init__(self):
        self.mode = None
        self.pixels = None
        self.text = None
        self.attrs = None
        self.cursor = None
        self.cursor_visible = None
        self.border = None
        self.palette = None

    def set_mode(self, canvas_height, canvas_width, text_height, text_width):
        self.mode = (canvas_height, canvas_width, text_height, text_width)
        self.height, self.width = canvas_height, canvas_width
        self.text_height, self.text_width = text_height, text_width
        self.font_height = -(-canvas_height // text_height)
        self.font_width = canvas_width // text_width
        self.pixels = [bytearray(canvas_width) for _ in range(canvas_height)]
        self.text = [[u' '] * text_width for _ in range(text_height)]

    def update(self, row, col, unicode_matrix, attr_matrix, y0, x0, sprite):
        # text
        for r, chars in enumerate(unicode_matrix):
            tr = row - 1 + r
            if 0 <= tr < self.text_height:
                for c, ch in enumerate(chars):
                    tc = col - 1 + c
                    if 0 <= tc < self.text_width:
                        self.text[tr][tc] = ch
        # pixels; sprite = (height, width, bytes) or None
        if not sprite:
            return
        sh, sw, data = sprite
        if not sh or not sw:
            return
        for i in range(sh):
            y = y0 + i
            if not 0 <= y < self.height:
                continue
            w = min(sw, self.width - x0)
            if w > 0:
                self.pixels[y][x0:x0 + w] = data[i * sw:i * sw + w]

    def clear_rows(self, back_attr, start, stop):
        fh = self.font_height
        for y in range(max(0, (start - 1) * fh), min(self.height, stop * fh)):
            self.pixels[y] = bytearray([back_attr]) * self.width
        for r in range(max(1, start), min(self.text_height, stop) + 1):
            self.text[r - 1] = [u' '] * self.text_width

    def scroll(self, direction, start, stop, back_attr):
        fh = self.font_height
        old_pixels = [bytearray(r) for r in self.pixels]
        old_text = [list(r) for r in self.text]
        if direction == -1:
            # rows start+1..stop -> start..stop-1
            for y in range((start - 1) * fh, (stop - 1) * fh):
                if 0 <= y < self.height and y + fh < self.height:
                    self.pixels[y] = old_pixels[y + fh]
            for r in range(start, stop):
                if 1 <= r < self.text_height:
                    self.text[r - 1] = old_text[r]
            self.clear_rows(back_attr, stop, stop)
        else:
            # rows start..stop-1 -> start+1..stop
            for y in range(start * fh, stop * fh):
                if 0 <= y < self.height and y - fh >= 0:
                    self.pixels[y] = old_pixels[y - fh]
            for r in range(start + 1, stop + 1):
                if 2 <= r <= self.text_height:
                    self.text[r - 1] = old_text[r - 2]
            self.clear_rows(back_attr, start, start)

    def move_cursor(self, row, col, attr, width):
        self.cursor = (row, col)

    def show_cursor(self, cursor_on, cursor_blinks):
        self.cursor_visible = cursor_on

    def set_border_attr(self, attr):
        self.border = attr

    def set_palette(self, attributes, pack_pixels):
        self.palette = attributes

    def pixel_bytes(self):
        return b''.join(bytes(r) for r in self.pixels)

    def chars(self):
        return tuple(tuple(r) for r in self.text)
