"""
minibasic - an independent reference interpreter for the small structured-BASIC
subset used by the C19 / C21 / C22 checks.

It is written from the property statements (and the GW-BASIC manual where the
statements are silent - every such place raises `Unspecified`, which the checks
treat as "accept anything from here on").  It imports nothing from pcbasic; the
error numbers below are the documented GW-BASIC error codes.

A program is a list of lines  (number, [statement, ...]);  a statement is a tuple:

  ('print', 'txt')                 PRINT "txt";
  ('printv', 'V')                  PRINT V;            (number or string variable)
  ('printerr',)                    PRINT ERR;ERL;
  ('printerrno',)                  PRINT ERR;
  ('printerl',)                    PRINT ERL;
  ('let', 'V', expr)               V=expr
  ('for', fid, 'V', a, b, s)       FOR V=a TO b [STEP s]     (a, b, s: expr; s may be None)
  ('next', [fid, ...], named)      NEXT / NEXT J,I   fid None = a NEXT with no lexical FOR
  ('while', wid, expr)             WHILE expr
  ('wend', wid)                    WEND              wid None = a WEND with no lexical WHILE
  ('goto', n) ('gosub', n) ('return',)
  ('if', expr, then_line)          IF expr THEN [line]  (the THEN statements follow in the line)
  ('else', else_line)              ELSE [line]          (the ELSE statements follow in the line)
  ('on', expr, 'goto'|'gosub', [n, ...])
  ('end',) ('rem', 'txt')
  ('error', n)                     ERROR n
  ('onerror', n)                   ON ERROR GOTO n
  ('resume', None|0|'next'|n)
  ('data', 'raw text')             DATA raw text
  ('read', ['V', ...])  ('restore', None|n)

Expressions: ('c', number|str) ('v', 'V') ('ERR',) ('ERL',) ('+',e,e) ('-',e,e) ('*',e,e) ('/',e,e)
             ('rel', op, e, e) with op in = <> < > <= >=
Numbers are exact Fractions; the checks only generate values that are exactly
representable in the variable's type, so no rounding model is needed.
"""
import re
from fractions import Fraction

# documented GW-BASIC error codes (same numbers as pcbasic.basic.base.error)
NEXT_WITHOUT_FOR = 1
SYNTAX = 2
RETURN_WITHOUT_GOSUB = 3
OUT_OF_DATA = 4
ILLEGAL_FUNCTION_CALL = 5
OVERFLOW = 6
OUT_OF_MEMORY = 7
UNDEFINED_LINE = 8
DIVISION_BY_ZERO = 11
TYPE_MISMATCH = 13
NO_RESUME = 19
RESUME_WITHOUT_ERROR = 20
FOR_WITHOUT_NEXT = 26
WHILE_WITHOUT_WEND = 29
WEND_WITHOUT_WHILE = 30


class ModelError(Exception):
    """The program is outside the subset the model understands (harness bug)."""


class Unspecified(Exception):
    """The property statement does not say what happens next."""


class _BasicError(Exception):
    def __init__(self, code, line=None, fatal=False):
        Exception.__init__(self, code)
        self.code = code
        self.line = line      # override of the reported line (DATA errors)
        self.fatal = fatal    # not offered to the ON ERROR handler


class _NeedChoice(Exception):
    pass


###############################################################################
# rendering

def fmt_num(x):
    """PRINT representation of an exactly representable small number."""
    x = Fraction(x)
    sign = '-' if x < 0 else ' '
    a = -x if x < 0 else x
    if a.denominator == 1:
        if a.numerator >= 10 ** 7:
            raise ModelError('number too large for the model: %r' % (x,))
        body = str(a.numerator)
    else:
        d = a.denominator
        k = 0
        while d % 2 == 0:
            d //= 2
            k += 1
        m = 0
        while d % 5 == 0:
            d //= 5
            m += 1
        if d != 1:
            raise ModelError('non-terminating decimal %r' % (x,))
        digits = max(k, m)
        scaled = a * 10 ** digits
        assert scaled.denominator == 1
        s = str(scaled.numerator).rjust(digits + 1, '0')
        ip, fp = s[:-digits], s[-digits:]
        ip = ip.lstrip('0')
        body = ip + '.' + fp
        if len(body.replace('.', '')) > 7:
            raise ModelError('too many digits for single precision: %r' % (x,))
    return sign + body + ' '


def lit(x):
    """Literal text for a constant in program text."""
    if isinstance(x, str):
        return '"%s"' % x
    x = Fraction(x)
    s = fmt_num(x).strip()
    return s


def expr_text(e, top=True):
    k = e[0]
    if k == 'c':
        t = lit(e[1])
        return t
    if k == 'v':
        return e[1]
    if k in ('ERR', 'ERL'):
        return k
    if k in ('+', '-', '*', '/'):
        t = '%s%s%s' % (expr_text(e[1], False), k, expr_text(e[2], False))
    elif k == 'rel':
        t = '%s%s%s' % (expr_text(e[2], False), e[1], expr_text(e[3], False))
    else:
        raise ModelError('bad expression %r' % (e,))
    return t if top else '(' + t + ')'


# layout of the generated text: 'tight' (no optional blanks) or 'spaced' (a blank before every
# list comma and before every statement separator: the blanks are kept in the stored program)
LAYOUT = 'tight'


def _comma():
    return ' ,' if LAYOUT == 'spaced' else ','


def stmt_text(s):
    k = s[0]
    if k == 'print':
        return 'PRINT "%s";' % s[1]
    if k == 'printv':
        return 'PRINT %s;' % s[1]
    if k == 'printerr':
        return 'PRINT ERR;ERL;'
    if k == 'printerrno':
        return 'PRINT ERR;'
    if k == 'printerl':
        return 'PRINT ERL;'
    if k == 'let':
        return '%s=%s' % (s[1], expr_text(s[2]))
    if k == 'for':
        t = 'FOR %s=%s TO %s' % (s[2], expr_text(s[3]), expr_text(s[4]))
        if s[5] is not None:
            t += ' STEP %s' % expr_text(s[5])
        return t
    if k == 'next':
        return 'NEXT' + ((' ' + _comma().join(s[2])) if s[2] else '')
    if k == 'while':
        return 'WHILE %s' % expr_text(s[2])
    if k == 'wend':
        return 'WEND'
    if k == 'goto':
        return 'GOTO %d' % s[1]
    if k == 'gosub':
        return 'GOSUB %d' % s[1]
    if k == 'return':
        return 'RETURN'
    if k == 'if':
        return 'IF %s THEN' % expr_text(s[1]) + ('' if s[2] is None else ' %d' % s[2])
    if k == 'else':
        return 'ELSE' + ('' if s[1] is None else ' %d' % s[1])
    if k == 'on':
        return 'ON %s %s %s' % (expr_text(s[1]), s[2].upper(), _comma().join('%d' % n for n in s[3]))
    if k == 'end':
        return 'END'
    if k == 'rem':
        return 'REM %s' % s[1]
    if k == 'error':
        return 'ERROR %d' % s[1]
    if k == 'onerror':
        return 'ON ERROR GOTO %d' % s[1]
    if k == 'resume':
        if s[1] is None:
            return 'RESUME'
        if s[1] == 'next':
            return 'RESUME NEXT'
        return 'RESUME %d' % s[1]
    if k == 'data':
        return 'DATA' + s[1]
    if k == 'read':
        return 'READ ' + _comma().join(s[1])
    if k == 'restore':
        return 'RESTORE' + ('' if s[1] is None else ' %d' % s[1])
    raise ModelError('bad statement %r' % (s,))


def line_text(stmts):
    """Text of one line (without number): statements joined by ':' except that the
    statement following THEN / ELSE is attached with a blank, and ELSE is preceded
    by a blank (the tokeniser supplies its own ':' before ELSE)."""
    out = ''
    prev = None
    for s in stmts:
        t = stmt_text(s)
        if prev is None:
            out = t
        elif s[0] == 'else':
            out += ' ' + t
        elif prev[0] in ('if', 'else'):
            if prev[0] == 'if' and prev[2] is not None:
                # IF c THEN 100 followed by more statements: dead code, keep syntax valid
                out += ':' + t
            elif prev[0] == 'else' and prev[1] is not None:
                out += ':' + t
            else:
                out += ' ' + t
        else:
            out += (' :' if LAYOUT == 'spaced' else ':') + t
        prev = s
    return out


def program_text(lines):
    """-> list of bytes lines '10 ...'."""
    return [('%d %s' % (n, line_text(st))).encode('ascii') for n, st in lines]


###############################################################################
# DATA items

_NUM_RE = re.compile(r'^[+-]?(\d+\.?\d*|\.\d+)([ED][+-]?\d+)?[!#%]?$')


def split_data(raw):
    """Split the raw text of one DATA statement into items.
    -> list of (kind, text): kind 'q' quoted (text = content), 'u' unquoted (text
    stripped of surrounding blanks), 'bad' a quoted string followed by junk."""
    items = []
    i = 0
    n = len(raw)
    while True:
        # skip leading blanks
        while i < n and raw[i] == ' ':
            i += 1
        if i < n and raw[i] == '"':
            j = raw.find('"', i + 1)
            if j < 0:
                # unterminated quote runs to the end of the statement
                items.append(('q', raw[i + 1:]))
                i = n
            else:
                content = raw[i + 1:j]
                i = j + 1
                k = i
                while k < n and raw[k] == ' ':
                    k += 1
                if k < n and raw[k] != ',':
                    # junk after the closing quote
                    m = raw.find(',', k)
                    items.append(('bad', raw[i - len(content) - 2:(m if m >= 0 else n)]))
                    i = m if m >= 0 else n
                else:
                    items.append(('q', content))
                    i = k
        else:
            j = i
            while j < n and raw[j] != ',':
                if raw[j] == '"':
                    # a quote inside an unquoted item: GW reads on to the closing quote;
                    # the checks do not generate this
                    raise ModelError('quote inside unquoted DATA item: %r' % raw)
                j += 1
            items.append(('u', raw[i:j].strip(' ')))
            i = j
        if i < n and raw[i] == ',':
            i += 1
            continue
        break
    return items


def data_number(text):
    """Numeric value of an unquoted DATA item, or None if it is not a number."""
    if text == '':
        return Fraction(0)
    if not _NUM_RE.match(text):
        return None
    t = text.rstrip('!#%')
    m = re.match(r'^([+-]?)(\d*)\.?(\d*)(?:[ED]([+-]?\d+))?$', t)
    sign, ip, fp, ex = m.group(1), m.group(2), m.group(3), m.group(4)
    v = Fraction(int((ip + fp) or '0'), 10 ** len(fp))
    if ex:
        v *= Fraction(10) ** int(ex)
    return -v if sign == '-' else v


###############################################################################
# the machine

class Outcome(object):
    """trace: printed text; final: ('end',) | ('err', code, line|None) | ('unspec', why)."""

    def __init__(self, trace, final, steps, notes):
        self.trace = trace
        self.final = final
        self.steps = steps
        self.notes = notes

    def key(self):
        return (self.trace, self.final)

    def __repr__(self):
        return 'Outcome(%r, %r)' % (self.trace, self.final)


def _vartype(name):
    return name[-1] if name[-1] in '%!#$' else '!'


def _canon(name):
    return name if name[-1] in '%!#$' else name + '!'


class Machine(object):

    def __init__(self, lines, choices=(), max_steps=5000):
        self.lines = [(n, list(st)) for n, st in lines]
        self.index = {}
        for i, (n, st) in enumerate(self.lines):
            if n in self.index:
                raise ModelError('duplicate line %d' % n)
            if i and n <= self.lines[i - 1][0]:
                raise ModelError('lines not ascending')
            self.index[n] = i
        # structural links
        self.next_of = {}       # fid -> (li, si, k)
        self.for_of = {}        # fid -> (li, si)
        self.wend_of = {}       # wid -> (li, si)
        self.while_of = {}      # wid -> (li, si)
        self.data = []          # (line number, [items])
        for li, (n, st) in enumerate(self.lines):
            for si, s in enumerate(st):
                if s[0] == 'for':
                    self.for_of[s[1]] = (li, si)
                elif s[0] == 'next':
                    for k, fid in enumerate(s[1]):
                        if fid is not None:
                            self.next_of[fid] = (li, si, k)
                elif s[0] == 'while':
                    self.while_of[s[1]] = (li, si)
                elif s[0] == 'wend' and s[1] is not None:
                    self.wend_of[s[1]] = (li, si)
                elif s[0] == 'data':
                    self.data.append((n, split_data(s[1])))
        self.choices = list(choices)
        self.nchoice = 0
        self.choice_arity = []
        self.max_steps = max_steps
        # run-time state
        self.vars = {}
        self.trace = []
        self.for_stack = []     # (fid, var, stop, step)
        self.while_stack = []   # wid
        self.gosub_stack = []   # return pc
        self.dptr = (0, 0)      # (data statement index, item index)
        self.on_error = 0
        self.in_handler = False
        self.resume_pc = None
        self.err = 0
        self.erl = 0
        self.direct = None
        self.pc = None
        self.steps = 0
        self.notes = set()

    # -- helpers -----------------------------------------------------------

    def choose(self, n, tag):
        """Nondeterministic choice point (outcomes the statement leaves open)."""
        i = self.nchoice
        self.nchoice += 1
        self.notes.add(tag)
        if i < len(self.choices):
            return self.choices[i]
        self.choice_arity.append(n)
        self.choices.append(0)
        return 0

    def stmts_of(self, pc):
        space, li, si = pc
        return self.direct if space == 'D' else self.lines[li][1]

    def lineno(self, pc):
        return None if pc[0] == 'D' else self.lines[pc[1]][0]

    def after(self, pc):
        """Pointer to the statement following pc (may point past the line end; normalised in step)."""
        return (pc[0], pc[1], pc[2] + 1)

    def next_line(self, pc):
        if pc[0] == 'D':
            return ('D', 0, len(self.direct))
        return ('P', pc[1] + 1, 0)

    def goto(self, n):
        if n not in self.index:
            raise _BasicError(UNDEFINED_LINE)
        return ('P', self.index[n], 0)

    def get(self, name):
        name = _canon(name)
        if name in self.vars:
            return self.vars[name]
        return '' if _vartype(name) == '$' else Fraction(0)

    def set(self, name, value):
        name = _canon(name)
        t = _vartype(name)
        if t == '$':
            if not isinstance(value, str):
                raise _BasicError(TYPE_MISMATCH)
        else:
            if isinstance(value, str):
                raise _BasicError(TYPE_MISMATCH)
            if t == '%':
                if value.denominator != 1:
                    raise ModelError('fraction into integer variable (rounding is not modelled)')
                if not -32768 <= value <= 32767:
                    raise _BasicError(OVERFLOW)
        self.vars[name] = value

    def ev(self, e):
        k = e[0]
        if k == 'c':
            return e[1] if isinstance(e[1], str) else Fraction(e[1])
        if k == 'v':
            return self.get(e[1])
        if k == 'ERR':
            return Fraction(self.err)
        if k == 'ERL':
            if self.erl is None:
                raise ModelError('ERL of a direct-mode error is not specified')
            return Fraction(self.erl)
        if k in ('+', '-', '*', '/'):
            a, b = self.ev(e[1]), self.ev(e[2])
            if isinstance(a, str) or isinstance(b, str):
                if k == '+' and isinstance(a, str) and isinstance(b, str):
                    return a + b
                raise _BasicError(TYPE_MISMATCH)
            if k == '+':
                return a + b
            if k == '-':
                return a - b
            if k == '*':
                return a * b
            if b == 0:
                if not self.on_error:
                    # without ON ERROR a float division by zero is a soft error in GW-BASIC
                    raise ModelError('division by zero without ON ERROR is not modelled')
                raise _BasicError(DIVISION_BY_ZERO)
            return a / b
        if k == 'rel':
            a, b = self.ev(e[2]), self.ev(e[3])
            if isinstance(a, str) != isinstance(b, str):
                raise _BasicError(TYPE_MISMATCH)
            r = {'=': a == b, '<>': a != b, '<': a < b, '>': a > b,
                 '<=': a <= b, '>=': a >= b}[e[1]]
            return Fraction(-1 if r else 0)
        raise ModelError('bad expression %r' % (e,))

    def num(self, e):
        v = self.ev(e)
        if isinstance(v, str):
            raise _BasicError(TYPE_MISMATCH)
        return v

    # -- execution ---------------------------------------------------------

    def run(self, start_line=None, direct=None):
        """RUN the program (or execute a direct line against the current state)."""
        if direct is not None:
            self.direct = list(direct)
            self.pc = ('D', 0, 0)
        else:
            self.pc = ('P', 0, 0) if start_line is None else self.goto(start_line)
        final = None
        try:
            while final is None:
                final = self.step()
        except Unspecified as u:
            final = ('unspec', str(u))
        return Outcome(''.join(self.trace), final, self.steps, set(self.notes))

    def step(self):
        pc = self.pc
        space, li, si = pc
        # normalise
        if space == 'P':
            if li >= len(self.lines):
                return self.finish_end(fell_off=True)
            if si >= len(self.lines[li][1]):
                self.pc = ('P', li + 1, 0)
                return None
        else:
            if si >= len(self.direct):
                return ('end',)
        self.steps += 1
        if self.steps > self.max_steps:
            raise ModelError('model step bound exceeded (program does not terminate?)')
        s = self.stmts_of(pc)[si]
        try:
            r = self.execute(s, pc)
            if r is not None:
                return r
        except _BasicError as e:
            return self.raise_error(e, pc)
        return None

    def finish_end(self, fell_off=False):
        if self.in_handler:
            # the statement does not say what an unfinished handler does (GW: No RESUME / ends)
            raise Unspecified('program ended inside the error handler')
        return ('end',)

    def raise_error(self, e, pc):
        self.err = e.code
        line = e.line if e.line is not None else self.lineno(pc)
        self.erl = line
        if self.on_error and not self.in_handler and not e.fatal:
            self.resume_pc = pc
            self.in_handler = True
            self.pc = ('P', self.index[self.on_error], 0)
            return None
        # the program stops: no handler is active any more (a later RESUME has nothing to resume)
        self.in_handler = False
        self.resume_pc = None
        return ('err', e.code, line)

    def passed(self, value, stop, step):
        return value > stop if step > 0 else value < stop

    def execute(self, s, pc):
        k = s[0]
        nxt = self.after(pc)
        if k == 'print':
            self.trace.append(s[1])
        elif k == 'printv':
            v = self.get(s[1])
            self.trace.append(v if isinstance(v, str) else fmt_num(v))
        elif k == 'printerr':
            self.trace.append(fmt_num(self.err))
            if self.erl is None:
                raise ModelError('ERL of a direct-mode error is not specified')
            self.trace.append(fmt_num(self.erl))
        elif k == 'printerrno':
            self.trace.append(fmt_num(self.err))
        elif k == 'printerl':
            if self.erl is None:
                raise ModelError('ERL of a direct-mode error is not specified')
            self.trace.append(fmt_num(self.erl))
        elif k == 'let':
            self.set(s[1], self.ev(s[2]))
        elif k in ('rem', 'data'):
            if k == 'rem':
                nxt = self.next_line(pc)
        elif k == 'end':
            return self.finish_end()
        elif k == 'goto':
            nxt = self.goto(s[1])
        elif k == 'gosub':
            target = self.goto(s[1])
            self.gosub_stack.append(nxt)
            nxt = target
        elif k == 'return':
            if not self.gosub_stack:
                raise _BasicError(RETURN_WITHOUT_GOSUB)
            nxt = self.gosub_stack.pop()
        elif k == 'if':
            cond = self.num(s[1])
            if cond != 0:
                if s[2] is not None:
                    nxt = self.goto(s[2])
            else:
                nxt = self.find_else(pc)
        elif k == 'else':
            # reached at the end of a THEN branch: the rest of the line is skipped
            nxt = self.next_line(pc)
        elif k == 'on':
            n = self.num(s[1])
            if n.denominator != 1:
                raise ModelError('non-integer ON selector')
            if n < 0 or n > 255:
                # the statement only says "falls through for ... n beyond the list";
                # GW-BASIC documents Illegal function call: accept either
                if self.choose(2, 'on-out-of-range') == 0:
                    raise _BasicError(ILLEGAL_FUNCTION_CALL)
            elif 1 <= n <= len(s[3]):
                target = self.goto(s[3][int(n) - 1])
                if s[2] == 'gosub':
                    self.gosub_stack.append(nxt)
                nxt = target
        elif k == 'for':
            nxt = self.do_for(s, pc, nxt)
        elif k == 'next':
            nxt = self.do_next(s, pc, 0, nxt)
        elif k == 'while':
            nxt = self.do_while(s, pc, nxt)
        elif k == 'wend':
            nxt = self.do_wend(s, pc, nxt)
        elif k == 'error':
            if not 1 <= s[1] <= 255:
                raise _BasicError(ILLEGAL_FUNCTION_CALL)
            raise _BasicError(s[1])
        elif k == 'onerror':
            if s[1] != 0 and s[1] not in self.index:
                raise _BasicError(UNDEFINED_LINE)
            if s[1] == 0 and self.in_handler:
                raise Unspecified('ON ERROR GOTO 0 inside the handler')
            self.on_error = s[1]
        elif k == 'resume':
            if not self.in_handler:
                if self.on_error and self.choose(2, 'resume-without-error-while-trap-armed') == 1:
                    # "raises RESUME without error": whether an armed trap catches it is not said
                    raise _BasicError(RESUME_WITHOUT_ERROR, fatal=True)
                raise _BasicError(RESUME_WITHOUT_ERROR)
            where = s[1]
            if where not in (None, 0, 'next') and where not in self.index:
                # RESUME to a missing line: which state remains is not specified
                raise Unspecified('RESUME to an undefined line')
            self.in_handler = False
            rpc = self.resume_pc
            self.resume_pc = None
            if where is None or where == 0:
                nxt = rpc
            elif where == 'next':
                nxt = self.after(rpc)
            else:
                nxt = self.goto(where)
        elif k == 'read':
            for name in s[1]:
                self.do_read(name)
        elif k == 'restore':
            self.do_restore(s[1])
        else:
            raise ModelError('bad statement %r' % (s,))
        self.pc = nxt
        return None

    def find_else(self, pc):
        """Pointer to the ELSE branch matching the IF at pc (nearest-IF binding), or the next line."""
        st = self.stmts_of(pc)
        depth = 0
        for j in range(pc[2] + 1, len(st)):
            if st[j][0] == 'if':
                depth += 1
            elif st[j][0] == 'else':
                if depth == 0:
                    if st[j][1] is not None:
                        return self.goto(st[j][1])
                    return (pc[0], pc[1], j + 1)
                depth -= 1
        return self.next_line(pc)

    def do_for(self, s, pc, nxt):
        _, fid, var, a, b, st = s
        start = self.num(a)
        stop = self.num(b)
        step = Fraction(1) if st is None else self.num(st)
        if _vartype(var) in '$#':
            raise _BasicError(TYPE_MISMATCH)
        if _vartype(var) == '%':
            for v in (start, stop, step):
                if v.denominator != 1:
                    raise ModelError('fraction into integer loop')
                if not -32768 <= v <= 32767:
                    raise _BasicError(OVERFLOW)
        if step == 0:
            raise Unspecified('FOR ... STEP 0')
        if fid not in self.next_of:
            raise ModelError('FOR without lexical NEXT is not modelled')
        self.set(var, start)
        # a new FOR on a variable that still has an (abandoned) loop record replaces it
        for i, rec in enumerate(self.for_stack):
            if _canon(rec[1]) == _canon(var):
                del self.for_stack[i:]
                break
        if self.passed(start, stop, step):
            self.notes.add('zero-trip-for')
            if _vartype(var) == '%' and not -32768 <= start + step <= 32767:
                self.notes.add('zero-trip-for-start-plus-step-overflows')
            # zero trips: continue after the matching NEXT; if that NEXT names further
            # variables (NEXT J,I) the remaining ones are processed as usual
            li, si, k = self.next_of[fid]
            npc = ('P', li, si)
            nstmt = self.lines[li][1][si]
            if k + 1 < len(nstmt[1]):
                self.notes.add('zero-trip-for-into-next-list')
                try:
                    return self.do_next(nstmt, npc, k + 1, self.after(npc))
                except _BasicError as e:
                    # the rest of the list is executed where it stands: an error in it is
                    # reported in the line of that NEXT (GW keeps the current line up to
                    # date while it scans for the NEXT), not in the line of the skipped FOR
                    if e.line is None:
                        e.line = self.lineno(npc)
                    raise
            return self.after(npc)
        self.for_stack.append((fid, var, stop, step))
        return nxt

    def do_next(self, s, pc, k0, nxt):
        fids = s[1]
        for k in range(k0, len(fids)):
            fid = fids[k]
            if fid is None:
                if self.for_stack:
                    # a NEXT that belongs to no FOR lexically while some loop is active:
                    # GW matches it dynamically; the statement only covers the error case
                    raise Unspecified('stray NEXT while a loop is active')
                raise _BasicError(NEXT_WITHOUT_FOR)
            for i in range(len(self.for_stack) - 1, -1, -1):
                if self.for_stack[i][0] == fid:
                    break
            else:
                raise _BasicError(NEXT_WITHOUT_FOR)
            del self.for_stack[i + 1:]
            _, var, stop, step = self.for_stack[i]
            self.set(var, self.get(var) + step)
            if not self.passed(self.get(var), stop, step):
                fli, fsi = self.for_of[fid]
                return ('P', fli, fsi + 1)
            self.for_stack.pop()
        return nxt

    def do_while(self, s, pc, nxt):
        wid = s[1]
        if wid not in self.wend_of:
            raise ModelError('WHILE without lexical WEND is not modelled')
        if self.num(s[2]) != 0:
            if wid in self.while_stack:
                del self.while_stack[self.while_stack.index(wid):]
            self.while_stack.append(wid)
            return nxt
        li, si = self.wend_of[wid]
        return ('P', li, si + 1)

    def do_wend(self, s, pc, nxt):
        wid = s[1]
        if wid is None:
            if self.while_stack:
                raise Unspecified('stray WEND while a loop is active')
            raise _BasicError(WEND_WITHOUT_WHILE)
        if wid not in self.while_stack:
            raise _BasicError(WEND_WITHOUT_WHILE)
        del self.while_stack[self.while_stack.index(wid) + 1:]
        wli, wsi = self.while_of[wid]
        cond = self.num(self.lines[wli][1][wsi][2])
        if cond != 0:
            return ('P', wli, wsi + 1)
        self.while_stack.pop()
        return nxt

    def do_read(self, name):
        di, ii = self.dptr
        while di < len(self.data) and ii >= len(self.data[di][1]):
            di, ii = di + 1, 0
        if di >= len(self.data):
            raise _BasicError(OUT_OF_DATA)
        dline, items = self.data[di]
        kind, text = items[ii]
        if kind == 'bad':
            # quoted string followed by junk: not covered by the statement
            raise Unspecified('malformed quoted DATA item')
        if _vartype(name) == '$':
            value = text
        else:
            v = data_number(text) if kind == 'u' else None
            if v is None:
                # "a non-numeric item read into a numeric variable raises Syntax error on the DATA line"
                raise _BasicError(SYNTAX, line=dline)
            value = v
        self.dptr = (di, ii + 1)
        self.set(name, value)

    def do_restore(self, n):
        if n is None:
            self.dptr = (0, 0)
            return
        if n not in self.index:
            # RESTORE to a missing line: GW says Undefined line number; the statement's
            # "first DATA at or after line n" would also make sense: accept either
            if self.choose(2, 'restore-missing-line') == 0:
                raise _BasicError(UNDEFINED_LINE)
        for di, (dline, _) in enumerate(self.data):
            if dline >= n:
                self.dptr = (di, 0)
                return
        self.dptr = (len(self.data), 0)


def run_all(lines, direct=None, max_steps=5000, max_variants=16):
    """All outcomes the statement allows: list of Outcome (one per resolution of
    the nondeterministic choice points).  With `direct`, the program is RUN first
    and the direct line is then executed against the resulting state; the outcome
    is that of the direct line (its trace includes the RUN's)."""
    out = []
    todo = [[]]
    while todo:
        ch = todo.pop()
        m = Machine(lines, ch, max_steps)
        o = m.run()
        if direct is not None and o.final[0] != 'unspec':
            first = o
            m.gosub_stack = m.gosub_stack  # state persists
            o = m.run(direct=direct)
            o.first = first
        # new choice points discovered in this run: schedule the alternatives
        base = len(ch)
        for j, ar in enumerate(m.choice_arity):
            for alt in range(1, ar):
                todo.append(m.choices[:base + j] + [alt])
        out.append(o)
        if len(out) > max_variants:
            raise ModelError('too many nondeterministic variants')
    return out
