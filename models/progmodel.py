"""
Reference model of a stored BASIC program for C13 (written from the property
statement, never imports pcbasic).

A program is a dict  line number -> body,  body one of
    ('p', tag)      PRINT "tag":END
    ('r', text)     REM text
    ('g', target)   GOTO target
The model knows how each editing operation changes the dict, how the listing of
a line looks, how RENUM maps numbers and references, and where execution that
starts at a line ends up (a three-instruction interpreter).
"""


def body_text(body):
    kind, arg = body
    if kind == 'p':
        return b'PRINT "%s":END' % (arg,)
    if kind == 'r':
        return b'REM %s' % (arg,)
    if kind == 'g':
        return b'GOTO %d' % (arg,)
    raise ValueError(body)


def line_text(num, body):
    if body[0] == 'ws':
        # a line number followed by blanks only: deletes the line
        return b'%d%s' % (num, body[1])
    return b'%d %s' % (num, body_text(body))


class ProgramModel(object):

    def __init__(self, lines=None):
        self.lines = dict(lines or {})

    def copy(self):
        return ProgramModel(self.lines)

    def numbers(self):
        return sorted(self.lines)

    def listing(self):
        return [line_text(n, self.lines[n]) for n in self.numbers()]

    # -- operations.  Each returns a small label of what happened (for evidence).
    # `rejected` is the observed outcome on the real system: a rejected operation
    # must leave the program alone.

    def enter(self, num, body):
        if num in self.lines:
            old = len(body_text(self.lines[num]))
            new = len(body_text(body))
            lab = 'replace-' + ('same' if old == new else 'longer' if new > old else 'shorter')
        else:
            nums = self.numbers()
            if not nums:
                lab = 'insert-first'
            elif num < nums[0]:
                lab = 'insert-front'
            elif num > nums[-1]:
                lab = 'insert-end'
            else:
                lab = 'insert-middle'
        self.lines[num] = body
        return lab

    def may_reject_empty(self, num):
        """Entering an empty line for a missing number has nothing to delete."""
        return num not in self.lines

    def empty(self, num):
        if num in self.lines:
            del self.lines[num]
            return 'delete-line'
        return 'delete-missing'

    def in_range(self, lo, hi):
        lo = 0 if lo is None else lo
        hi = 65535 if hi is None else hi
        return [n for n in self.lines if lo <= n <= hi]

    def delete(self, lo, hi):
        sel = self.in_range(lo, hi)
        for n in sel:
            del self.lines[n]
        if not sel:
            return 'delete-none'
        return 'delete-all' if not self.lines else 'delete-some'

    def new(self):
        self.lines = {}
        return 'new'

    def renum_plan(self, new, old, inc):
        """old->new map for RENUM new,old,inc (defaults 10,0,10)."""
        new = 10 if new is None else new
        old = 0 if old is None else old
        inc = 10 if inc is None else inc
        mapping = {}
        for n in self.numbers():
            if n >= old:
                mapping[n] = new
                new += inc
        return mapping

    def renum_wellformed(self, new, old, inc):
        """True if the renumbering keeps all numbers distinct, ascending and <= 65529."""
        mapping = self.renum_plan(new, old, inc)
        res = [mapping.get(n, n) for n in self.numbers()]
        return all(a < b for a, b in zip(res, res[1:])) and all(n <= 65529 for n in mapping.values())

    def renum(self, new, old, inc):
        mapping = self.renum_plan(new, old, inc)
        out = {}
        for n, body in self.lines.items():
            if body[0] == 'g' and body[1] in self.lines:
                body = ('g', mapping.get(body[1], body[1]))
            out[mapping.get(n, n)] = body
        changed = any(k != v for k, v in mapping.items())
        self.lines = out
        return 'renum-changed' if changed else 'renum-same'

    def merge(self, file_lines):
        for n, body in file_lines:
            if body[0] == 'ws':
                del self.lines[n]
            else:
                self.lines[n] = body
        return 'merge'

    def load(self, file_lines):
        self.lines = {}
        return 'load' + self.merge(file_lines)[5:]

    # -- execution from a line: ('end'|'undef'|'loop', [tags printed], line of the error)

    def run_from(self, num):
        nums = self.numbers()
        pc = nums.index(num)
        seen = set()
        out = []
        while True:
            if pc >= len(nums):
                return 'end', out, None
            if pc in seen:
                return 'loop', out, None
            seen.add(pc)
            kind, arg = self.lines[nums[pc]]
            if kind == 'p':
                out.append(arg)
                return 'end', out, None
            if kind == 'r':
                pc += 1
            else:
                if arg not in self.lines:
                    return 'undef', out, nums[pc]
                pc = nums.index(arg)
