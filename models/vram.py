"""
Reference model of PC video memory layouts (C34).

Written from the documented layouts of the adapters (IBM CGA/EGA/PCjr technical
references; the mode table in the pcbasic documentation), NOT from framebuffer.py:

  text      : page p at base + p*page_size; cell (row, col) at 2*(row*width+col):
              even byte = character code, odd byte = attribute.
  packed    : `banks` interleaved banks of 0x2000 bytes per page; scan line y is
              in bank y % banks at row y // banks; bytes_per_row bytes per line;
              pixels MSB-first, bpp bits each.
  planar    : EGA: linear, width/8 bytes per scan line, 4 bit planes; reads return
              the plane selected by the read-map register (OUT &H3CF), writes go to
              the planes enabled in the map mask (OUT &H3C5).
  tandy6    : PCjr/Tandy 640x200x4: 4 banks, 160 bytes per line, byte pairs cover 8
              pixels; the even byte holds attribute bit 0, the odd byte bit 1.

Content model: graphics page = list of bytearray rows (one attribute per pixel);
text page = (chars: list of bytearray rows, attrs: list of bytearray rows).
"""

VIDEO_LO = 0xa0000
VIDEO_HI = 0xc0000   # PEEK/POKE/BSAVE treat [a0000, c0000) as video memory


class Layout(object):
    def __init__(self, kind, base, page_size, width, height, bpp=0, banks=1, bpr=0):
        self.kind = kind
        self.base = base
        self.page_size = page_size
        self.width = width      # pixels, or text columns
        self.height = height    # pixels, or text rows
        self.bpp = bpp
        self.banks = banks
        self.bank_size = 0x2000
        self.bpr = bpr
        if kind == 'planar':
            self.bpr = width // 8
        self.rows_per_bank = -(-height // banks) if kind in ('packed', 'tandy6') else 0

    def __repr__(self):
        return 'Layout(%s %dx%d bpp%d banks%d bpr%d page%#x @%#x)' % (
            self.kind, self.width, self.height, self.bpp, self.banks, self.bpr,
            self.page_size, self.base)

    # -- geometry ---------------------------------------------------------------

    def locate(self, off):
        """offset in page -> None (slack, backs no content) or
        text: (row, col, is_attr); packed: (y, x0, npix); planar: (y, x0, 8);
        tandy6: (y, x0, 8, plane)."""
        k = self.kind
        if k == 'text':
            cell, odd = divmod(off, 2)
            row, col = divmod(cell, self.width)
            if row >= self.height:
                return None
            return row, col, odd
        if k == 'planar':
            y, c = divmod(off, self.bpr)
            if y >= self.height:
                return None
            return y, c * 8, 8
        bank, o = divmod(off, self.bank_size)
        if bank >= self.banks:
            return None
        r, c = divmod(o, self.bpr)
        y = r * self.banks + bank
        if y >= self.height:
            return None
        if k == 'packed':
            ppb = 8 // self.bpp
            return y, c * ppb, ppb
        # tandy6
        return y, (c // 2) * 8, 8, c % 2

    def offset_of_row(self, y):
        """Offset in page of the first byte of scan line / text row y."""
        if self.kind == 'text':
            return y * self.width * 2
        if self.kind == 'planar':
            return y * self.bpr
        return (y % self.banks) * self.bank_size + (y // self.banks) * self.bpr

    # -- byte semantics ---------------------------------------------------------

    def peek(self, page, off, plane=0):
        """Byte at offset off of a page (content model), or None in slack."""
        loc = self.locate(off)
        if loc is None:
            return None
        k = self.kind
        if k == 'text':
            row, col, odd = loc
            return (page[1] if odd else page[0])[row][col]
        if k == 'packed':
            y, x0, n = loc
            bpp = self.bpp
            v = 0
            row = page[y]
            for i in range(n):
                v = (v << bpp) | (row[x0 + i] & ((1 << bpp) - 1))
            return v
        if k == 'planar':
            y, x0, n = loc
            v = 0
            row = page[y]
            for i in range(8):
                v = (v << 1) | ((row[x0 + i] >> plane) & 1)
            return v
        y, x0, n, pl = loc
        v = 0
        row = page[y]
        for i in range(8):
            v = (v << 1) | ((row[x0 + i] >> pl) & 1)
        return v

    def poke(self, page, off, val, mask=0x0f):
        """Write one byte; returns False if the offset backs no content."""
        loc = self.locate(off)
        if loc is None:
            return False
        k = self.kind
        if k == 'text':
            row, col, odd = loc
            (page[1] if odd else page[0])[row][col] = val
            return True
        if k == 'packed':
            y, x0, n = loc
            bpp = self.bpp
            m = (1 << bpp) - 1
            row = page[y]
            for i in range(n):
                row[x0 + i] = (val >> (bpp * (n - 1 - i))) & m
            return True
        if k == 'planar':
            y, x0, n = loc
            row = page[y]
            for i in range(8):
                bit = (val >> (7 - i)) & 1
                p = row[x0 + i] & ~mask & 0xff
                if bit:
                    p |= mask
                row[x0 + i] = p
            return True
        y, x0, n, pl = loc
        row = page[y]
        for i in range(8):
            bit = (val >> (7 - i)) & 1
            row[x0 + i] = (row[x0 + i] & ~(1 << pl) & 0xff) | (bit << pl)
        return True


    # -- fast block write (same semantics as poke() byte by byte) ---------------

    def _tables(self):
        t = getattr(self, '_tab', None)
        if t is None:
            loc = [self.locate(o) for o in range(self.page_size)]
            lut = None
            if self.kind == 'packed':
                bpp, n = self.bpp, 8 // self.bpp
                m = (1 << bpp) - 1
                lut = [bytes((v >> (bpp * (n - 1 - i))) & m for i in range(n)) for v in range(256)]
            elif self.kind in ('planar', 'tandy6'):
                # SPREAD[v]: 8-byte big-endian integer with byte i = bit (7-i) of v
                lut = [int.from_bytes(bytes((v >> (7 - i)) & 1 for i in range(8)), 'big')
                       for v in range(256)]
            t = self._tab = (loc, lut)
        return t

    def poke_block(self, pages, addr, data, mask=0x0f):
        """Write data byte-at-a-time semantics starting at absolute address addr;
        pages: dict page number -> content (pages not in the dict are skipped)."""
        loc, lut = self._tables()
        kind = self.kind
        ps = self.page_size
        rel = addr - self.base
        ones = 0x0101010101010101
        for i, val in enumerate(data):
            pno, off = divmod(rel + i, ps)
            page = pages.get(pno)
            if page is None:
                continue
            l = loc[off]
            if l is None:
                continue
            if kind == 'text':
                (page[1] if l[2] else page[0])[l[0]][l[1]] = val
            elif kind == 'packed':
                page[l[0]][l[1]:l[1] + l[2]] = lut[val]
            else:
                m = mask if kind == 'planar' else (1 << l[3])
                row = page[l[0]]
                x0 = l[1]
                old = int.from_bytes(row[x0:x0 + 8], 'big')
                new = (old & ~(ones * m) & 0xffffffffffffffff) | (lut[val] * m)
                row[x0:x0 + 8] = new.to_bytes(8, 'big')

    # -- pages ------------------------------------------------------------------

    def new_page(self):
        if self.kind == 'text':
            return ([bytearray(b' ' * self.width) for _ in range(self.height)],
                    [bytearray(self.width) for _ in range(self.height)])
        return [bytearray(self.width) for _ in range(self.height)]

    def copy_page(self, page):
        if self.kind == 'text':
            return ([bytearray(r) for r in page[0]], [bytearray(r) for r in page[1]])
        return [bytearray(r) for r in page]

    def reachable_pages(self, num_pages):
        """Pages whose whole address range lies in the video window."""
        out = []
        for p in range(num_pages):
            lo = self.base + p * self.page_size
            if lo >= VIDEO_LO and lo + self.page_size <= VIDEO_HI:
                out.append(p)
        return out

    def planes(self):
        return (0, 1, 2, 3) if self.kind == 'planar' else (0,)

    def fill_pattern(self, page, pageno, nplanes=4):
        """Position-dependent content: the byte at offset o (plane q) is
        (o + 67*q + 17*pageno + 3*(o // 251)) % 251, so that neighbouring rows,
        banks, pages and planes all differ."""
        if self.kind == 'planar':
            for q in range(nplanes):
                for o in range(self.page_size):
                    self.poke(page, o, (o + 67 * q + 17 * pageno + 3 * (o // 251)) % 251, 1 << q)
        else:
            for o in range(self.page_size):
                self.poke(page, o, (o + 17 * pageno + 3 * (o // 251)) % 251)


def _text(base, width):
    return Layout('text', base, 0x1000 if width == 80 else 0x800, width, 25)


CGA = 0xb8000
MDA = 0xb0000
EGA = 0xa0000

LAYOUTS = {
    'text40': _text(CGA, 40),
    'text80': _text(CGA, 80),
    'monotext40': _text(MDA, 40),
    'monotext80': _text(MDA, 80),
    '320x200x4': Layout('packed', CGA, 0x4000, 320, 200, bpp=2, banks=2, bpr=80),
    '640x200x2': Layout('packed', CGA, 0x4000, 640, 200, bpp=1, banks=2, bpr=80),
    '160x200x16': Layout('packed', CGA, 0x4000, 160, 200, bpp=4, banks=2, bpr=80),
    '320x200x16pcjr': Layout('packed', CGA, 0x8000, 320, 200, bpp=4, banks=4, bpr=160),
    '640x200x4': Layout('tandy6', CGA, 0x8000, 640, 200, bpp=2, banks=4, bpr=160),
    '640x400x2': Layout('packed', CGA, 0x8000, 640, 400, bpp=1, banks=4, bpr=80),
    '720x348x2': Layout('packed', CGA, 0x8000, 720, 348, bpp=1, banks=4, bpr=90),
    '320x200x16': Layout('planar', EGA, 0x2000, 320, 200, bpp=4),
    '640x200x16': Layout('planar', EGA, 0x4000, 640, 200, bpp=4),
    '640x350x16': Layout('planar', EGA, 0x8000, 640, 350, bpp=4),
}
