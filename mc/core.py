"""
Common machinery: check context, parallel exhaustive map, evidence writer,
violation / known-finding reporting, replay files.

A check module (checks/cNN.py) defines

    PROPERTY = 'C02'
    def legs(ctx):  -> list of Leg
    (optional) ASSUMPTIONS = [...]

A Leg has a name, a generator of *shards* (picklable descriptors of a slice of
the finite enumeration) and a top-level worker function work(shard) -> Partial.
The enumeration is fixed by the tier; VERIF_SEED only permutes shard order.
"""
import os
import sys
import json
import time
import fnmatch
import random
import hashlib
import traceback
import multiprocessing

VERIF = os.path.dirname(os.path.dirname(os.path.abspath(__file__)))
EVIDENCE_DIR = os.path.join(VERIF, 'evidence')
REPLAY_DIR = os.path.join(VERIF, 'replays')
KNOWN_FILE = os.path.join(VERIF, 'known_findings.json')

NCPU = int(os.environ.get('VERIF_WORKERS', '0')) or min(16, os.cpu_count() or 1)


class CheckError(Exception):
    """Harness failure (not a property violation)."""


class Partial(object):
    """Result of exploring one shard."""

    __slots__ = (
        'n', 'classes', 'viol', 'samples', 'states', 'transitions', 'traces',
        'outcomes', 'extra', '_vcount',
    )

    def __init__(self):
        self.n = 0                # evaluations
        self.classes = set()      # distinct non-trivial case classes (small strings)
        self.viol = []            # list of (key, what, case)
        self.samples = []         # a few cases written out
        self.states = 0
        self.transitions = 0
        self.traces = 0           # executions run on the real implementation
        self.outcomes = {}        # outcome label -> count
        self.extra = {}           # numeric extras, summed
        self._vcount = {}

    def violation(self, key, what, case):
        # keep at most 3 cases per key so that a flood of one class (e.g. a known
        # finding) can never crowd out a different violation
        c = self._vcount.get(key, 0)
        self._vcount[key] = c + 1
        if c < 3 and len(self._vcount) <= 2000:
            self.viol.append((key, what, case))

    def outcome(self, label, k=1):
        self.outcomes[label] = self.outcomes.get(label, 0) + k

    def sample(self, case):
        if len(self.samples) < 2:
            self.samples.append(case)

    def add(self, name, k=1):
        self.extra[name] = self.extra.get(name, 0) + k


class Leg(object):
    def __init__(self, name, shards, work, exhaustive=False, bound='', serial=False):
        self.name = name
        self.shards = shards
        self.work = work
        self.exhaustive = exhaustive
        self.bound = bound
        self.serial = serial


class Ctx(object):
    def __init__(self, prop, tier, seed):
        self.prop = prop
        self.tier = tier
        self.quick = tier == 'quick'
        self.seed = seed


def _jsonable(x):
    if isinstance(x, (bytes, bytearray)):
        return {'__bytes__': bytes(x).hex()}
    if isinstance(x, (list, tuple)):
        return [_jsonable(i) for i in x]
    if isinstance(x, dict):
        return {str(k): _jsonable(v) for k, v in x.items()}
    if isinstance(x, (set, frozenset)):
        return sorted(_jsonable(i) for i in x)
    if isinstance(x, (int, float, str, bool)) or x is None:
        return x
    return repr(x)


def unjson(x):
    if isinstance(x, dict):
        if list(x.keys()) == ['__bytes__']:
            return bytes.fromhex(x['__bytes__'])
        return {k: unjson(v) for k, v in x.items()}
    if isinstance(x, list):
        return [unjson(i) for i in x]
    return x


def _call(args):
    work, shard = args
    try:
        return work(shard)
    except CheckError:
        raise
    except Exception as e:
        if from_pcbasic(e) and getattr(work, '__name__', '').startswith('work'):
            # raised from inside pcbasic (innermost frame) and not handled by the check: the implementation
            # let a host exception escape at the seam the check drives.  Every check is silent on the unchanged
            # tree, so this is behaviour the change under test introduced, not a harness crash
            part = Partial()
            tb = e.__traceback__
            fn = '?'
            while tb is not None:
                fn = '%s:%s' % (os.path.basename(tb.tb_frame.f_code.co_filename), tb.tb_frame.f_code.co_name)
                tb = tb.tb_next
            part.violation('seam/host-exception/%s@%s' % (type(e).__name__, fn),
                           '%s: %r escaped from pcbasic while the check worked on shard %s' % (
                               type(e).__name__, e, repr(shard)[:300]),
                           {'shard': repr(shard)[:1000], 'traceback': traceback.format_exc()[-1500:]})
            part.n = 1
            return part
        raise CheckError('worker crashed on shard %r:\n%s' % (
            (shard,), traceback.format_exc()))
    except BaseException as e:  # a harness crash is a CHECK-ERROR, never a violation
        raise CheckError('worker crashed on shard %r:\n%s' % (
            (shard,), traceback.format_exc()))


_POOL = None


def pool():
    global _POOL
    if _POOL is None:
        # keep the inherited heap out of the children's garbage collections (copy-on-write pages)
        import gc
        gc.collect()
        gc.freeze()
        ctx = multiprocessing.get_context('fork')
        _POOL = ctx.Pool(NCPU)
    return _POOL


def load_known(prop):
    try:
        with open(KNOWN_FILE) as f:
            items = json.load(f)
    except IOError:
        return []
    return [i for i in items if i.get('property') == prop and i.get('status') == 'known']


def run_check(module, tier, seed, only_leg=None):
    """Run all legs of a check module; write evidence; return exit code."""
    prop = module.PROPERTY
    ctx = Ctx(prop, tier, seed)
    t0 = time.time()
    legs = module.legs(ctx)
    if only_leg:
        legs = [l for l in legs if l.name == only_leg]
    total = Partial()
    leg_reports = []
    all_viol = []
    rng = random.Random(seed)
    for leg in legs:
        lt0 = time.time()
        shards = list(leg.shards)
        rng.shuffle(shards)
        part = Partial()
        if leg.serial or len(shards) <= 1 or NCPU == 1:
            results = (_call((leg.work, s)) for s in shards)
        else:
            results = pool().imap_unordered(
                _call, [(leg.work, s) for s in shards], chunksize=1
            )
        for r in results:
            part.n += r.n
            part.classes |= set(leg.name + '/' + c for c in r.classes)
            part.viol.extend(r.viol)
            if len(part.samples) < 3:
                part.samples.extend(r.samples[:1])
            part.states += r.states
            part.transitions += r.transitions
            part.traces += r.traces
            for k, v in r.outcomes.items():
                part.outcomes[k] = part.outcomes.get(k, 0) + v
            for k, v in r.extra.items():
                # extras are counters; those named max_* are maxima
                part.extra[k] = max(part.extra.get(k, 0), v) if k.startswith('max_') else part.extra.get(k, 0) + v
        rep = {
            'leg': leg.name, 'shards': len(shards), 'evaluations': part.n,
            'distinct_classes': len(part.classes),
            'distinct_outcomes': len(part.outcomes),
            'outcomes': dict(sorted(part.outcomes.items(), key=lambda kv: -kv[1])[:12]),
            'exhaustive_within_bound': bool(leg.exhaustive), 'bound': leg.bound,
            'wall_s': round(time.time() - lt0, 2), 'violations': len(part.viol),
        }
        if part.states:
            rep['states'] = part.states
            rep['transitions'] = part.transitions
        if part.extra:
            rep['extra'] = part.extra
        leg_reports.append(rep)
        total.n += part.n
        total.classes |= part.classes
        total.states += part.states
        total.transitions += part.transitions
        total.traces += part.traces
        total.samples.extend(
            {'leg': leg.name, 'case': _jsonable(s)} for s in part.samples[:2]
        )
        all_viol.extend((leg.name, k, w, c) for (k, w, c) in part.viol)
        sys.stdout.write('  leg %-28s n=%-9d classes=%-5d viol=%d  %.1fs\n' % (
            leg.name, part.n, len(part.classes), len(part.viol), time.time() - lt0))
        sys.stdout.flush()
    # triage violations against known findings
    known = load_known(prop)
    matched = {}
    unknown = {}
    for legname, key, what, case in all_viol:
        for k in known:
            if fnmatch.fnmatchcase(key, k['key']):
                matched.setdefault(k['key'], (k, 0))
                matched[k['key']] = (k, matched[k['key']][1] + 1)
                break
        else:
            if key not in unknown:
                unknown[key] = (legname, what, case)
    for kkey, (k, count) in sorted(matched.items()):
        print('KNOWN-FINDING: property=%s %s [key=%s, %d cases]' % (prop, k['what'], kkey, count))
    exit_code = 0
    replay_paths = []
    if unknown:
        os.makedirs(os.path.join(REPLAY_DIR, prop), exist_ok=True)
        for key, (legname, what, case) in sorted(unknown.items())[:20]:
            h = hashlib.sha1(key.encode('utf8', 'replace')).hexdigest()[:10]
            path = os.path.join(REPLAY_DIR, prop, '%s_%s.json' % (legname, h))
            with open(path, 'w') as f:
                json.dump({
                    'property': prop, 'leg': legname, 'key': key, 'what': what,
                    'case': _jsonable(case),
                }, f, indent=1)
            replay_paths.append(path)
            print('VIOLATION property=%s replay=%s' % (prop, path))
            print('   key=%s\n   %s' % (key, what))
        exit_code = 1
    wall = time.time() - t0
    coverage = {
        'evaluations': total.n,
        'distinct_nontrivial': len(total.classes),
        'rule': getattr(module, 'RULE', ''),
        'samples': total.samples[:8],
        'exhaustive': all(l.exhaustive for l in legs) if legs else False,
        'legs': leg_reports,
        'known_findings_matched': sorted(matched.keys()),
        'workers': NCPU,
    }
    if total.states:
        coverage['states'] = total.states
        coverage['transitions'] = total.transitions
        coverage['traces_validated_against_impl'] = total.traces
    extra_cov = getattr(module, 'extra_coverage', None)
    if extra_cov:
        coverage.update(extra_cov(ctx))
    ev = {
        'property_id': prop,
        'tier': tier,
        'seed': seed,
        'level': getattr(module, 'LEVEL', 'model_checking'),
        'coverage': coverage,
        'assumptions': list(getattr(module, 'ASSUMPTIONS', [])),
        'wall_s': round(wall, 2),
        'violations': len(unknown),
    }
    if only_leg is None and os.environ.get('VERIF_NO_EVIDENCE') != '1':
        os.makedirs(EVIDENCE_DIR, exist_ok=True)
        tmp = os.path.join(EVIDENCE_DIR, prop + '.json.tmp')
        with open(tmp, 'w') as f:
            json.dump(ev, f, indent=1, sort_keys=True)
        os.replace(tmp, os.path.join(EVIDENCE_DIR, prop + '.json'))
    print('%s %s: evaluations=%d classes=%d states=%d violations=%d known=%d wall=%.1fs' % (
        prop, tier, total.n, len(total.classes), total.states, len(unknown),
        len(matched), wall))
    return exit_code


def replay(module, path):
    """Re-run one recorded case without the explorer."""
    with open(path) as f:
        rec = json.load(f)
    case = unjson(rec['case'])
    ctx = Ctx(module.PROPERTY, 'thorough', 0)
    fn = getattr(module, 'replay', None)
    if fn is None:
        raise CheckError('check has no replay()')
    part = fn(ctx, rec['leg'], case)
    if part.viol:
        for key, what, c in part.viol:
            print('VIOLATION property=%s replay=%s' % (module.PROPERTY, path))
            print('   key=%s\n   %s' % (key, what))
        return 1
    print('replay: no violation reproduced')
    return 0


def from_pcbasic(exc):
    """True if the innermost frame of the exception's traceback is pcbasic code
    (then the exception is the implementation's, not the harness's)."""
    tb = exc.__traceback__
    last = None
    while tb is not None:
        last = tb.tb_frame.f_code.co_filename
        tb = tb.tb_next
    return bool(last) and (os.sep + 'pcbasic' + os.sep) in last


def guarded(part, key_prefix, case, fn, *args, **kwargs):
    """Call fn; a non-BASIC exception raised from inside pcbasic becomes a violation
    (key_prefix/host-exception/<Type>), anything raised by harness code propagates
    (-> CHECK-ERROR).  Returns (ok, result)."""
    try:
        return True, fn(*args, **kwargs)
    except Exception as e:
        from pcbasic.basic.base import error as _err
        if isinstance(e, _err.Interrupt):
            raise
        if from_pcbasic(e):
            part.violation('%s/host-exception/%s' % (key_prefix, type(e).__name__),
                           '%s: %r' % (type(e).__name__, e), case)
            return False, None
        raise


def chunked(seq, size):
    """Cut a list/iterable into lists of at most size."""
    buf = []
    for x in seq:
        buf.append(x)
        if len(buf) >= size:
            yield buf
            buf = []
    if buf:
        yield buf
