"""
Helpers shared by the graphics checks (C30-C33): mode enumeration, a thin wrapper
around a headless session in a graphics mode, direct page access, watchdog.

Observation seam: the pixel matrix of every page is `display.pages[i].pixels`
(a _PixelAccess around a ByteMatrix); we read the ByteMatrix rows directly
(`page._pixels._rows`, list of bytearray, one byte per pixel) because it is the
object `Session.get_pixels()` returns for the visible page (asserted at set-up).
Background patterns are written through the same rows (harness action, read
back before use); everything the properties talk about goes through BASIC
statements.
"""
import os
import signal
import logging

from . import harness as H
from .core import CheckError

from pcbasic.basic.display import modes as M

# "No 16-pixel font available" etc. - irrelevant for headless runs
logging.disable(logging.WARNING)


def syntax_for(adapter):
    return {'pcjr': 'pcjr', 'tandy': 'tandy'}.get(adapter, 'advanced')


def graphics_modes():
    """All (adapter, SCREEN number, mode name) with a graphics mode, from modes._MODES."""
    out = []
    for adapter in sorted(M._MODES):
        seen = set()
        for nr in sorted(k for k in M._MODES[adapter] if not isinstance(k, tuple)):
            name = M._MODES[adapter][nr]
            # olivetti maps 3..255 to the same mode: take the first number only
            if (adapter, name) in seen:
                continue
            seen.add((adapter, name))
            info = M._MODE_INFO[name]
            if info['layout'] is M.TextMode:
                continue
            out.append((adapter, nr, name))
    if not out:
        raise CheckError('no graphics modes found in modes._MODES')
    # development aid only (mutant runs): VERIF_GFX_ONLY=cga,tandy restricts the adapters;
    # unset in every registered run
    only = os.environ.get('VERIF_GFX_ONLY')
    if only:
        out = [m for m in out if m[0] in only.split(',')]
    return out


def text_modes():
    """All (adapter, width) text modes from modes._MODES."""
    out = []
    for adapter in sorted(M._MODES):
        for k in sorted(k for k in M._MODES[adapter] if isinstance(k, tuple)):
            out.append((adapter, k[1]))
    return out


def representatives(mode_list):
    """Split (adapter, nr, name) list into first-of-its-mode-name and the rest."""
    seen = set()
    first, rest = [], []
    for m in mode_list:
        if m[2] in seen:
            rest.append(m)
        else:
            seen.add(m[2])
            first.append(m)
    return first, rest


class Watchdog(Exception):
    """Statement did not finish within the allotted time."""


def _alarm(signum, frame):
    raise Watchdog('statement exceeded time limit')


def run_timed(s, stmt, seconds=20):
    """H.run with a wall-clock watchdog (hang -> r.exc = Watchdog)."""
    old = signal.signal(signal.SIGALRM, _alarm)
    signal.setitimer(signal.ITIMER_REAL, seconds)
    try:
        try:
            return H.run(s, stmt)
        except Watchdog as e:
            r = H.Run()
            r.out, r.err, r.erl, r.exc, r.exit, r.soft = b'', None, None, e, False, []
            return r
    finally:
        signal.setitimer(signal.ITIMER_REAL, 0)
        signal.signal(signal.SIGALRM, old)


class Gfx(object):
    """Headless session switched to a graphics (or text) mode."""

    def __init__(self, adapter, nr=None, width=None, extra=b''):
        self.adapter = adapter
        self.nr = nr
        self.s = H.new_session(video=adapter, syntax=syntax_for(adapter), horizon=10 ** 9)
        if nr:
            r = H.run(self.s, b'SCREEN %d' % nr)
            if r.err is not None or r.exc is not None:
                raise CheckError('SCREEN %d on %s failed: %r' % (nr, adapter, r))
        elif width:
            r = H.run(self.s, b'WIDTH %d' % width)
            if r.exc is not None:
                raise CheckError('WIDTH %d on %s failed: %r' % (width, adapter, r))
        self.refresh()

    def refresh(self):
        try:
            self.disp = self.s._impl.display
            self.mode = self.disp.mode
            self.pages = self.disp.pages
            self.graphics = self.disp.graphics
            self.w = self.mode.pixel_width
            self.h = self.mode.pixel_height
            for p in self.pages:
                rows = p._pixels._rows
                if len(rows) != self.h or len(rows[0]) != self.w:
                    raise CheckError('page matrix has unexpected shape')
        except AttributeError as e:
            raise CheckError('internal seam missing: %s' % e)
        self.text = self.mode.is_text_mode
        self.npages = len(self.pages)
        if not self.text:
            self.bpp = self.mode.bitsperpixel
            self.nattr = self.graphics._num_attr
            self.maxattr = self.nattr - 1
            # GET takes twice the width in Tandy SCREEN 6
            self.wfactor = self.mode.sprite_builder.width_factor

    def close(self):
        try:
            self.s.close()
        except Exception:
            pass

    def run(self, stmt, seconds=None):
        if seconds:
            return run_timed(self.s, stmt, seconds)
        return H.run(self.s, stmt)

    def must(self, stmt):
        """Run a set-up statement that has to succeed."""
        r = H.run(self.s, stmt)
        if r.err is not None or r.exc is not None or r.soft:
            raise CheckError('set-up statement %r failed: %r' % (stmt, r))
        return r

    def rows(self, page):
        return self.pages[page]._pixels._rows

    @property
    def apagenum(self):
        return self.disp.apagenum

    @property
    def vpagenum(self):
        return self.disp.vpagenum

    def snap(self, page):
        """Immutable copy of a page: list of bytes rows."""
        return [bytes(r) for r in self.pages[page]._pixels._rows]

    def poke(self, page, tmpl):
        """Write a list of bytes rows into a page (harness action)."""
        rows = self.pages[page]._pixels._rows
        for r, t in zip(rows, tmpl):
            r[:] = t

    def assert_seam(self):
        """The rows we read are what the public get_pixels() reports for the visible page."""
        v = self.vpagenum
        rows = self.rows(v)
        mark = (rows[0][0] + 1) % 2
        old = rows[0][0]
        rows[0][0] = mark
        try:
            px = self.s.get_pixels()
            if len(px) != self.h or len(px[0]) != self.w or px[0][0] != mark:
                raise CheckError('page rows are not what Session.get_pixels() reports')
        finally:
            rows[0][0] = old


def fmt_num(v):
    """BASIC literal for an int or float coordinate."""
    if isinstance(v, int):
        return b'%d' % v
    if v == int(v) and abs(v) < 1e6:
        return b'%d' % int(v)
    t = ('%.7g' % v)
    if 'e' in t:
        m, e = t.split('e')
        t = '%sE%d' % (m, int(e))
    return t.encode('ascii')
