"""
Helpers for the numeric checks: a bare Values object (no session), exact
rational decoding of MBF values, and the fixed boundary alphabets.
"""
import struct
from fractions import Fraction

from pcbasic.basic.values import values as V
from pcbasic.basic.values import numbers as N
from pcbasic.basic.base import error


def make_values(soft=False, double_math=False):
    """Values object whose float errors always raise BASICError (console None)."""
    vals = V.Values(None, double_math)
    vals.set_handler(V.FloatErrorHandler(None))
    return vals


class SoftConsole(object):
    """Minimal console for FloatErrorHandler: records soft error messages."""

    def __init__(self):
        self.lines = []

    def write_line(self, s):
        self.lines.append(s)


def make_values_soft(double_math=False):
    vals = V.Values(None, double_math)
    con = SoftConsole()
    vals.set_handler(V.FloatErrorHandler(con))
    return vals, con


def mkint(vals, i):
    return N.Integer(None, vals).from_bytes(struct.pack('<h', i))


def mkint_u(vals, u):
    return N.Integer(None, vals).from_bytes(struct.pack('<H', u))


def mksng(vals, b):
    return N.Single(None, vals).from_bytes(b)


def mkdbl(vals, b):
    return N.Double(None, vals).from_bytes(b)


def s16(u):
    u &= 0xffff
    return u - 0x10000 if u >= 0x8000 else u


# ---------------------------------------------------------------------------
# exact decoding of MBF floats

def mbf_parts(b):
    """bytes (4 or 8) -> (neg, exp_byte, mantissa_int_with_hidden_bit, nbits)."""
    b = bytes(b)
    n = len(b)
    exp = b[-1]
    neg = bool(b[-2] & 0x80)
    man = int.from_bytes(b[:-2] + bytes([b[-2] | 0x80]), 'little')
    return neg, exp, man, (n - 1) * 8


def mbf_to_fraction(b):
    """Exact rational value of an MBF single/double (exp byte 0 -> 0)."""
    neg, exp, man, nbits = mbf_parts(b)
    if exp == 0:
        return Fraction(0)
    # value = 0.1fff... * 2^(exp-128) = man / 2^nbits * 2^(exp-128)
    v = Fraction(man, 1 << nbits) * (Fraction(2) ** (exp - 128))
    return -v if neg else v


def int_bits(mbits, e):
    return mbits


def fraction_to_mbf_floor(x, size):
    """Largest-magnitude MBF value of `size` bytes with |v| <= |x| (truncation).
    Returns (bytes, exact?) or None if out of range/underflow."""
    nbits = (size - 1) * 8
    if x == 0:
        return bytes(size), True
    neg = x < 0
    ax = -x if neg else x
    # find exp such that 0.5 <= ax / 2^(exp-128) < 1
    e = ax.numerator.bit_length() - ax.denominator.bit_length()
    # ax ~ 2^e ; refine
    while ax >= Fraction(2) ** e:
        e += 1
    while ax < Fraction(2) ** (e - 1):
        e -= 1
    # now 2^(e-1) <= ax < 2^e  -> exp byte = e + 128
    expb = e + 128
    scaled = ax / (Fraction(2) ** e) * (1 << nbits)
    man = scaled.numerator // scaled.denominator
    exact = (scaled.denominator == 1)
    return (neg, expb, man, exact)


def pack_mbf(neg, expb, man, size):
    """Assemble MBF bytes from sign, exponent byte, mantissa incl. hidden bit."""
    nbits = (size - 1) * 8
    assert (1 << (nbits - 1)) <= man < (1 << nbits), (man, nbits)
    assert 1 <= expb <= 255
    mb = bytearray(man.to_bytes(size - 1, 'little'))
    mb[-1] &= 0x7f
    if neg:
        mb[-1] |= 0x80
    return bytes(mb) + bytes([expb])


def ulp(b):
    """Unit in the last place of an MBF value (as Fraction); for zero: 2^-128-nbits."""
    neg, exp, man, nbits = mbf_parts(b)
    if exp == 0:
        exp = 1
    return Fraction(2) ** (exp - 128 - nbits)


SNG_MAX = mbf_to_fraction(b'\xff\xff\x7f\xff')
DBL_MAX = mbf_to_fraction(b'\xff' * 6 + b'\x7f\xff')
MIN_POS = Fraction(2) ** (-128)       # 0.5 * 2^(1-128): smallest positive (exp byte 1)


# ---------------------------------------------------------------------------
# alphabets

def int_boundary_set(extra=False):
    """Boundary 16-bit patterns (as unsigned): single bits, single zero bits,
    words with both bytes in {00,01,7F,80,FE,FF}, +-(2^k +- 1)."""
    s = set()
    for k in range(16):
        s.add(1 << k)
        s.add(0xffff ^ (1 << k))
        for d in (-1, 0, 1):
            s.add(((1 << k) + d) & 0xffff)
            s.add((-(1 << k) + d) & 0xffff)
    bs = (0x00, 0x01, 0x7f, 0x80, 0xfe, 0xff)
    for hi in bs:
        for lo in bs:
            s.add((hi << 8) | lo)
    for v in (2, 3, 5, 7, 10, 100, 255, 256, 257, 1000, 10000, 12345, 32766, 32767):
        s.add(v & 0xffff)
        s.add((-v) & 0xffff)
    if extra:
        # every byte value in either byte with the other at a boundary
        for x in range(256):
            for o in (0x00, 0x7f, 0x80, 0xff):
                s.add((x << 8) | o)
                s.add((o << 8) | x)
    return sorted(s)


def mantissa_patterns(nbits, rich=False):
    """Rounding-critical mantissa patterns (without hidden bit forced; caller ORs it).
    nbits = 24 or 56 (including hidden bit position)."""
    full = (1 << nbits) - 1
    top = 1 << (nbits - 1)
    s = set([0, full])
    for k in range(nbits):
        s.add(1 << k)
        s.add(full ^ (1 << k))
        s.add((1 << k) - 1)            # run of ones from the bottom
        s.add(full ^ ((1 << k) - 1))   # run of ones from the top
        if rich:
            for d in (-1, 1):
                s.add(((1 << k) + d) & full)
                s.add(((full ^ ((1 << k) - 1)) + d) & full)
    for byte in (0x7f, 0x80, 0x81, 0xff, 0x55, 0xaa):
        s.add(byte)
        s.add(byte << 8)
        s.add((byte << (nbits - 8)) & full)
    if rich:
        # alternating and a few arbitrary-looking constants (fixed, not random)
        s.add(int('55' * (nbits // 8), 16))
        s.add(int('aa' * (nbits // 8), 16))
        s.add(int('0123456789abcdef'[:nbits // 4], 16))
        s.add(int('fedcba9876543210'[:nbits // 4], 16))
        s.add(int('c90fdaa22168c2'[:nbits // 4], 16))   # pi
        s.add(int('b504f333f9de64'[:nbits // 4], 16))   # sqrt2
    return sorted((m | top) & full for m in s)


def sng_bytes(neg, expb, man24):
    return pack_mbf(neg, expb, man24, 4)


def dbl_bytes(neg, expb, man56):
    return pack_mbf(neg, expb, man56, 8)


def err_of(fn, *args):
    """Call fn; return ('ok', result) or ('err', code) for BASICError."""
    try:
        return 'ok', fn(*args)
    except error.BASICError as e:
        return 'err', e.err
