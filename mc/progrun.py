"""
Shared helper of the program-shaped checks (C19, C21, C22): run a generated
program text on a (reused) headless Session and compare trace + final status
with the outcomes allowed by models/minibasic.py.
"""
from mc.core import CheckError
from mc import harness as H
from models import minibasic as MB
from pcbasic.basic import eventcycle as _eventcycle
import time as _time


class _NoSleepTime(object):
    """Stand-in for the `time` module inside pcbasic.basic.eventcycle: the three
    time.sleep(0) calls per statement only yield the GIL to the (absent) interface
    thread; on a loaded machine they cost 3 x 150 us per statement."""

    def __getattr__(self, name):
        return getattr(_time, name)

    @staticmethod
    def sleep(seconds):
        return None


def no_sleep():
    if not isinstance(_eventcycle.time, _NoSleepTime):
        _eventcycle.time = _NoSleepTime()


class Runner(object):
    """Reuses one Session across programs (NEW in between)."""

    def __init__(self, horizon=4000):
        no_sleep()
        self.horizon = horizon
        self.s = None
        self.count = 0

    def fresh(self):
        if self.s is not None:
            try:
                self.s.close()
            except Exception:
                pass
        self.s = H.new_session(horizon=self.horizon)
        self.count = 0

    def run_program(self, text_lines, fresh=False, direct=None, horizon=None):
        """-> dict(trace, final, exc, horizon, raw)"""
        if self.s is None or fresh or self.count >= 400:
            self.fresh()
        s = self.s
        # poll horizon for this program (one poll per executed statement)
        s.verif_inputs.horizon = horizon or self.horizon
        self.count += 1
        res = dict(trace=None, final=None, exc=None, horizon=False, raw=b'')
        try:
            # LOCATE keeps the cursor at the top: a full screen scrolls at 10 ms per line.
            # ON ERROR GOTO 0: NEW does not switch float errors back to soft handling after a
            # program used ON ERROR GOTO (a pcbasic defect outside these properties)
            r = H.run(s, b'LOCATE 1,1:ON ERROR GOTO 0:NEW')
            if r.exc is not None or r.err is not None:
                # the previous program left the session in a state NEW cannot leave: start afresh
                self.fresh()
                s = self.s
                s.verif_inputs.horizon = horizon or self.horizon
                r = H.run(s, b'LOCATE 1,1:ON ERROR GOTO 0:NEW')
                if r.exc is not None or r.err is not None:
                    raise CheckError('NEW failed on a fresh session: %r' % (r,))
            for l in text_lines:
                r = H.run(s, l)
                if r.exc is not None:
                    res['exc'] = r.exc
                    res['raw'] = l
                    return res
                if r.out.strip():
                    raise CheckError('program line %r not accepted: %r' % (l, r.out))
            r = H.run(s, b'RUN')
            out = r.out
            if direct is not None and r.exc is None and not r.exit:
                r2 = H.run(s, direct)
                out += r2.out
                r2.out = out
                r = r2
        except H.Horizon:
            res['horizon'] = True
            self.s = None
            return res
        res['raw'] = r.out
        if r.exit:
            # the input stream was closed at the poll horizon: the program did not finish
            res['horizon'] = True
            self.s = None
            return res
        if r.exc is not None:
            res['exc'] = r.exc
            self.s = None
            return res
        res['trace'], res['final'] = split_output(r.out)
        return res


def split_output(out):
    """Captured output -> (trace text without line breaks, final)."""
    idx = out.rfind(b'\xff')
    if idx < 0:
        return out.replace(b'\r', b'').replace(b'\n', b'').decode('latin-1'), ('end',)
    start = out.rfind(b'\n', 0, idx) + 1
    msg = out[start:idx]
    errs = H.parse_errors(msg + b'\xff')
    if not errs:
        raise CheckError('unparsable error line %r' % (msg,))
    code, line, _ = errs[-1]
    trace = out[:start].replace(b'\r', b'').replace(b'\n', b'').decode('latin-1')
    rest = out[idx + 1:].replace(b'\r', b'').replace(b'\n', b'')
    if rest:
        trace += rest.decode('latin-1')
    return trace, ('err', code, line)


def matches(res, outcomes):
    for o in outcomes:
        if o.final[0] == 'unspec':
            if res['trace'] is not None and res['trace'].startswith(o.trace):
                return True
        elif res['trace'] == o.trace and res['final'] == o.final:
            return True
    return False


def judge(part, runner, lines, case, keyinfo, direct=None, direct_model=None, wrap=None):
    """Run one laid-out program on model and implementation; record violation if they differ.
    Returns (outcomes, res)."""
    try:
        outcomes = MB.run_all(lines, direct=direct_model)
    except MB.ModelError as e:
        raise CheckError('model cannot run generated program %r: %s' % (MB.program_text(lines), e))
    if wrap is not None:
        outcomes = [wrap(o) for o in outcomes]
    text = MB.program_text(lines)
    # the model knows how many statements the program executes: a generous multiple bounds the run
    horizon = 20 * max(o.steps for o in outcomes) + 300
    res = runner.run_program(text, direct=direct, horizon=horizon)
    part.traces += 1
    bad = classify(res, outcomes)
    if bad:
        # confirm on a fresh session before reporting
        res2 = runner.run_program(text, fresh=True, direct=direct, horizon=horizon)
        bad2 = classify(res2, outcomes)
        if not bad2:
            raise CheckError('result changed on a fresh session: %r then %r for %r' % (
                res, res2, text))
        kind, what = bad2
        exp = ' | '.join('%r %r' % (o.trace, o.final) for o in outcomes)
        base = keyinfo(outcomes, res2)
        # a key starting with '=' names a recognised failure class by itself
        part.violation(
            base[1:] if base.startswith('=') else '%s/%s' % (base, kind),
            '%s: program %s -> got trace %r final %r%s; expected %s' % (
                what, b' / '.join(text).decode('latin-1'), res2['trace'], res2['final'],
                ' then direct %r' % direct if direct else '', exp),
            case)
    return outcomes, res


def classify(res, outcomes):
    if res['exc'] is not None:
        return 'host-exception/' + H.exc_key(res['exc']), 'host exception %r' % (res['exc'],)
    if res['horizon']:
        if all(o.final[0] == 'unspec' for o in outcomes):
            return None
        return 'no-termination', 'program did not terminate within the poll horizon'
    if matches(res, outcomes):
        return None
    o = outcomes[0]
    if res['trace'] != o.trace and not (o.final[0] == 'unspec'):
        return 'wrong-trace', 'statement order differs'
    if o.final[0] == 'unspec':
        return 'wrong-trace', 'statement order differs before the unspecified point'
    return 'wrong-final', 'final status differs'


