"""
E2: explicit-state breadth-first search over operation histories on the REAL objects.

A state is identified by the history (tuple of picklable ops) that reaches it; the
real object is rebuilt by replaying the history (live sessions rarely copy cheaply;
replay is 0.7 ms/statement).  De-duplication is global, on the canonical key the
check computes from the *complete* behaviour-relevant hidden state, so merging is
exact.  The search is level-synchronous: each level's frontier is expanded in
parallel by the worker pool.

    expand(hist) -> list of (op, key, viols, info)
        op     : the operation appended (picklable)
        key    : canonical key (hashable, picklable) of the state after hist+(op,),
                 or None if this successor must not be expanded (error state, cap)
        viols  : list of (vkey, what) found on this transition / in the new state
        info   : small string labelling the outcome class (for evidence), or None

explore() must be called from the main process (Leg(serial=True)).
"""
import time

from . import core


def _expand_chunk(args):
    expand, hists = args
    out = []
    for h in hists:
        out.append((h, expand(h)))
    return out


def explore(expand, roots, max_depth, part, root_key=None, chunk=None, cap_states=None,
            time_budget=None, label='bfs', nomerge_depth=1):
    """Run BFS. roots: list of histories (tuples) to start from (usually [()]).
    Fills part (states, transitions, traces, classes, violations, samples).
    Returns dict with depth reached, fixed_point flag, cap flags.

    nomerge_depth: histories of at most that many operations are expanded even when their
    canonical key was seen before, so every operation sequence of length nomerge_depth+1 is
    executed.  The canonical key is the check's claim about what the future depends on; state
    it does not capture (a cache inside the implementation) would otherwise never be followed
    by a second operation when the first one leads back to a known state."""
    t0 = time.time()
    seen = set()
    if root_key is not None:
        seen.add(root_key)
    frontier = [tuple(r) for r in roots]
    depth = 0
    fixed_point = False
    capped = False
    pool = core.pool() if core.NCPU > 1 else None
    per_level = []
    while frontier and depth < max_depth:
        size = chunk or max(1, min(64, len(frontier) // (core.NCPU * 4) or 1))
        jobs = [(expand, frontier[i:i + size]) for i in range(0, len(frontier), size)]
        if pool is not None and len(jobs) > 1:
            results = pool.imap_unordered(core._call, [(_expand_chunk, j) for j in jobs])
        else:
            results = (_expand_chunk(j) for j in jobs)
        nxt = []
        ntrans = 0
        for res in results:
            for hist, succs in res:
                for op, key, viols, info in succs:
                    ntrans += 1
                    for vkey, what in viols:
                        part.violation(vkey, what, {'history': list(hist) + [op]})
                    if info:
                        part.classes.add(info)
                        part.outcome(info)
                    if key is None:
                        continue
                    if key in seen and depth + 1 > nomerge_depth:
                        continue
                    seen.add(key)
                    newh = hist + (op,)
                    nxt.append(newh)
                    if len(part.samples) < 2 and len(newh) >= 2:
                        part.samples.append({'history': list(newh)})
        part.transitions += ntrans
        part.traces += ntrans
        part.n += ntrans
        depth += 1
        per_level.append((depth, len(frontier), ntrans, len(nxt)))
        # deterministic order regardless of pool scheduling
        nxt.sort(key=repr)
        frontier = nxt
        if cap_states and len(seen) > cap_states:
            capped = True
            break
        if time_budget and time.time() - t0 > time_budget:
            capped = True
            break
    if not frontier:
        fixed_point = True
    part.states += len(seen)
    part.extra[label + '_depth'] = depth
    part.extra[label + '_fixed_point'] = int(fixed_point)
    part.extra[label + '_capped'] = int(capped)
    part.extra[label + '_nomerge_depth'] = nomerge_depth
    return {
        'depth': depth, 'fixed_point': fixed_point, 'capped': capped,
        'levels': per_level, 'states': len(seen), 'unexpanded_frontier': len(frontier),
    }
