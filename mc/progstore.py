"""
Helpers shared by the program-store checks (C13, C14, C15):
  * bounded runs: a Ctrl+Break is delivered at a fixed poll so that a looping
    program returns to direct mode cleanly and deterministically
  * public-API observation of program memory (PEEK through Session.evaluate)
  * an independent, token-aware scan of tokenised program bytes
  * hand assembly of tokenised / ASCII program files
"""
import io
import re
import struct

from pcbasic.basic.base import signals, scancode

from . import harness as H
from .core import CheckError


class _NoSleepTime(object):
    """Stand-in for the `time` module inside pcbasic.basic.eventcycle: sleep() returns at once
    (the engine calls time.sleep(0) three times per poll, ~30% of a short run; there is no
    interface thread here to yield to).  Everything else is delegated."""

    def __init__(self, real):
        self._real = real

    def sleep(self, _seconds):
        return None

    def __getattr__(self, name):
        return getattr(self._real, name)


def _install_no_sleep():
    from pcbasic.basic import eventcycle
    t = getattr(eventcycle, 'time', None)
    if t is None or not hasattr(t, 'sleep'):
        raise CheckError('pcbasic.basic.eventcycle no longer uses the time module')
    if type(t).__name__ != '_NoSleepTime':
        eventcycle.time = _NoSleepTime(t)


_install_no_sleep()


def break_event():
    return signals.Event(signals.KEYB_DOWN, (u'', scancode.BREAK, [scancode.CTRL]))


def bounded_session(limit=60, **kwargs):
    """Session in which every direct command is interrupted by Ctrl+Break at poll `limit`."""
    s = H.new_session(horizon=limit + 50, at_horizon='raise', **kwargs)
    s.verif_inputs.schedule[limit] = [break_event()]
    s.verif_limit = limit
    return s


def run(s, stmt):
    """H.run, but a poll-horizon overrun (which the Break should have prevented) is a
    harness error with a readable message."""
    inp = getattr(s, 'verif_inputs', None)
    if inp is not None:
        # events loaded for a poll that the previous command never reached must not leak into this one
        inp._pending = list(inp.schedule.get(0, ()))
    try:
        return H.run(s, stmt)
    except H.Horizon:
        raise CheckError('statement %r ran past the poll horizon despite Break' % (stmt,))


def lines_of(out):
    """Split captured console output into lines (CR LF / CR)."""
    out = out.replace(b'\r\n', b'\n').replace(b'\r', b'\n')
    parts = out.split(b'\n')
    if parts and parts[-1] == b'':
        parts.pop()
    return parts


# ---------------------------------------------------------------------------
# program memory through the public API

def peek(s, addr):
    v = s.evaluate(b'PEEK(%d)' % (addr,))
    if not isinstance(v, int):
        raise CheckError('PEEK(%d) returned %r' % (addr, v))
    return v


def peek_word(s, addr):
    return peek(s, addr) + 256 * peek(s, addr + 1)


def peek_chain(s, max_lines=64, max_len=300):
    """Follow the next-line links starting from the address stored at DS:30h.
    Returns (list of (line number, address, link), status) with status
    'terminated' | 'runaway' | 'bad-link' | 'no-eol' | 'no-leading-nul'."""
    addr = peek_word(s, 0x30)
    chain = []
    # byte before the first link must be the NUL that precedes the program
    if peek(s, addr - 1) != 0:
        return chain, 'no-leading-nul'
    while True:
        link = peek_word(s, addr)
        if link == 0:
            return chain, 'terminated'
        if len(chain) >= max_lines:
            return chain, 'runaway'
        if not (addr + 4 < link <= addr + max_len):
            return chain, 'bad-link'
        num = peek_word(s, addr + 2)
        if peek(s, link - 1) != 0:
            return chain, 'no-eol'
        chain.append((num, addr, link))
        addr = link


# ---------------------------------------------------------------------------
# independent scan of tokenised program bytes (GW-BASIC token lengths)

_TRAIL = {0x0b: 2, 0x0c: 2, 0x0d: 2, 0x0e: 2, 0x0f: 1, 0x1c: 2, 0x1d: 4, 0x1f: 8}


def scan_lines(code, start=0):
    """Token-aware scan of program bytes that begin with the NUL preceding the first
    line: [(line number, position of that NUL, link word, body bytes)], position of the
    terminating NUL, status."""
    pos = start
    out = []
    n = len(code)
    while True:
        if pos + 3 > n or code[pos] != 0:
            return out, pos, 'truncated'
        link = code[pos + 1] | (code[pos + 2] << 8)
        if link == 0:
            return out, pos, 'ok'
        if pos + 5 > n:
            return out, pos, 'truncated'
        num = code[pos + 3] | (code[pos + 4] << 8)
        p = pos + 5
        while True:
            if p >= n:
                return out, pos, 'truncated'
            c = code[p]
            if c == 0:
                break
            p += 1 + _TRAIL.get(c, 0)
        out.append((num, pos, link, bytes(code[pos + 5:p])))
        pos = p


# ---------------------------------------------------------------------------
# files

def tokenised_file(lines, link=0x1111, magic=b'\xff', eof=b'\x1a'):
    """Hand-assembled tokenised program file: lines = [(number, body bytes)].
    Link words are arbitrary non-zero values (the loader must rebuild them)."""
    out = bytearray(magic)
    for i, (num, body) in enumerate(lines):
        out += struct.pack('<HH', (link + 0x0101 * i) & 0xffff or 1, num) + body + b'\0'
    out += b'\0\0' + eof
    return bytes(out)


def ascii_file(text_lines, eof=b'\x1a'):
    return b''.join(l + b'\r\n' for l in text_lines) + eof


def bind_bytes(s, data):
    """Bind a fresh in-memory stream to an internal file name; returns the name (bytes)."""
    stream = io.BytesIO(data)
    name = s.bind_file(stream)
    return bytes(name), stream


_NUM_RE = re.compile(br'\d+')


def map_numbers(text, mapping):
    """Replace every run of digits in text by its image under mapping (dict int->int)."""
    return _NUM_RE.sub(lambda m: b'%d' % (mapping.get(int(m.group(0)), int(m.group(0))),), text)
