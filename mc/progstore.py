"""
Helpers shared by the program-store checks (C13, C14, C15):
  * bounded runs: a Ctrl+Break is delivered at a fixed poll so that a looping
    program returns to direct mode cleanly and deterministically
  * public-API observation of program memory (PEEK through Session.evaluate)
  * an independent, token-aware scan of tokenised program bytes
  * hand assembly of tokenised / ASCII program files
"""
import io
import re
import struct

from pcbasic.basic.base import signals, scancode

from . import harness as H
from .core import CheckError


class _NoSleepTime(object):
    """Stand-in for the `time` module inside pcbasic.basic.eventcycle: sleep() returns at once
    (the engine calls time.sleep(0) three times per poll, ~30% of a short run; there is no
    interface thread here to yield to).  Everything else is delegated."""

    def __init__(self, real):
        self._real = real

    def sleep(self, _seconds):
        return None

    def __getattr__(self, name):
        return getattr(self._real, name)


def _install_no_sleep():
    from pcbasic.basic import eventcycle
    t = getattr(eventcycle, 'time', None)
    if t is None or not hasattr(t, 'sleep'):
        raise CheckError('pcbasic.basic.eventcycle no longer uses the time module')
    if type(t).__name__ != '_NoSleepTime':
        eventcycle.time = _NoSleepTime(t)


_install_no_sleep()


def break_event():
    return signals.Event(signals.KEYB_DOWN, (u'', scancode.BREAK, [scancode.CTRL]))


def bounded_session(limit=60, **kwargs):
    """Session in which every direct command is interrupted by Ctrl+Break at poll `limit`."""
    s = H.new_session(horizon=limit + 50, at_horizon='raise', **kwargs)
    s.verif_inputs.schedule[limit] = [break_event()]
    s.verif_limit = limit
    return s


def run(s, stmt):
    """H.run, but a poll-horizon overrun (which the Break should have prevented) is a
    harness error with a readable message."""
    inp = getattr(s, 'verif_inputs', None)
    if inp is not None:
        # events loaded for a poll that the previous command never reached must not leak into this one
        inp._pending = list(inp.schedule.get(0, ()))
    try:
        return H.run(s, stmt)
    except H.Horizon:
        raise CheckError('statement %r ran past the poll horizon despite Break' % (stmt,))


def lines_of(out):
    """Split captured console output into lines (CR LF / CR)."""
    out = out.replace(b'\r\n', b'\n').replace(b'\r', b'\n')
    parts = out.split(b'\n')
    if parts and parts[-1] == b'':
        parts.pop()
    return parts


# ---------------------------------------------------------------------------
# program memory through the public API

def peek(s, addr):
    v = s.evaluate(b'PEEK(%d)' % (addr,))
    if not isinstance(v, int):
        raise CheckError('PEEK(%d) returned %r' % (addr, v))
    return v


def peek_word(s, addr):
    return peek(s, addr) + 256 * peek(s, addr + 1)


def peek_chain(s, max_lines=64, max_len=300):
    """Follow the next-line links starting from the address stored at DS:30h.
    Returns (list of (line number, address, link), status) with status
    'terminated' | 'runaway' | 'bad-link' | 'no-eol' | 'no-leading-nul'."""
    addr = peek_word(s, 0x30)
    chain = []
    # byte before the first link must be the NUL that precedes the program
    if peek(s, addr - 1) != 0:
        return chain, 'no-leading-nul'
    while True:
        link = peek_word(s, addr)
        if link == 0:
            return chain, 'terminated'
        if len(chain) >= max_lines:
            return chain, 'runaway'
        if not (addr + 4 < link <= addr + max_len):
            return chain, 'bad-link'
        num = peek_word(s, addr + 2)
        if peek(s, link - 1) != 0:
            return chain, 'no-eol'
        chain.append((num, addr, link))
        addr = link


# ---------------------------------------------------------------------------
# independent scan of tokenised program bytes (GW-BASIC token lengths)

_TRAIL = {0x0b: 2, 0x0c: 2, 0x0d: 2, 0x0e: 2, 0x0f: 1, 0x1c: 2, 0x1d: 4, 0x1f: 8}


def scan_lines(code, start=0):
    """Token-aware scan of program bytes that begin with the NUL preceding the first
    line: [(line number, position of that NUL, link word, body bytes)], position of the
    terminating NUL, status."""
    pos = start
    out = []
    n = len(code)
    while True:
        if pos + 3 > n or code[pos] != 0:
            return out, pos, 'truncated'
        link = code[pos + 1] | (code[pos + 2] << 8)
        if link == 0:
            return out, pos, 'ok'
        if pos + 5 > n:
            return out, pos, 'truncated'
        num = code[pos + 3] | (code[pos + 4] << 8)
        p = pos + 5
        while True:
            if p >= n:
                return out, pos, 'truncated'
            c = code[p]
            if c == 0:
                break
            p += 1 + _TRAIL.get(c, 0)
        out.append((num, pos, link, bytes(code[pos + 5:p])))
        pos = p


# ---------------------------------------------------------------------------
# files

def tokenised_file(lines, link=0x1111, magic=b'\xff', eof=b'\x1a'):
    """Hand-assembled tokenised program file: lines = [(number, body bytes)].
    Link words are arbitrary non-zero values (the loader must rebuild them)."""
    out = bytearray(magic)
    for i, (num, body) in enumerate(lines):
        out += struct.pack('<HH', (link + 0x0101 * i) & 0xffff or 1, num) + body + b'\0'
    out += b'\0\0' + eof
    return bytes(out)


def ascii_file(text_lines, eof=b'\x1a'):
    return b''.join(l + b'\r\n' for l in text_lines) + eof


def bind_bytes(s, data):
    """Bind a fresh in-memory stream to an internal file name; returns the name (bytes)."""
    stream = io.BytesIO(data)
    name = s.bind_file(stream)
    return bytes(name), stream


_NUM_RE = re.compile(br'\d+')


def map_numbers(text, mapping):
    """Replace every run of digits in text by its image under mapping (dict int->int)."""
    return _NUM_RE.sub(lambda m: b'%d' % (mapping.get(int(m.group(0)), int(m.group(0))),), text)


# ---------------------------------------------------------------------------
# two-phase history BFS (variant of mc.bfs.explore for expensive state invariants)

def _expand_chunk2(args):
    expand, hists = args
    return [(h, expand(h)) for h in hists]


def _check_chunk2(args):
    check, hists = args
    return [(h, check(h)) for h in hists]


def explore_checked(expand, check, roots, max_depth, part, label='bfs', time_budget=None):
    """Level-synchronous BFS over operation histories on the real objects.

    expand(hist) -> [(op, key, viols, info, stop)]   cheap: replays hist, applies every op, returns the
                    canonical key of each successor, transition-level violations, an outcome label and
                    whether the successor must not be expanded (cap);
    check(hist)  -> [(vkey, what)]                   the full state invariants, evaluated exactly once per
                    canonical state (on the first history that reaches it), in parallel.
    A state whose invariants fail is reported and not expanded.  Same bookkeeping as mc.bfs.explore."""
    import time
    from . import core
    t0 = time.time()
    seen = set()
    frontier = [tuple(r) for r in roots]
    depth = 0
    capped = False
    pool = core.pool() if core.NCPU > 1 else None

    def pmap(fn, arg0, items):
        size = max(1, min(32, len(items) // (core.NCPU * 4) or 1))
        jobs = [(fn, (arg0, items[i:i + size])) for i in range(0, len(items), size)]
        if pool is not None and len(jobs) > 1:
            return pool.imap_unordered(core._call, jobs)
        return (core._call(j) for j in jobs)

    while frontier and depth < max_depth:
        fresh = []
        stops = set()
        ntrans = 0
        for res in pmap(_expand_chunk2, expand, frontier):
            for hist, succs in res:
                for op, key, viols, info, stop in succs:
                    ntrans += 1
                    for vkey, what in viols:
                        part.violation(vkey, what, {'history': list(hist) + [op]})
                    if info:
                        part.classes.add(info)
                        part.outcome(info)
                    if key is None or key in seen:
                        continue
                    seen.add(key)
                    newh = hist + (op,)
                    fresh.append(newh)
                    if stop or viols:
                        stops.add(newh)
        part.transitions += ntrans
        part.traces += ntrans
        part.n += ntrans
        fresh.sort(key=repr)
        bad = set()
        for res in pmap(_check_chunk2, check, fresh):
            for hist, viols in res:
                part.traces += 1
                for vkey, what in viols:
                    part.violation(vkey, what, {'history': list(hist)})
                if viols:
                    bad.add(hist)
        for h in fresh[:2]:
            if len(part.samples) < 2 and len(h) >= 2:
                part.samples.append({'history': list(h)})
        frontier = [h for h in fresh if h not in stops and h not in bad]
        depth += 1
        if time_budget and time.time() - t0 > time_budget:
            capped = True
            break
    fixed_point = not frontier
    part.states += len(seen)
    part.extra[label + '_depth'] = depth
    part.extra[label + '_fixed_point'] = int(fixed_point)
    part.extra[label + '_capped'] = int(capped)
    return {'depth': depth, 'fixed_point': fixed_point, 'capped': capped, 'states': len(seen),
            'unexpanded_frontier': len(frontier)}
