"""
Session factory and seams owned by the checker.

All seams are reachable from outside pcbasic (no source hook needed):
  * scripted input queue  -> impl.queues.inputs   (poll = one drain in check_events)
  * recording video/audio -> impl.queues.video / .audio
  * sleeps                -> EventQueues.tick = 0
  * wall clock            -> pcbasic.basic.clock.datetime / sound.datetime
"""
import io
import os
import re
import sys
import shutil
import tempfile
import datetime as _datetime

from pcbasic.basic import api, eventcycle
from pcbasic.basic.base import error, signals
from pcbasic.compat import queue as _queue

from .core import CheckError

eventcycle.EventQueues.tick = 0


class _NoSleepTime(object):
    """Stand-in for the `time` module inside pcbasic.basic.eventcycle: the engine's
    sleep(0)/sleep(tick) calls only yield the GIL to interface threads, of which a headless
    checker has none; they cost ~100 us each and carry no semantics."""

    def __init__(self, real):
        self._real = real

    def sleep(self, seconds):
        return None

    def __getattr__(self, name):
        return getattr(self._real, name)


if not isinstance(eventcycle.time, _NoSleepTime):
    eventcycle.time = _NoSleepTime(eventcycle.time)

Session = api.Session


class Horizon(BaseException):
    """Poll horizon exceeded: the run did not terminate within the bound."""


class ScriptedInputs(object):
    """Input queue whose content at each poll is decided by the harness.

    A 'poll' is one drain of the queue by EventQueues._check_input (it calls
    get() until Empty).  schedule maps poll index -> list of signals.Event.
    After `horizon` polls, `at_horizon` decides: 'close' delivers STREAM_CLOSED
    once and then raises Horizon `slack` polls later; 'raise' raises Horizon.
    """

    def __init__(self, schedule=None, horizon=2000, at_horizon='close', slack=200):
        self.schedule = dict(schedule or {})
        self.polls = 0
        self.horizon = horizon
        self.at_horizon = at_horizon
        self.slack = slack
        self._pending = list(self.schedule.get(0, ()))
        self._closed = False
        self.delivered = []
        self.trace = None

    # Queue interface used by pcbasic
    def get(self, block=False, timeout=None):
        while self._pending:
            ev = self._pending.pop(0)
            if callable(ev):
                # environment action at this poll (e.g. advance the virtual clock)
                ev()
                continue
            self.delivered.append((self.polls, ev))
            return ev
        # end of this poll
        if self.trace is not None:
            self.trace.append(('poll', self.polls))
        self.polls += 1
        self._pending = list(self.schedule.get(self.polls, ()))
        if self.polls >= self.horizon:
            if self.at_horizon == 'raise' or self.polls >= self.horizon + self.slack:
                raise Horizon('poll horizon %d exceeded' % self.horizon)
            if not self._closed:
                self._closed = True
                self._pending.append(signals.Event(signals.STREAM_CLOSED))
        raise _queue.Empty

    def task_done(self):
        pass

    def put(self, item, block=False, timeout=None):
        # e.g. IOStreams pushing; append to current poll
        self._pending.append(item)

    put_nowait = put

    def qsize(self):
        return len(self._pending)

    def empty(self):
        return not self._pending

    def full(self):
        return False

    def join(self):
        pass


class RecordingQueue(object):
    """Video/audio queue that records every signal."""

    def __init__(self):
        self.items = []

    def put(self, item, block=False, timeout=None):
        self.items.append(item)

    put_nowait = put

    def get(self, block=False, timeout=None):
        raise _queue.Empty

    def qsize(self):
        return 0

    def empty(self):
        return True

    def full(self):
        return False

    def task_done(self):
        pass

    def join(self):
        pass

    def drain(self):
        items, self.items = self.items, []
        return items


def key_event(char, scan=None, mods=()):
    """KEYB_DOWN signal for a unicode/eascii char."""
    return signals.Event(signals.KEYB_DOWN, (char, scan, list(mods)))


def new_session(schedule=None, horizon=2000, at_horizon='close', record_video=False,
                record_audio=False, **kwargs):
    """Headless session with scripted inputs."""
    kwargs.setdefault('output_streams', None)
    kwargs.setdefault('input_streams', None)
    if 'peek_values' not in kwargs:
        kwargs['peek_values'] = {}
    s = Session(**kwargs)
    s.start()
    impl = s._impl
    inputs = ScriptedInputs(schedule, horizon, at_horizon)
    impl.queues.inputs = inputs
    if record_video:
        impl.queues.video = RecordingQueue()
    if record_audio:
        impl.queues.audio = RecordingQueue()
    s.verif_inputs = inputs
    return s


ERROR_RE = re.compile(br'^(.*?)( in (\d+))?\xff?$')

_MSG_TO_CODE = None


def _msg_table():
    global _MSG_TO_CODE
    if _MSG_TO_CODE is None:
        _MSG_TO_CODE = {v: k for k, v in error.BASICError.messages.items()}
    return _MSG_TO_CODE


def parse_errors(output):
    """All BASIC error messages in captured output -> list of (code, line, hard)."""
    tbl = _msg_table()
    found = []
    for raw in output.replace(b'\r\n', b'\n').replace(b'\r', b'\n').split(b'\n'):
        hard = raw.endswith(b'\xff')
        raw = raw.rstrip(b'\xff')
        m = re.match(br'^(.*?)(?: in (\d+))?$', raw)
        if not m:
            continue
        msg = m.group(1)
        line = int(m.group(2)) if m.group(2) else None
        if msg in tbl:
            found.append((tbl[msg], line, hard))
        elif msg == b'Unprintable error':
            found.append((-1, line, hard))
    return found


def parse_error(output):
    """The (last) hard error in the output, else None -> (code, line)."""
    hard = [f for f in parse_errors(output) if f[2]]
    if hard:
        return hard[-1][0], hard[-1][1]
    return None


class Run(object):
    __slots__ = ('out', 'err', 'erl', 'exc', 'exit', 'soft')

    def __repr__(self):
        return 'Run(out=%r, err=%r, erl=%r, exc=%r, exit=%r)' % (
            self.out, self.err, self.erl, self.exc, self.exit)


def run(session, stmt, reset_polls=True):
    """Execute one direct line (bytes). Returns Run with captured output,
    BASIC error code found in the output (or None), host exception (or None)."""
    r = Run()
    r.err = r.erl = r.exc = None
    r.exit = False
    if reset_polls and getattr(session, 'verif_inputs', None) is not None:
        session.verif_inputs.polls = 0
        session.verif_inputs._closed = False
    out = io.BytesIO()
    impl = session._impl
    try:
        with impl.io_streams.activate():
            session.add_pipes(output_streams=out)
            try:
                impl.execute(stmt)
            finally:
                try:
                    session.remove_pipes(output_streams=out)
                except Exception:
                    pass
    except error.Exit:
        r.exit = True
    except Horizon:
        raise
    except Exception as e:
        r.exc = e
    r.out = out.getvalue()
    errs = parse_errors(r.out)
    r.soft = [e[0] for e in errs if not e[2]]
    hard = [e for e in errs if e[2]]
    if hard:
        r.err, r.erl = hard[-1][0], hard[-1][1]
    return r


def exc_key(e):
    """Stable key for a host exception: type + innermost pcbasic frame function."""
    tb = e.__traceback__
    fn = '?'
    while tb is not None:
        code = tb.tb_frame.f_code
        if 'pcbasic' in code.co_filename:
            fn = '%s:%s' % (os.path.basename(code.co_filename), code.co_name)
        tb = tb.tb_next
    return '%s@%s' % (type(e).__name__, fn)


def enter_program(session, lines):
    """Enter program lines (list of bytes)."""
    impl = session._impl
    for l in lines:
        r = run(session, l)
        if r.exc is not None:
            raise r.exc
    return session


SCRATCH_BASE = '/dev/shm' if os.path.isdir('/dev/shm') and os.access('/dev/shm', os.W_OK) \
    else tempfile.gettempdir()


class Scratch(object):
    """Scratch directory removed on exit."""

    def __init__(self, prefix='pcbverif_'):
        self.path = tempfile.mkdtemp(prefix=prefix, dir=SCRATCH_BASE)

    def __enter__(self):
        return self.path

    def __exit__(self, *a):
        shutil.rmtree(self.path, ignore_errors=True)


class VirtualClock(object):
    """Replace datetime in pcbasic.basic.clock (and sound) by a controllable clock."""

    def __init__(self, start=None):
        self.now_value = start or _datetime.datetime(2020, 3, 4, 5, 6, 7)

    def install(self):
        import pcbasic.basic.clock as clockmod
        vc = self

        class _DT(_datetime.datetime):
            @classmethod
            def now(cls, tz=None):
                v = vc.now_value
                return cls(v.year, v.month, v.day, v.hour, v.minute, v.second, v.microsecond)

            @classmethod
            def today(cls):
                return cls.now()

        class _Mod(object):
            datetime = _DT
            timedelta = _datetime.timedelta
            date = _datetime.date
            time = _datetime.time

        self._saved = clockmod.datetime
        clockmod.datetime = _Mod
        return self

    def uninstall(self):
        import pcbasic.basic.clock as clockmod
        clockmod.datetime = self._saved

    def advance(self, seconds):
        self.now_value = self.now_value + _datetime.timedelta(seconds=seconds)
