"""
Remove the three time.sleep(0) calls per statement in EventQueues.check_events.

They only yield the GIL to an interface thread, which a headless checker session does not
have; on a loaded machine each one costs a scheduler round trip (~0.2 ms), i.e. more than
the statement itself.  Same kind of seam as harness' `EventQueues.tick = 0` (no real sleeps).
"""
import time as _time

from pcbasic.basic import eventcycle


class _NoSleepTime(object):
    """Stand-in for the `time` module inside pcbasic.basic.eventcycle."""

    def __getattr__(self, name):
        return getattr(_time, name)

    @staticmethod
    def sleep(seconds):
        pass


def install():
    if not isinstance(eventcycle.time, _NoSleepTime):
        eventcycle.time = _NoSleepTime()
