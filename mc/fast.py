"""
Speed seams for statement-heavy checks (owned by the C27/C28/C29/C44 checks).

* no_sleep(): pcbasic.basic.eventcycle calls time.sleep(0) three times per statement "for
  responsiveness" of the (absent) interface thread.  On a loaded machine each call costs
  0.1-0.4 ms.  The module attribute `eventcycle.time` is replaced by a proxy whose sleep() is a
  no-op (DESIGN.md section 1: "sleeps | EventQueues.tick, time.sleep in eventcycle").  Nothing in
  the engine depends on the sleep having happened: headless sessions have no interface thread.
* quiet(): pcbasic reports unmapped OS errors etc. through logging.error on the root logger; the
  checks observe behaviour through BASIC, so the log lines are only noise on stderr.
* TOP: statement prefix that homes the cursor, so that error messages and output never scroll
  the screen (scrolling moves the whole pixel buffer: 3-16 ms per line).
"""
import time as _time
import logging

TOP = b'LOCATE 1,1:'


class _NoSleepTime(object):
    def __getattr__(self, name):
        return getattr(_time, name)

    @staticmethod
    def sleep(seconds):
        pass


def no_sleep():
    from pcbasic.basic import eventcycle
    if not isinstance(eventcycle.time, _NoSleepTime):
        eventcycle.time = _NoSleepTime()


def quiet():
    logging.disable(logging.ERROR)


def basic_str(b):
    """BASIC string expression (bytes) whose value is the arbitrary byte string b."""
    parts = []
    cur = b''
    for c in b:
        if 0x20 <= c <= 0x7e and c != 0x22:
            cur += bytes([c])
        else:
            if cur:
                parts.append(b'"' + cur + b'"')
                cur = b''
            parts.append(b'CHR$(%d)' % c)
    if cur or not parts:
        parts.append(b'"' + cur + b'"')
    return b'+'.join(parts)
