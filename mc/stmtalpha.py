"""
Statement / function alphabet of GW-BASIC as implemented by pcbasic, used by C01 (no internal
errors) and C16 (protected programs).  Every statement keyword of the token table of every
dialect must appear here (checked by `assert_complete`), so the alphabets cover the
parser tables by construction.

Templates use placeholders:  {n} numeric argument, {s} string argument, {v} numeric variable,
{a} array element, {f} file name, {l} line number, {k} file number.
A template's benign instantiation (`benign`) uses the DEFAULTS below.
"""
import itertools

DEFAULTS = {'n': '1', 's': '"A"', 'v': 'X', 'a': 'AR(1)', 'f': '"F.TXT"', 'l': '10', 'k': '1'}

NUMS = ['-32769', '-32768', '-1', '0', '1', '255', '256', '32767', '32768', '65535', '65536',
        '1E38', '-1E38', '.5', '1D300', '1.701411834604692D+38', 'X%', 'A$']
NUMS_QUICK = ['-32768', '-1', '0', '1', '255', '256', '32767', '65535', '65536', '1E38', '1.701411834604692D+38', 'A$']
STRS = ['""', '"A"', 'CHR$(0)', 'CHR$(255)', 'STRING$(255,"x")', '"A=B"', '"-1:00:00"', '"..\\X"',
        '"A="+CHR$(0)', '"A=B"+CHR$(0)+"C"', '"A"+CHR$(0)+"B=C"', '"C:\\*.*"', '"SCRN:"', '"KYBD:"', '"LPT1:"', '"COM1:"', '"CAS1:"', '1', 'B$']
STRS_QUICK = ['""', '"A"', 'CHR$(0)', 'STRING$(255,"x")', '"A=B"', '"A="+CHR$(0)', '"A=B"+CHR$(0)+"C"', '"A"+CHR$(0)+"B=C"', '"-1:00:00"', '"..\\X"', '"SCRN:"', '1']

STATEMENTS = {
    'AUTO': ['AUTO', 'AUTO {n}', 'AUTO {n},{n}', 'AUTO .', 'AUTO ,{n}'],
    'BEEP': ['BEEP', 'BEEP ON', 'BEEP OFF'],
    'BLOAD': ['BLOAD {f}', 'BLOAD {f},{n}'],
    'BSAVE': ['BSAVE {f},{n},{n}', 'BSAVE {f}'],
    'CALL': ['CALL {v}', 'CALL {v}({v},{v})'],
    'CALLS': ['CALLS {v}', 'CALLS {v}({v})'],
    'CHAIN': ['CHAIN {f}', 'CHAIN {f},{n}', 'CHAIN MERGE {f},{n},ALL,DELETE {l}-{l}', 'CHAIN {f},,ALL'],
    'CHDIR': ['CHDIR {s}'],
    'CIRCLE': ['CIRCLE ({n},{n}),{n}', 'CIRCLE ({n},{n}),{n},{n},{n},{n},{n}', 'CIRCLE STEP({n},{n}),{n}'],
    'CLEAR': ['CLEAR', 'CLEAR {n}', 'CLEAR ,{n}', 'CLEAR ,{n},{n}', 'CLEAR ,,{n}', 'CLEAR ,,,{n}'],
    'CLOSE': ['CLOSE', 'CLOSE {k}', 'CLOSE #{n}', 'CLOSE {n},{n}'],
    'CLS': ['CLS', 'CLS {n}'],
    'COLOR': ['COLOR {n}', 'COLOR {n},{n}', 'COLOR {n},{n},{n}', 'COLOR ,,{n}'],
    'COM': ['COM({n}) ON', 'COM({n}) OFF', 'COM({n}) STOP'],
    'COMMON': ['COMMON X,Y$,Z()'],
    'CONT': ['CONT'],
    'DATA': ['DATA 1,"a",b'],
    'DATE$': ['DATE$={s}'],
    'DEF': ['DEF FNA(X)=X', 'DEF SEG', 'DEF SEG={n}', 'DEF USR={n}', 'DEF USR1={n}'],
    'DEFDBL': ['DEFDBL A-C', 'DEFDBL Z-A'],
    'DEFINT': ['DEFINT A-C', 'DEFINT A'],
    'DEFSNG': ['DEFSNG A-C'],
    'DEFSTR': ['DEFSTR S-T'],
    'DELETE': ['DELETE {l}', 'DELETE {l}-{l}', 'DELETE -{l}', 'DELETE {l}-', 'DELETE .'],
    'DIM': ['DIM Q({n})', 'DIM Q({n},{n})', 'DIM Q$({n})', 'DIM Q({n}),R({n})'],
    'DRAW': ['DRAW {s}', 'DRAW "U{n}"'.replace('{n}', '1'), 'DRAW "X"+VARPTR$(A$)', 'DRAW "M+1,1"', 'DRAW "TA45U3"'],
    'EDIT': ['EDIT {l}', 'EDIT .'],
    'ELSE': ['ELSE'],
    'END': ['END'],
    'ENVIRON': ['ENVIRON {s}'],
    'ERASE': ['ERASE AR', 'ERASE Q', 'ERASE AR,Q'],
    'ERROR': ['ERROR {n}'],
    'FIELD': ['FIELD #{k},{n} AS F$', 'FIELD {k},{n} AS F$,{n} AS G$', 'FIELD #{k}'],
    'FILES': ['FILES', 'FILES {s}'],
    'FOR': ['FOR I={n} TO {n}:NEXT', 'FOR I%={n} TO {n} STEP {n}:NEXT I%', 'FOR I={n} TO {n}',
            'FOR I!=1E38 TO 1.7E38 STEP {n}:NEXT', 'FOR I#=-1D38 TO -1.7D38 STEP -{n}:NEXT', 'FOR I%=32000 TO 32767 STEP {n}:NEXT'],
    'GET': ['GET #{k}', 'GET {k},{n}', 'GET ({n},{n})-({n},{n}),AR', 'GET ({n},{n})-STEP({n},{n}),AR%'],
    'GOSUB': ['GOSUB {l}'],
    'GOTO': ['GOTO {l}'],
    'IF': ['IF {n} THEN X=1', 'IF {n} THEN {l} ELSE {l}', 'IF {n} GOTO {l}', 'IF {s}="A" THEN X=1 ELSE X=2'],
    'INPUT': ['INPUT X', 'INPUT "p";X$', 'INPUT #{k},X', 'INPUT;"p",X,Y$'],
    'IOCTL': ['IOCTL #{k},{s}'],
    'KEY': ['KEY ON', 'KEY OFF', 'KEY LIST', 'KEY {n},{s}', 'KEY({n}) ON', 'KEY({n}) OFF', 'KEY({n}) STOP'],
    'KILL': ['KILL {s}'],
    'LCOPY': ['LCOPY', 'LCOPY {n}'],
    'LET': ['LET X={n}', 'LET X$={s}', 'X%={n}', 'AR({n})={n}', 'X#={n}', 'MID$(A$,{n},{n})={s}'],
    'LINE': ['LINE ({n},{n})-({n},{n})', 'LINE -({n},{n}),{n},BF', 'LINE ({n},{n})-({n},{n}),{n},B,{n}',
             'LINE INPUT X$', 'LINE INPUT #{k},X$', 'LINE INPUT;"p";X$'],
    'LIST': ['LIST', 'LIST {l}', 'LIST {l}-{l}', 'LIST -{l}', 'LIST {l}-', 'LIST ,{f}', 'LIST .', 'LIST {l}-,"SCRN:"'],
    'LLIST': ['LLIST', 'LLIST {l}-{l}'],
    'LOAD': ['LOAD {f}', 'LOAD {f},R'],
    'LOCATE': ['LOCATE {n},{n}', 'LOCATE {n},{n},{n},{n},{n}', 'LOCATE ,,{n}', 'LOCATE'],
    'LOCK': ['LOCK #{k}', 'LOCK {k},{n}', 'LOCK #{k},{n} TO {n}', 'LOCK #{k}, TO {n}'],
    'LPRINT': ['LPRINT', 'LPRINT {n}', 'LPRINT {s};', 'LPRINT USING {s};{n}'],
    'LSET': ['LSET A$={s}', 'LSET F$={s}'],
    'MERGE': ['MERGE {f}'],
    'MID$': ['MID$(A$,{n})={s}', 'MID$(A$,{n},{n})={s}'],
    'MKDIR': ['MKDIR {s}'],
    'MOTOR': ['MOTOR', 'MOTOR {n}'],
    'NAME': ['NAME {s} AS {s}'],
    'NEW': ['NEW'],
    'NEXT': ['NEXT', 'NEXT I', 'NEXT I,J'],
    'NOISE': ['NOISE {n},{n},{n}'],
    'ON': ['ON ERROR GOTO {l}', 'ON ERROR GOTO 0', 'ON {n} GOTO {l},{l}', 'ON {n} GOSUB {l}', 'ON KEY({n}) GOSUB {l}',
           'ON TIMER({n}) GOSUB {l}', 'ON PLAY({n}) GOSUB {l}', 'ON PEN GOSUB {l}', 'ON STRIG({n}) GOSUB {l}',
           'ON COM({n}) GOSUB {l}'],
    'OPEN': ['OPEN {f} FOR OUTPUT AS {k}', 'OPEN {f} FOR INPUT AS #{k}', 'OPEN {f} FOR RANDOM AS {k} LEN={n}',
             'OPEN {f} FOR APPEND ACCESS WRITE LOCK READ AS {k}', 'OPEN "R",{k},{f},{n}', 'OPEN {s} AS {n}',
             'OPEN "O",#{n},{s}', 'OPEN {f} FOR INPUT ACCESS READ WRITE SHARED AS {k}'],
    'OPTION': ['OPTION BASE {n}', 'OPTION BASE 0', 'OPTION BASE 1'],
    'OUT': ['OUT {n},{n}'],
    'PAINT': ['PAINT ({n},{n})', 'PAINT ({n},{n}),{n},{n}', 'PAINT ({n},{n}),{s}', 'PAINT STEP({n},{n}),{s},{n},{s}'],
    'PALETTE': ['PALETTE', 'PALETTE {n},{n}', 'PALETTE USING AR%({n})'],
    'PCOPY': ['PCOPY {n},{n}'],
    'PEN': ['PEN ON', 'PEN OFF', 'PEN STOP'],
    'PLAY': ['PLAY {s}', 'PLAY "MBC"', 'PLAY "MBL{n}C"'.replace('{n}', '4'), 'PLAY ON', 'PLAY OFF', 'PLAY STOP',
             'PLAY "MBX"+VARPTR$(A$)', 'PLAY "MBN=X;"'],
    'POKE': ['POKE {n},{n}'],
    'PRESET': ['PRESET ({n},{n})', 'PRESET ({n},{n}),{n}', 'PRESET STEP({n},{n})'],
    'PRINT': ['PRINT', 'PRINT {n}', 'PRINT {s};{n},', 'PRINT USING {s};{n}', 'PRINT #{k},{n}', 'PRINT TAB({n});SPC({n});1',
              'PRINT USING "##.##";{n};{n}', 'PRINT #{k},USING {s};{n}', '?{n}'],
    'PSET': ['PSET ({n},{n})', 'PSET ({n},{n}),{n}', 'PSET STEP({n},{n}),{n}'],
    'PUT': ['PUT #{k}', 'PUT {k},{n}', 'PUT ({n},{n}),AR', 'PUT ({n},{n}),AR%,XOR', 'PUT ({n},{n}),AR,PSET'],
    'RANDOMIZE': ['RANDOMIZE {n}', 'RANDOMIZE'],
    'READ': ['READ X', 'READ X$,Y', 'READ AR({n})'],
    'REM': ['REM x', "' x"],
    'RENUM': ['RENUM', 'RENUM {n}', 'RENUM {n},{n}', 'RENUM {n},{n},{n}', 'RENUM ,,{n}', 'RENUM 1000,30'],
    'RESET': ['RESET'],
    'RESTORE': ['RESTORE', 'RESTORE {l}'],
    'RESUME': ['RESUME', 'RESUME NEXT', 'RESUME {l}', 'RESUME 0'],
    'RETURN': ['RETURN', 'RETURN {l}'],
    'RMDIR': ['RMDIR {s}'],
    'RSET': ['RSET A$={s}'],
    'RUN': ['RUN', 'RUN {l}', 'RUN {f}', 'RUN {f},R'],
    'SAVE': ['SAVE {f}', 'SAVE {f},A', 'SAVE {f},P'],
    'SCREEN': ['SCREEN {n}', 'SCREEN {n},{n}', 'SCREEN {n},{n},{n},{n}', 'SCREEN ,,{n},{n}', 'SCREEN {n},,,,{n}'],
    'SHELL': ['SHELL', 'SHELL {s}'],
    'SOUND': ['SOUND {n},{n}', 'SOUND {n},{n},{n},{n}', 'SOUND ON', 'SOUND OFF'],
    'STOP': ['STOP'],
    'STRIG': ['STRIG ON', 'STRIG OFF', 'STRIG({n}) ON', 'STRIG({n}) OFF', 'STRIG({n}) STOP'],
    'SWAP': ['SWAP X,Y', 'SWAP A$,B$', 'SWAP X,A$', 'SWAP AR({n}),X'],
    'SYSTEM': ['SYSTEM'],
    'TERM': ['TERM'],
    'TIME$': ['TIME$={s}'],
    'TIMER': ['TIMER ON', 'TIMER OFF', 'TIMER STOP'],
    'TROFF': ['TROFF'],
    'TRON': ['TRON'],
    'UNLOCK': ['UNLOCK #{k}', 'UNLOCK {k},{n}', 'UNLOCK #{k},{n} TO {n}'],
    'VIEW': ['VIEW', 'VIEW ({n},{n})-({n},{n})', 'VIEW SCREEN ({n},{n})-({n},{n}),{n},{n}', 'VIEW PRINT',
             'VIEW PRINT {n} TO {n}'],
    'WAIT': ['WAIT {n},{n}', 'WAIT {n},{n},{n}'],
    'WEND': ['WEND'],
    'WHILE': ['WHILE {n}:WEND', 'WHILE 0'],
    'WIDTH': ['WIDTH {n}', 'WIDTH {n},{n}', 'WIDTH {s},{n}', 'WIDTH #{k},{n}', 'WIDTH LPRINT {n}'],
    'WINDOW': ['WINDOW', 'WINDOW ({n},{n})-({n},{n})', 'WINDOW SCREEN ({n},{n})-({n},{n})'],
    'WRITE': ['WRITE', 'WRITE {n},{s}', 'WRITE #{k},{n},{s}'],
}

FUNCTIONS = {
    'ABS': ['ABS({n})'], 'ASC': ['ASC({s})'], 'ATN': ['ATN({n})'], 'CDBL': ['CDBL({n})'], 'CHR$': ['CHR$({n})'],
    'CINT': ['CINT({n})'], 'COS': ['COS({n})'], 'CSNG': ['CSNG({n})'], 'CSRLIN': ['CSRLIN'], 'CVD': ['CVD({s})'],
    'CVI': ['CVI({s})'], 'CVS': ['CVS({s})'], 'DATE$': ['DATE$'], 'ENVIRON': ['ENVIRON$({s})', 'ENVIRON$({n})'],
    'EOF': ['EOF({n})'], 'ERDEV': ['ERDEV', 'ERDEV$'], 'ERL': ['ERL'], 'ERR': ['ERR'], 'EXP': ['EXP({n})'],
    'EXTERR': ['EXTERR({n})'], 'FIX': ['FIX({n})'], 'FN': ['FNA({n})', 'FNZ({n})'], 'FRE': ['FRE({n})', 'FRE({s})'],
    'HEX$': ['HEX$({n})'], 'INKEY$': ['INKEY$'], 'INP': ['INP({n})'], 'INPUT': ['INPUT$({n})', 'INPUT$({n},#{k})'],
    'INSTR': ['INSTR({s},{s})', 'INSTR({n},{s},{s})'], 'INT': ['INT({n})'], 'IOCTL': ['IOCTL$({k})'],
    'LEFT$': ['LEFT$({s},{n})'], 'LEN': ['LEN({s})'], 'LOC': ['LOC({n})'], 'LOF': ['LOF({n})'], 'LOG': ['LOG({n})'],
    'LPOS': ['LPOS({n})'], 'MID$': ['MID$({s},{n})', 'MID$({s},{n},{n})'], 'MKD$': ['MKD$({n})'], 'MKI$': ['MKI$({n})'],
    'MKS$': ['MKS$({n})'], 'OCT$': ['OCT$({n})'], 'PEEK': ['PEEK({n})'], 'PEN': ['PEN({n})'], 'PLAY': ['PLAY({n})'],
    'PMAP': ['PMAP({n},{n})'], 'POINT': ['POINT({n})', 'POINT({n},{n})'], 'POS': ['POS({n})'],
    'RIGHT$': ['RIGHT$({s},{n})'], 'RND': ['RND', 'RND({n})'], 'SCREEN': ['SCREEN({n},{n})', 'SCREEN({n},{n},{n})'],
    'SGN': ['SGN({n})'], 'SIN': ['SIN({n})'], 'SPACE$': ['SPACE$({n})'], 'SQR': ['SQR({n})'], 'STICK': ['STICK({n})'],
    'STR$': ['STR$({n})'], 'STRIG': ['STRIG({n})'], 'STRING$': ['STRING$({n},{n})', 'STRING$({n},{s})'],
    'TAN': ['TAN({n})'], 'TIME$': ['TIME$'], 'TIMER': ['TIMER'], 'USR': ['USR({n})', 'USR1({n})'], 'VAL': ['VAL({s})'],
    'VARPTR': ['VARPTR(X)', 'VARPTR(A$)', 'VARPTR(#{k})', 'VARPTR$(X)', 'VARPTR(NOTYET)', 'VARPTR(AR({n}))'],
    # operators, as expression templates
    'OP': ['{n}+{n}', '{n}-{n}', '{n}*{n}', '{n}/{n}', '{n}\\{n}', '{n} MOD {n}', '{n}^{n}', '-{n}', 'NOT {n}',
           '{n} AND {n}', '{n} OR {n}', '{n} XOR {n}', '{n} EQV {n}', '{n} IMP {n}', '{n}<{n}', '{n}>={n}',
           '{s}+{s}', '{s}<{s}', '{s}={s}', '{n}={s}'],
}

# keywords that are not statements/functions by themselves (covered inside the templates above)
NON_STATEMENT_KEYWORDS = {
    "'", '*', '+', '-', '/', '<', '=', '>', '\\', '^', 'AND', 'EQV', 'IMP', 'MOD', 'NOT', 'OR', 'XOR',
    'OFF', 'STEP', 'THEN', 'TO', 'USING', 'SPC(', 'TAB(', 'FN', 'USR',
}


def assert_complete():
    """Every keyword of every dialect's token table is a key of STATEMENTS or FUNCTIONS
    (or a pure operator / clause keyword)."""
    from pcbasic.basic.base import tokens as tk
    missing = set()
    for syntax in ('advanced', 'pcjr', 'tandy'):
        d = tk.TokenKeywordDict(syntax)
        for kw in d.to_token.keys():
            k = kw.decode('ascii')
            if k in STATEMENTS or k in FUNCTIONS or k in NON_STATEMENT_KEYWORDS:
                continue
            missing.add(k)
    return sorted(missing)


def fill(template, mapping=None):
    m = dict(DEFAULTS)
    if mapping:
        m.update(mapping)
    out = template
    for k, v in m.items():
        out = out.replace('{%s}' % k, v)
    return out


def slots(template):
    """Ordered list of (position index, kind) of the n/s placeholders of a template."""
    res = []
    i = 0
    while True:
        j = template.find('{', i)
        if j < 0:
            break
        kind = template[j + 1]
        if kind in 'nsf':
            # file names are string arguments too
            res.append((j, 's' if kind == 'f' else kind))
        i = j + 3
    return res


def instantiate(template, choice):
    """choice: dict slot-ordinal -> replacement text; other n/s slots get DEFAULTS."""
    out = []
    i = 0
    ordinal = 0
    while True:
        j = template.find('{', i)
        if j < 0:
            out.append(template[i:])
            break
        out.append(template[i:j])
        kind = template[j + 1]
        if kind in 'nsf':
            out.append(choice.get(ordinal, DEFAULTS[kind]))
            ordinal += 1
        else:
            out.append(DEFAULTS[kind])
        i = j + 3
    return ''.join(out)


def deviations(template, nums, strs, max_dev):
    """All instantiations with at most max_dev non-default n/s slots (deviation bounded)."""
    sl = slots(template)
    seen = set()
    base = instantiate(template, {})
    seen.add(base)
    yield base
    for d in range(1, max_dev + 1):
        for combo in itertools.combinations(range(len(sl)), d):
            alphabets = [nums if sl[c][1] == 'n' else strs for c in combo]
            for vals in itertools.product(*alphabets):
                txt = instantiate(template, dict(zip(combo, vals)))
                if txt not in seen:
                    seen.add(txt)
                    yield txt
