"""
Host file-system access monitor for C27 (and anybody else who needs it).

Built on sys.addaudithook: CPython raises an audit event *before* every open(),
os.listdir/scandir/mkdir/rmdir/remove/rename/truncate/chdir/..., shutil.* call,
whatever module issues it.  The hook cannot be removed once installed, so it is
installed lazily, once per process, and only records while `Monitor.active`.

stat()-type probes (os.stat, os.path.exists/isdir/isfile, os.statvfs, os.access)
raise no audit event in CPython and are therefore not seen (documented assumption
of the C27 check: probing for existence is not "access").
"""
import os
import sys

# event -> (kind, indices of path arguments)
EVENTS = {
    'open': ('open', (0,)),
    'os.listdir': ('list', (0,)),
    'os.scandir': ('list', (0,)),
    'os.walk': ('list', (0,)),
    'glob.glob': ('list', (0,)),
    'os.mkdir': ('create', (0,)),
    'os.rmdir': ('delete', (0,)),
    'os.remove': ('delete', (0,)),
    'os.rename': ('rename', (0, 1)),
    'os.link': ('create', (0, 1)),
    'os.symlink': ('create', (0, 1)),
    'os.truncate': ('modify', (0,)),
    'os.chmod': ('modify', (0,)),
    'os.chown': ('modify', (0,)),
    'os.utime': ('modify', (0,)),
    'os.chdir': ('chdir', (0,)),
    'os.chflags': ('modify', (0,)),
    'os.setxattr': ('modify', (0,)),
    'os.removexattr': ('modify', (0,)),
    'shutil.copyfile': ('copy', (0, 1)),
    'shutil.copymode': ('copy', (0, 1)),
    'shutil.copystat': ('copy', (0, 1)),
    'shutil.copytree': ('copy', (0, 1)),
    'shutil.move': ('rename', (0, 1)),
    'shutil.rmtree': ('delete', (0,)),
    'shutil.chown': ('modify', (0,)),
    'shutil.make_archive': ('create', (0,)),
    'shutil.unpack_archive': ('create', (0, 1)),
    'tempfile.mkstemp': ('create', (0,)),
    'tempfile.mkdtemp': ('create', (0,)),
    'subprocess.Popen': ('exec', (0,)),
    'os.system': ('exec', ()),
    'os.exec': ('exec', (0,)),
    'os.posix_spawn': ('exec', (0,)),
}

_WRITE_FLAGS = os.O_WRONLY | os.O_RDWR | os.O_CREAT | os.O_TRUNC | os.O_APPEND


class Monitor(object):
    """Records audited file-system events while active."""

    def __init__(self):
        self.active = False
        self.events = []
        self._busy = False
        self._installed = False

    def install(self):
        if not self._installed:
            sys.addaudithook(self._hook)
            self._installed = True
        return self

    def _hook(self, event, args):
        if not self.active or self._busy:
            return
        spec = EVENTS.get(event)
        if spec is None:
            return
        self._busy = True
        try:
            kind, idx = spec
            paths = []
            for i in idx:
                if i < len(args):
                    p = args[i]
                    if isinstance(p, bytes):
                        p = os.fsdecode(p)
                    elif hasattr(p, '__fspath__'):
                        p = os.fspath(p)
                    if isinstance(p, str):
                        paths.append(p)
                    # ints are file descriptors: already-open objects, not a path access
            writing = None
            if event == 'open':
                mode, flags = (args + (None, None))[1:3]
                if isinstance(mode, str):
                    writing = any(c in mode for c in 'wax+')
                elif isinstance(flags, int):
                    writing = bool(flags & _WRITE_FLAGS)
                else:
                    writing = False
            self.events.append((event, kind, tuple(paths), writing))
        finally:
            self._busy = False

    def start(self):
        self.events = []
        self.active = True

    def stop(self):
        self.active = False
        ev, self.events = self.events, []
        return ev


MONITOR = Monitor()


def under(path, roots):
    """True if real path is one of roots or below one."""
    for r in roots:
        if path == r or path.startswith(r + os.sep):
            return True
    return False


def real(path):
    try:
        return os.path.realpath(path)
    except (OSError, ValueError):
        pass
    try:
        return os.path.abspath(path)
    except OSError:
        # the process's working directory itself has been removed (by the code under test)
        return os.path.join(os.sep, 'working-directory-removed', path if isinstance(path, str) else os.fsdecode(path))


def tree_signature(top, exclude=()):
    """Deterministic (relative path, type, content) listing of everything under top,
    not descending into (and not listing) the directories in `exclude` (absolute real paths)."""
    out = []
    stack = [top]
    cut = len(top) + 1
    while stack:
        d = stack.pop()
        try:
            entries = list(os.scandir(d))
        except OSError as e:
            out.append((d[cut:], 'unlistable', e.errno))
            continue
        for ent in entries:
            p = ent.path
            if p in exclude:
                continue
            rel = p[cut:]
            if ent.is_symlink():
                out.append((rel, 'link', os.readlink(p)))
            elif ent.is_dir(follow_symlinks=False):
                out.append((rel, 'dir', None))
                stack.append(p)
            else:
                try:
                    with open(p, 'rb') as f:
                        out.append((rel, 'file', f.read()))
                except OSError as e:
                    out.append((rel, 'unreadable', e.errno))
    out.sort()
    return out
