#!/bin/bash
# usage: mutant.sh <name> <file> <python-replace-expr: old|||new> -- <check ids...>
# applies a one-line textual mutation in a scratch worktree, runs baseline + checks, removes worktree
set -u
NAME=$1; FILE=$2; SPEC=$3; shift 3; [ "$1" == "--" ] && shift
WT=/tmp/wt-mut-$NAME-$$
git -C /repo worktree add --detach $WT HEAD -q || exit 3
/venv/bin/python - "$WT/$FILE" "$SPEC" <<'PY'
import sys
p, spec = sys.argv[1], sys.argv[2]
old, new = spec.split('|||')
s = open(p).read()
if s.count(old) != 1:
    print('MUTANT-ERROR: pattern occurs %d times' % s.count(old)); sys.exit(4)
open(p, 'w').write(s.replace(old, new))
PY
rc=$?
if [ $rc -ne 0 ]; then git -C /repo worktree remove --force $WT; exit $rc; fi
if [ "${SKIP_BASELINE:-0}" != "1" ]; then /verif/tools/baseline.py $WT | tail -3; fi
for c in "$@"; do
  out=$(cd /verif && VERIF_REPO=$WT VERIF_NO_EVIDENCE=1 ./run_check.py $c --tier ${TIER:-quick} 2>&1)
  echo "[$NAME] $c exit=$? $(echo "$out" | grep -c '^VIOLATION') violations; $(echo "$out" | grep -A1 '^VIOLATION' | grep 'key=' | head -3 | tr '\n' ' ')"
  echo "$out" | grep 'CHECK-ERROR' | head -3
done
git -C /repo worktree remove --force $WT
