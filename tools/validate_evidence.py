#!/opt/veriftools/pyvenv/bin/python
import json, sys, glob, jsonschema
schema = json.load(open('/root/.vp/EVIDENCE.schema.json'))
bad = 0
for f in sorted(glob.glob('/verif/evidence/*.json')):
    try:
        jsonschema.validate(json.load(open(f)), schema)
    except Exception as e:
        bad += 1
        print('INVALID', f, str(e)[:300])
print('evidence files checked; invalid=%d' % bad)
sys.exit(1 if bad else 0)
