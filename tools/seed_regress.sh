#!/bin/bash
# usage: seed_regress.sh <seed-id>...   re-runs the check(s) recorded in seeded/<id>/meta.json against /repo HEAD + patch.diff
# prints one line per seed: "<id> detected|MISSED|NOAPPLY|OUTSIDE ..."
set -u
for S in "$@"; do
  D=/verif/seeded/$S
  [ -f $D/patch.diff ] || { echo "$S NOPATCH"; continue; }
  WT=/tmp/wt-seedreg-$S-$$
  git -C /repo worktree add --detach $WT HEAD -q || { echo "$S NOWORKTREE"; continue; }
  if ! git -C $WT apply $D/patch.diff 2>/dev/null; then echo "$S NOAPPLY"; git -C /repo worktree remove --force $WT; continue; fi
  CHECKS=$(/venv/bin/python -c "
import json,sys
m=json.load(open('$D/meta.json'))
v=m.get('verified_by_coordinator',{}).get('checks_run_on_patched_tree',[])
c=[x['check'] for x in v if x.get('exit')==1] or [x['check'] for x in v] or [m.get('property','$S'[:3])]
print(' '.join(dict.fromkeys(c)))
")
  ASSESS=$(/venv/bin/python -c "
import json;print('OUTSIDE' if json.load(open('$D/meta.json')).get('coordinator_assessment') else '')")
  RES=""
  for c in $CHECKS; do
    out=$(cd /verif && VERIF_REPO=$WT VERIF_NO_EVIDENCE=1 ./run_check.py $c --tier quick 2>&1); code=$?
    RES="$RES $c=$code"
    [ $code = 2 ] && echo "$out" | grep -A3 CHECK-ERROR | head -4
  done
  case "$RES" in *=1*) echo "$S detected$RES";; *) echo "$S ${ASSESS:-MISSED}$RES";; esac
  git -C /repo worktree remove --force $WT
done
