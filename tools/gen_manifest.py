#!/venv/bin/python
"""Generate /verif/MANIFEST.json from the check modules present under checks/.
Properties without a registered check are listed under not_applicable with the reason
given in NOT_CLAIMED (or 'check not built yet')."""
import json, os, sys, importlib
VERIF = os.path.dirname(os.path.dirname(os.path.abspath(__file__)))
sys.path[:0] = ['/repo', VERIF]
os.environ.setdefault('PYTHONHASHSEED', '0')

NOT_CLAIMED = {}   # property -> reason, for properties deliberately not claimed

REGISTERED = set(open(os.path.join(VERIF, 'registered.txt')).read().split())
props = [json.loads(l) for l in open(os.path.join(VERIF, 'properties.jsonl'))]
checks, na = [], []
for p in props:
    pid = p['id']
    modpath = os.path.join(VERIF, 'checks', pid.lower() + '.py')
    if pid in NOT_CLAIMED or pid not in REGISTERED or not os.path.exists(modpath):
        na.append({'property_id': pid, 'reason': NOT_CLAIMED.get(pid, 'check not built yet (see DESIGN.md section 2 for the planned design)')})
        continue
    m = importlib.import_module('checks.' + pid.lower())
    if not getattr(m, 'REGISTERED', True):
        na.append({'property_id': pid, 'reason': getattr(m, 'NOT_REGISTERED_REASON', 'check under construction')})
        continue
    c = {
        'property_id': pid,
        'quick_cmd': './run_check.py %s --tier quick' % pid,
        'thorough_cmd': './run_check.py %s --tier thorough' % pid,
        'evidence_file': 'evidence/%s.json' % pid,
        'replay_cmd_template': './run_check.py %s --replay {path}' % pid,
        'engine': getattr(m, 'ENGINE', 'E1 domain'),
        'level_claimed': {
            'category': getattr(m, 'LEVEL', 'model_checking'),
            'text': getattr(m, 'LEVEL_TEXT', (m.__doc__ or '').strip().split('\n\n')[0]),
            'design_ref': 'DESIGN.md section 2, %s' % pid,
        },
        'level_note': getattr(m, 'LEVEL_NOTE', '; '.join(getattr(m, 'ASSUMPTIONS', [])) or 'see evidence assumptions'),
        'technique': getattr(m, 'TECHNIQUE', 'bounded exhaustive enumeration of the input/history space on the real code against a reference model'),
    }
    checks.append(c)

manifest = {
    'version': 1,
    'setup_cmd': 'mkdir -p evidence replays && /venv/bin/python -c "import sys; sys.path.insert(0, \'/repo\'); import pcbasic"',
    'hooks': {
        'guard': 'PCBASIC_VERIF',
        'enable': 'run_check.py exports PCBASIC_VERIF=1 and PYTHONPATH=/repo (pure Python, nothing to build); no guarded source hook is currently needed: all seams are installed from outside',
        'baseline_off_cmd': 'cd /repo && env -u PCBASIC_VERIF /venv/bin/python -m pytest -ra -q -p no:cacheprovider --timeout=900 --continue-on-collection-errors',
        'source_commits': [],
        'add_only': True,
    },
    'engines': [
        {'name': 'E1 domain', 'path': 'mc/core.py', 'kind_free_text': 'exhaustive enumeration of a finite input alphabet product, sharded over 16 processes',
         'serves_properties': [c['property_id'] for c in checks if c['engine'].startswith('E1')]},
        {'name': 'E2 bfs', 'path': 'mc/bfs.py', 'kind_free_text': 'explicit-state BFS over operation histories on the real objects with canonical-state dedup and lock-step reference model',
         'serves_properties': [c['property_id'] for c in checks if c['engine'].startswith('E2')]},
        {'name': 'E3 sched', 'path': 'mc/sched.py', 'kind_free_text': 'deviation-bounded exploration of environment answers at the interpreter poll points',
         'serves_properties': [c['property_id'] for c in checks if c['engine'].startswith('E3')]},
        {'name': 'E4 crash', 'path': 'mc/crash.py', 'kind_free_text': 'every statement boundary as suspend point; every single-byte alteration of a state file',
         'serves_properties': [c['property_id'] for c in checks if c['engine'].startswith('E4')]},
    ],
    'checks': checks,
    'not_applicable': na,
    'notes': 'All checks: ./run_check.py <ID> --tier quick|thorough; exit 0 held / 1 VIOLATION / 2 CHECK-ERROR. known_findings.json lists recorded findings and fixed defects.',
}
json.dump(manifest, open(os.path.join(VERIF, 'MANIFEST.json'), 'w'), indent=1)
import jsonschema
jsonschema.validate(manifest, json.load(open('/root/.vp/MANIFEST.schema.json')))
print('MANIFEST.json: %d checks, %d not_applicable; valid' % (len(checks), len(na)))
