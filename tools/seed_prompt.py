#!/venv/bin/python
"""Print the prompt for a seeding sub-agent for property <id> (only the property text + worktree path)."""
import json, sys
pid = sys.argv[1]
rnd = sys.argv[2] if len(sys.argv) > 2 else ''
for l in open('/verif/properties.jsonl'):
    p = json.loads(l)
    if p['id'] == pid:
        break
wt = '/tmp/seed-%s%s' % (pid, rnd)
out = '/tmp/seed-out-%s%s' % (pid, rnd)
mechs = p['anchors']['mechanism']
focus = ''
if rnd:
    k = (ord(rnd[0]) - ord('a')) % len(mechs)
    m = mechs[k]
    if rnd[0] >= 'm':
        k = (ord(rnd[0]) - ord('a') + 10) % len(mechs)
        m = mechs[k]
        focus = '\n  Focus: put your change in or around this mechanism of the implementation: %s (%s). Prefer a fault in how an ARGUMENT is converted before it is used: a fractional value where a whole number is expected (rounded the wrong way at exactly .5, truncated instead of rounded, rounded after instead of before a range check or an offset is applied, a negative fraction such as -0.5 or -0.4 handled differently from 0), a single or double where an integer is usual (a value such as 32767.4 or 255.5, a double with more precision than a single), an integer where a float is usual, an argument given as a variable or expression instead of a literal, or two arguments converted in the wrong order or with each other\'s type. With whole-number literal arguments everything must behave exactly as before.' % (m.get('name'), m.get('where'))
    elif rnd[0] >= 'l':
        k = (ord(rnd[0]) - ord('a') + 9) % len(mechs)
        m = mechs[k]
        focus = '\n  Focus: put your change in or around this mechanism of the implementation: %s (%s). Prefer a fault that appears only when TWO instances of the same kind of object are in use at once and come to share something they should not (a buffer, a cursor or position, a cache entry or key, a counter, a flag, a saved value): two open files or file numbers, two arrays, two strings with the same content or one a substring of the other, two variables whose names differ only in sigil or length, two nested or consecutive loops on the same variable, two DEF FN functions with the same parameter name or one calling the other, two screen pages or viewports, two event traps, two DATA statements or lines, two programs chained or merged. One instance alone, or two that never overlap in time, must behave exactly as before.' % (m.get('name'), m.get('where'))
    elif rnd[0] >= 'k':
        k = (ord(rnd[0]) - ord('a') + 8) % len(mechs)
        m = mechs[k]
        focus = '\n  Focus: put your change in or around this mechanism of the implementation: %s (%s). Prefer a fault in what happens when the input is INVALID, out of range or refused: the wrong error code for a particular kind of bad input, an error raised for a value that is still legal or not raised for one that is just illegal (a limit moved by one, a check applied to the value after a conversion has rounded, truncated or wrapped it into range, a check on the wrong one of two arguments), an error raised AFTER a side effect that should not have happened or BEFORE one that should (so that the refused statement leaves a trace, or an accepted one loses part of its effect), or a check that only one of two spellings / entry points of the same operation performs. Everything that is valid and well inside the limits must behave exactly as before.' % (m.get('name'), m.get('where'))
    elif rnd[0] >= 'j':
        k = (ord(rnd[0]) - ord('a') + 7) % len(mechs)
        m = mechs[k]
        focus = '\n  Focus: put your change in or around this mechanism of the implementation: %s (%s). Prefer a fault that depends on the FORM of a perfectly legal input rather than on its meaning, so that the everyday form behaves exactly as before and only an unusual form of the same thing goes wrong: its spelling or layout (lower case, extra or missing blanks, tabs, optional arguments omitted or given explicitly, an alternate separator or keyword order, a type sigil versus a DEFtype default, a number written in hex / octal / exponent form or with many digits), its size or alignment (a length, offset, address, coordinate or count that crosses a multiple of 8, 16, 128, 255 or 256, an odd versus an even length, the last element rather than the first), its order (operands, corners, ranges or list entries given in reverse or repeated, two names of which one is a prefix or a case variant of the other), or its position (the same statement at the end of a line, after THEN / ELSE, in a multi-statement line, as the last line of the program). Avoid faults that any everyday use of the mechanism would show.' % (m.get('name'), m.get('where'))
    elif rnd[0] >= 'i':
        k = (ord(rnd[0]) - ord('a') + 6) % len(mechs)
        m = mechs[k]
        focus = '\n  Focus: put your change in or around this mechanism of the implementation: %s (%s). Prefer a FAST PATH: add (or widen) a shortcut that handles the common case more cheaply - skipping a conversion, a copy, a bounds or type check, a table lookup, a loop over something that is usually empty or usually has one element - whose guard condition is slightly too generous, so that a few uncommon but legal inputs or states take the shortcut although they need the full treatment (for example: the value is usually an integer / positive / below 256 / ASCII / already normalised; the list usually has one entry; the two operands usually have the same type; the file is usually at its end; the screen is usually in text mode; the string usually lives in string space). Everything the shortcut was meant for, and everything that clearly fails the guard, must behave exactly as before.' % (m.get('name'), m.get('where'))
    elif rnd[0] >= 'h':
        k = (ord(rnd[0]) - ord('a') + 5) % len(mechs)
        m = mechs[k]
        focus = '\n  Focus: put your change in or around this mechanism of the implementation: %s (%s). Prefer a fault that needs a LONG-LIVED session or REUSE to show: something that accumulates or drifts over many operations (a leak of a few bytes or of one table entry per call, a counter or cursor that creeps or wraps, a cache or list that keeps stale entries, rounding that compounds), or a resource that is handed out again after it was released (a file number, record buffer or lock reopened after CLOSE, string space reused after a garbage collection, an array or variable re-created after ERASE / CLEAR / NEW, a screen page or mode entered a second time, a program line re-entered after DELETE, a second RUN of the same program in the same session). A single use from a fresh session must behave exactly as before; only the repetition, the reuse or the sheer number of operations brings the fault out.' % (m.get('name'), m.get('where'))
    elif rnd[0] >= 'g':
        k = (ord(rnd[0]) - ord('a') + 4) % len(mechs)
        m = mechs[k]
        focus = '\n  Focus: put your change in or around this mechanism of the implementation: %s (%s). Prefer a fault whose effect shows only AFTER something has gone wrong or been cut short - a statement that raised an error part-way, an operation refused for lack of memory or because of a disk / tape / device error, a Break / STOP / END in the middle of a loop, handler or file operation, a trapped error followed by RESUME - so that the state left behind (a flag not restored, a resource not released, a half-updated table, a counter advanced although the operation failed) makes LATER, perfectly ordinary operations misbehave; or a fault that shows only under a non-default Session option that the mechanism supports (another syntax / dialect such as pcjr or tandy, another video adapter or text width, the double-precision math option, soft linefeed, another codepage, a memory size limit). The fault should stay invisible as long as every operation succeeds under the default configuration.' % (m.get('name'), m.get('where'))
    elif rnd[0] >= 'f':
        k = (ord(rnd[0]) - ord('a') + 3) % len(mechs)
        m = mechs[k]
        focus = '\n  Focus: put your change in or around this mechanism of the implementation: %s (%s). Prefer a fault whose only symptom is a silently wrong value or a silently different state (no error message, no exception, nothing printed) on a secondary path to the same mechanism: the less common spelling of a statement or function (for example the file, printer or device form of an output statement, the form with optional arguments omitted or all given, the variant for another numeric type or for array elements instead of scalars), a memo/cache or a precomputed table with a slightly wrong key, or a value that passes through two conversions. Avoid the primary, everyday path: assume it is tested thoroughly.' % (m.get('name'), m.get('where'))
    elif rnd[0] >= 'e':
        k = (ord(rnd[0]) - ord('a') + 2) % len(mechs)
        m = mechs[k]
        focus = '\n  Focus: put your change in or around this mechanism of the implementation: %s (%s). Prefer a fault at a boundary or in a rarely taken branch that looks equivalent to the main one: a limit value (0, 1, 255, 256, 32767, the last row/column/record, an empty string, file or program), an alternate entry point to the same mechanism (the Session API versus BASIC statements, direct mode versus a program line, the same file through another device or mode, another syntax/dialect option or video adapter), or an error path (the state that is left behind when an operation is refused or fails half-way).' % (m.get('name'), m.get('where'))
    elif rnd[0] >= 'd':
        k = (ord(rnd[0]) - ord('a') + 1) % len(mechs)
        m = mechs[k]
        focus = '\n  Focus: put your change in or around this mechanism of the implementation: %s (%s). Prefer a fault that only shows through the INTERACTION of this mechanism with something else the interpreter does (error trapping and RESUME, garbage collection of strings, a second open file or device, a screen mode or width change, leftover state from a previous statement or a previous RUN, direct mode versus program mode, an unusual but legal spelling of the same statement) - something that exercising the mechanism alone from a fresh start would not reveal.' % (m.get('name'), m.get('where'))
    else:
      focus = '\n  Focus: put your change in or around this mechanism of the implementation: %s (%s). Prefer a fault in state that persists between operations (a cache, a cursor, a flag, a saved/restored value, an index that must stay in step with another) over a local arithmetic slip.' % (m.get('name'), m.get('where'))

print("""You are a software engineer helping to evaluate a verification tool. You have your own scratch git worktree of the open-source project robhagemans/pcbasic (a pure-Python GW-BASIC interpreter) at %(wt)s (it is a worktree of a larger repository; work ONLY inside %(wt)s and %(out)s; do not read or touch /repo or /verif or any other directory under /tmp). Run Python as `cd %(wt)s && /venv/bin/python ...` (pcbasic is imported from the worktree when you are in its root; the machine is offline).

Here is a semantic property the project is supposed to satisfy:

  Title: %(title)s
  Statement: %(statement)s
  It must hold over: %(qtext)s
  Relevant files: %(files)s%(focus)s

Your task: craft ONE realistic change to pcbasic's source (a plausible bug a maintainer could introduce: an off-by-one, a wrong comparison, a dropped carry, a missing restore/reset, a stale cache, a cursor advanced too early, two cooperating sites that each look fine alone, ...) that BREAKS this property while the code still imports and the project's existing unit test suite still passes exactly as before. The breakage must need something SPECIFIC to manifest — a particular multi-step sequence of operations, an unusual or boundary input, a particular state reached only after earlier operations, a particular interleaving/event timing or crash point — not something that ordinary use or the simplest input would expose at once. Do not add dead code or special-case magic constants like `if x == 12345`; the change should look like an honest mistake or an over-eager "simplification/optimisation", at most ~10 changed lines, in non-test source files only.

Steps:
1. Read the relevant code in the worktree and decide on the change.
2. Before changing anything, run the pinned unit suite to get the baseline: `cd %(wt)s && /venv/bin/python -m pytest -q -p no:cacheprovider --timeout=900 --continue-on-collection-errors tests/unit 2>&1 | tail -5` (about 250 tests pass; some collection errors/failures are pre-existing and expected; one test, test_dos.py::DosTest::test_interactive_shell, is flaky under load — ignore it). Note the pass/fail counts.
3. Make the change. Re-run the unit suite: the set of passing tests must be unchanged.
4. Write a demonstration: a small standalone Python script %(out)s/demo.py that uses the public pcbasic Session API (e.g. `from pcbasic import Session; s = Session(output_streams=None, input_streams=None); s.execute('...'); s.evaluate('...'); s.get_variable('A$')`, or internal modules if the property is about an internal mechanism) run from the worktree root, which exits 0 when the property holds for its scenario and exits 1 (printing what went wrong) when it does not. It must FAIL with your change applied and PASS on the unchanged code (verify both, using `git diff > %(out)s/patch.diff; git apply -R %(out)s/patch.diff; ...; git apply %(out)s/patch.diff` — NEVER use `git stash`: the stash is shared between all worktrees of the repository and other people are working in sibling worktrees; also delete __pycache__ directories before each demo run).
5. Save: %(out)s/patch.diff (output of `git diff` in the worktree), %(out)s/demo.py, and %(out)s/meta.json with keys: property (\"%(pid)s\"), summary (one sentence: what was changed), needs (what specific input/sequence/state is needed for the breakage to manifest), files_changed, unit_suite_before, unit_suite_after (pass/fail counts), demo_fails_with_patch (true/false), demo_passes_without_patch (true/false).
6. Leave the worktree with your change applied (uncommitted). Do not commit.

Reply with a short summary (the change, why the unit tests do not notice it, what it takes to trigger it).""" % dict(
    wt=wt, pid=pid, out=out, focus=focus, title=p['title'], statement=p['statement'], qtext=p['quantifier']['text'],
    files=', '.join(p['anchors']['files'])))
