#!/bin/bash
# usage: run_all.sh <tier> [ids...]  runs checks sequentially, prints one summary line each
TIER=$1; shift
IDS=${@:-$(cat registered.txt)}
for c in $IDS; do
  t0=$(date +%s)
  out=$(VERIF_NO_EVIDENCE=${VERIF_NO_EVIDENCE:-1} timeout ${PER_CHECK_TIMEOUT:-5400} ./run_check.py $c --tier $TIER 2>&1)
  code=$?
  t1=$(date +%s)
  echo "== $c $TIER exit=$code wall=$((t1-t0))s :: $(echo "$out" | grep "$c $TIER:" | tail -1)"
  echo "$out" | grep -A2 "^VIOLATION\|CHECK-ERROR" | head -20 | cut -c1-300
done
