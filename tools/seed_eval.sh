#!/bin/bash
# usage: seed_eval.sh <PROP> [checks...]   evaluates /tmp/seed-out-<PROP>/{patch.diff,demo.py,meta.json}
# 1. demo passes on unchanged HEAD  2. patch applies, unit suite still passes  3. demo fails with patch
# 4. our check(s) (default: the property's own) on the patched tree.  Stores everything in /verif/seeded/<PROP>/
set -u
P=$1; shift
CHECKS=${@:-$P}
ROUND=${ROUND:-}
OUT=/tmp/seed-out-$P$ROUND
DEST=/verif/seeded/$P$ROUND
WT=/tmp/wt-seedeval-$P-$$
[ -f $OUT/patch.diff ] || { echo "no patch for $P"; exit 3; }
git -C /repo worktree add --detach $WT HEAD -q || exit 3
cd $WT
DEMO_BEFORE=$( /venv/bin/python $OUT/demo.py >/dev/null 2>&1; echo $? )
if ! git apply $OUT/patch.diff 2>/tmp/seed_apply_err_$P; then echo "[$P] PATCH DOES NOT APPLY: $(head -2 /tmp/seed_apply_err_$P)"; cd /; git -C /repo worktree remove --force $WT; exit 4; fi
DEMO_AFTER=$( /venv/bin/python $OUT/demo.py >/tmp/seed_demo_$P.out 2>&1; echo $? )
BASE=$(/verif/tools/baseline.py $WT | tail -3 | tr '\n' ' ')
RES=""
for c in $CHECKS; do
  t0=$(date +%s)
  out=$(cd /verif && VERIF_REPO=$WT VERIF_NO_EVIDENCE=1 ./run_check.py $c --tier ${TIER:-quick} 2>&1)
  code=$?
  t1=$(date +%s)
  keys=$(echo "$out" | grep -A1 '^VIOLATION' | grep 'key=' | head -4 | sed 's/ *key=//' | tr '\n' ';')
  RES="$RES{\"check\":\"$c\",\"tier\":\"${TIER:-quick}\",\"exit\":$code,\"seconds\":$((t1-t0)),\"keys\":\"$keys\"},"
  echo "[$P] check $c exit=$code ($((t1-t0))s) keys: $keys"
  echo "$out" | grep "CHECK-ERROR" | head -2
done
echo "[$P] demo_before=$DEMO_BEFORE demo_after=$DEMO_AFTER baseline: $BASE"
mkdir -p $DEST
cp $OUT/patch.diff $OUT/demo.py $DEST/ 2>/dev/null
/venv/bin/python - "$OUT/meta.json" "$DEST/meta.json" "$DEMO_BEFORE" "$DEMO_AFTER" "$BASE" "[${RES%,}]" <<'PY'
import json, sys
src, dst, db, da, base, res = sys.argv[1:7]
try:
    meta = json.load(open(src))
except Exception as e:
    meta = {'note': 'sub-agent meta.json unreadable: %r' % (e,)}
meta['verified_by_coordinator'] = {
    'demo_exit_on_unchanged_tree': int(db), 'demo_exit_with_patch': int(da),
    'unit_suite_with_patch': base.strip(), 'checks_run_on_patched_tree': json.loads(res),
    'how': 'scratch worktree of /repo HEAD; git apply patch.diff; tools/baseline.py; VERIF_REPO=<worktree> ./run_check.py <ID>',
}
json.dump(meta, open(dst, 'w'), indent=1)
PY
cd /; git -C /repo worktree remove --force $WT
