#!/venv/bin/python
"""Regenerate the generated tables of DESIGN.md (between <!-- GEN:x --> markers) from
known_findings.json and seeded/*/meta.json."""
import json, os, glob, re
V = '/verif'
k = json.load(open(os.path.join(V, 'known_findings.json')))
fixed = [e for e in k if e['status'] == 'fixed']
known = [e for e in k if e['status'] == 'known']
def esc(s):
    return s.replace('|', '\\|').replace('\n', ' ')
out = {}
rows = ['| property | fix commit (in /repo) | violation key | what failed |', '|---|---|---|---|']
for e in sorted(fixed, key=lambda e: (e['property'], e['key'])):
    what = re.sub(r'^fixed: property=\S+ \S+ ', '', e['what'])
    rows.append('| %s | %s | `%s` | %s |' % (e['property'], e.get('commit', ''), esc(e['key']), esc(what)))
out['FIXED'] = '\n'.join(rows)
rows = ['| property | key pattern | finding (why it is recorded, not repaired) |', '|---|---|---|']
for e in sorted(known, key=lambda e: (e['property'], e['key'])):
    rows.append('| %s | `%s` | %s |' % (e['property'], esc(e['key']), esc(e['what'])))
out['KNOWN'] = '\n'.join(rows)
rows = ['| seeded change | breaks | what it needs to manifest | unit suite | detected by (quick tier) | keys |', '|---|---|---|---|---|---|']
for d in sorted(glob.glob(os.path.join(V, 'seeded', '*'))):
    try:
        m = json.load(open(os.path.join(d, 'meta.json')))
    except Exception:
        continue
    v = m.get('verified_by_coordinator', {})
    det = []
    keys = []
    for c in v.get('checks_run_on_patched_tree', []):
        det.append('%s: %s (%ss)' % (c['check'], 'DETECTED' if c['exit'] == 1 else ('missed' if c['exit'] == 0 else 'error'), c['seconds']))
        if c['keys']:
            keys.append(c['keys'].split(';')[0])
    if m.get('coordinator_assessment'):
        det.append('ASSESSMENT: ' + m['coordinator_assessment'])
    rows.append('| seeded/%s: %s | %s | %s | %s | %s | %s |' % (
        os.path.basename(d), esc(str(m.get('summary', ''))[:160]), m.get('property', ''), esc(str(m.get('needs', ''))[:200]),
        esc(v.get('unit_suite_with_patch', '').replace('baseline: ', '')), '; '.join(det), esc('; '.join('`%s`' % x for x in keys))))
out['SEEDED'] = '\n'.join(rows)
rows = ['| property | engine | legs: bound (as run in the quick tier; thorough bounds are in each check module) | evaluations | states | wall s |', '|---|---|---|---|---|---|']
import importlib, sys
sys.path[:0] = ['/repo', V]
for f in sorted(glob.glob(os.path.join(V, 'evidence', 'C*.json'))):
    ev = json.load(open(f))
    pid = ev['property_id']
    try:
        eng = getattr(importlib.import_module('checks.' + pid.lower()), 'ENGINE', 'E1 domain')
    except Exception:
        eng = '?'
    cov = ev['coverage']
    legs = '; '.join('**%s**: %s' % (l['leg'], esc(l.get('bound', ''))[:230]) for l in cov.get('legs', []))
    rows.append('| %s | %s | %s | %d | %s | %.0f |' % (pid, eng, legs, cov.get('evaluations', 0), cov.get('states', ''), ev['wall_s']))
out['BUILT'] = '\n'.join(rows)
p = os.path.join(V, 'DESIGN.md')
s = open(p).read()
for name, text in out.items():
    a, b = '<!-- GEN:%s -->' % name, '<!-- /GEN:%s -->' % name
    if a in s:
        s = s[:s.index(a) + len(a)] + '\n' + text + '\n' + s[s.index(b):]
open(p, 'w').write(s)
print('tables regenerated:', {n: t.count('\n') - 1 for n, t in out.items()})
