#!/venv/bin/python
"""Run the repository's pinned test suite (guard off) on a tree and compare with BASELINE.json.
usage: baseline.py [repo_dir]   exit 0 iff every stable_pass test passes."""
import json, os, subprocess, sys, tempfile, xml.etree.ElementTree as ET
repo = sys.argv[1] if len(sys.argv) > 1 else '/repo'
base = json.load(open('/root/.vp/BASELINE.json'))
fd, xmlf = tempfile.mkstemp(suffix='.xml'); os.close(fd)
env = dict(os.environ); env.pop('PCBASIC_VERIF', None); env.pop('PYTHONPATH', None)
p = subprocess.run(['/venv/bin/python', '-m', 'pytest', '-ra', '-q', '-p', 'no:cacheprovider',
                    '--timeout=900', '--continue-on-collection-errors', '--junitxml=' + xmlf],
                   cwd=repo, env=env, stdout=subprocess.PIPE, stderr=subprocess.STDOUT)
passed = set()
for tc in ET.parse(xmlf).getroot().iter('testcase'):
    if not any(c.tag in ('failure', 'error', 'skipped') for c in tc):
        passed.add('%s::%s' % (tc.get('classname'), tc.get('name')))
os.unlink(xmlf)
missing = [t for t in base['stable_pass'] if t not in passed]
# the machine may be heavily loaded: re-run tests that did not pass (timing-dependent ones) up to 3 times
still = []
for t in missing:
    cls, name = t.split('::')
    mod, klass = cls.rsplit('.', 1)
    node = '%s.py::%s::%s' % (mod.replace('.', '/'), klass, name)
    ok = False
    for _ in range(3):
        q = subprocess.run(['/venv/bin/python', '-m', 'pytest', '-q', '-p', 'no:cacheprovider', '--timeout=900', node],
                           cwd=repo, env=env, stdout=subprocess.PIPE, stderr=subprocess.STDOUT)
        if q.returncode == 0:
            ok = True
            break
    if ok:
        print('  (passed on retry: %s)' % t)
    else:
        still.append(t)
missing = still
print('baseline: %d/%d stable tests pass' % (len(base['stable_pass']) - len(missing), len(base['stable_pass'])))
for m in missing[:20]:
    print('  NOT PASSING:', m)
sys.exit(1 if missing else 0)
