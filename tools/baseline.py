#!/venv/bin/python
"""Run the repository's pinned test suite (guard off) on a tree and compare with BASELINE.json.
usage: baseline.py [repo_dir]   exit 0 iff every stable_pass test passes."""
import json, os, subprocess, sys, tempfile, xml.etree.ElementTree as ET
repo = sys.argv[1] if len(sys.argv) > 1 else '/repo'
base = json.load(open('/root/.vp/BASELINE.json'))
fd, xmlf = tempfile.mkstemp(suffix='.xml'); os.close(fd)
env = dict(os.environ); env.pop('PCBASIC_VERIF', None); env.pop('PYTHONPATH', None)
p = subprocess.run(['/venv/bin/python', '-m', 'pytest', '-ra', '-q', '-p', 'no:cacheprovider',
                    '--timeout=900', '--continue-on-collection-errors', '--junitxml=' + xmlf],
                   cwd=repo, env=env, stdout=subprocess.PIPE, stderr=subprocess.STDOUT)
passed = set()
for tc in ET.parse(xmlf).getroot().iter('testcase'):
    if not any(c.tag in ('failure', 'error', 'skipped') for c in tc):
        passed.add('%s::%s' % (tc.get('classname'), tc.get('name')))
os.unlink(xmlf)
missing = [t for t in base['stable_pass'] if t not in passed]
print('baseline: %d/%d stable tests pass' % (len(base['stable_pass']) - len(missing), len(base['stable_pass'])))
for m in missing[:20]:
    print('  NOT PASSING:', m)
sys.exit(1 if missing else 0)
