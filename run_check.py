#!/venv/bin/python
"""
Entry point:  run_check.py <ID> [--tier quick|thorough] [--replay file] [--leg name]

Runs the check for one property against /repo's current working tree (pure
Python: PYTHONPATH=/repo, nothing to build).  Exit 0 = held on everything
explored; 1 = VIOLATION line(s) printed; 2 = CHECK-ERROR (harness problem).
"""
import os
import sys

VERIF = os.path.dirname(os.path.abspath(__file__))
REPO = os.environ.get('VERIF_REPO', '/repo')


def _reexec():
    env = dict(os.environ)
    env['PYTHONHASHSEED'] = '0'
    env['PCBASIC_VERIF'] = '1'
    env['PYTHONDONTWRITEBYTECODE'] = '1'
    env['VERIF_REEXEC'] = '1'
    env['PYTHONPATH'] = REPO + os.pathsep + VERIF
    env.setdefault('SDL_VIDEODRIVER', 'dummy')
    os.execve(sys.executable, [sys.executable] + sys.argv, env)


def main():
    if os.environ.get('VERIF_REEXEC') != '1' or os.environ.get('PYTHONHASHSEED') != '0':
        _reexec()
    sys.path[:0] = [REPO, VERIF]
    import argparse
    import importlib
    ap = argparse.ArgumentParser()
    ap.add_argument('prop')
    ap.add_argument('--tier', default=os.environ.get('VERIF_TIER', 'quick'),
                    choices=['quick', 'thorough'])
    ap.add_argument('--replay')
    ap.add_argument('--leg')
    args = ap.parse_args()
    try:
        seed = int(os.environ.get('VERIF_SEED', '0'))
    except ValueError:
        seed = 0
    from mc import core
    # the process works in an empty scratch directory: pcbasic resolves some defaults (an unmounted current drive)
    # against the process's working directory, and a changed tree under test may do so in more places - whatever
    # file it creates or deletes there must not be one of /verif's
    import tempfile
    import shutil
    if args.replay:
        args.replay = os.path.abspath(args.replay)
    scratch_cwd = tempfile.mkdtemp(prefix='pcbverif_cwd_')
    # (not empty, so that an RMDIR gone astray cannot remove the working directory itself)
    os.mkdir(os.path.join(scratch_cwd, 'KEEP.DIR'))
    with open(os.path.join(scratch_cwd, 'KEEP.DIR', 'keep'), 'w') as f:
        f.write('x')
    os.chdir(scratch_cwd)
    try:
        import pcbasic
        if not os.path.abspath(pcbasic.__file__).startswith(os.path.abspath(REPO)):
            raise core.CheckError('pcbasic imported from %s, not %s' % (pcbasic.__file__, REPO))
        module = importlib.import_module('checks.' + args.prop.lower())
        if args.replay:
            code = core.replay(module, args.replay)
        else:
            code = core.run_check(module, args.tier, seed, only_leg=args.leg)
    except core.CheckError as e:
        print('CHECK-ERROR property=%s %s' % (args.prop, e))
        code = 2
    except Exception:
        import traceback
        print('CHECK-ERROR property=%s\n%s' % (args.prop, traceback.format_exc()))
        code = 2
    sys.stdout.flush()
    os.chdir(VERIF)
    shutil.rmtree(scratch_cwd, ignore_errors=True)
    # avoid waiting on pool teardown
    os._exit(code)


if __name__ == '__main__':
    main()
