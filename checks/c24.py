"""
C24 - sequential files return what was written.

E1 (exhaustive products of fixed item alphabets, every case executed through BASIC statements on a
scratch native mount; the host file is read back as well):
  write-input   all item sequences up to length 2 (quick) / 3 (thorough) over 8 strings + 10 numbers,
                x {one WRITE# statement, one per item} x every cut into <=3 OPEN sessions
                (OUTPUT then APPEND, incl. an empty first session) x soft_linefeed off/on,
                read back with INPUT#, EOF before every item and after the last, LOF against the
                host size while writing and reading, APPEND keeps the existing bytes.
  write-bytes   every byte 01..FF except 1A and 22 inside a string item, 3 embeddings x 3 positions.
  print-line    all line sequences up to length 2/3 over 9 lines, PRINT# / LINE INPUT#, same cuts.
  line-bytes    every byte 01..FF except 0A 0D 1A inside a line.
"""
import os
from fractions import Fraction
from itertools import product

from mc.core import Leg, Partial, CheckError, chunked
from mc import harness as H

PROPERTY = 'C24'
ENGINE = 'E1 domain'
LEVEL = 'model_checking'
LEVEL_TEXT = (
    'Every sequence of up to 3 (quick: 2) items from a fixed alphabet of boundary strings (empty, blanks, '
    'comma, LF inside, CR inside, 255 characters) and numbers of all three types is written with WRITE# '
    '(one statement or one per item), in every division into up to three OPEN sessions (OUTPUT, then '
    'APPEND), with soft-linefeed off and on, and read back with INPUT#; the same for lines with PRINT# / '
    'LINE INPUT#; plus every admissible byte value inside a string / line in 3 embeddings. Each case is '
    'executed on the real interpreter and compared with a list model: values, EOF before/after every '
    'item, LOF against the host file size, and that APPEND kept the previous bytes.')
LEVEL_NOTE = (
    'Numbers are judged against VAL of the text that WRITE# produced (as the statement words it), with an '
    'independent sanity bound (the text is within 1e-6 / 1e-15 relative of the value written). File '
    'names, widths other than the default and devices other than a native disk mount are not varied.')
TECHNIQUE = ('bounded exhaustive enumeration of item sequences x statement shapes x OPEN-session cuts x '
             'linefeed option on the real Files/TextFile/InputMixin code through BASIC statements, against '
             'a list model and the host file')
RULE = ('all sequences of length <= k over the item alphabet, times all cuts/shapes/options; a case class '
        'is (leg, item kind, number of sessions, statement shape, option); non-trivial = any '
        'case with a string containing a separator/blank/control byte, a float, or more than one session')
ASSUMPTIONS = [
    'strings are set with Session.set_variable and read with Session.get_variable (public API)',
    'numbers: the value read back must equal VAL(text written) converted to the variable type; the '
    'written text must be within 1e-6 (single) / 1e-15 (double) relative of the value written',
    'LOF is compared with the host file size measured immediately after the LOF call',
    '"APPEND adds after the existing content": the file after the APPEND session must start with the '
    'bytes before it minus one trailing end-of-file byte 1A',
    'lines for PRINT#/LINE INPUT# contain no CR, LF, NUL or 1A (a line is what lies between line ends)',
    'known finding proposed: with soft-linefeed off (the default, documented) LF inside a string is '
    'converted to CR and CR LF to CR on reading',
    'known finding proposed: a line of exactly 255 characters is followed by an extra empty line on '
    'LINE INPUT#, as recorded for GW-BASIC in tests/basic/unsorted/LongLineInputCR',
]

FNAME = 'T.DAT'

STRINGS = [b'', b'a', b' a ', b'a,b', b'x\ny', b'p\rq', b'z' * 255, b'A  B']
# (type sigil, literal, exact value as Fraction or None if not exactly the literal)
NUMBERS = [
    (b'%', b'0'), (b'%', b'-1'), (b'%', b'32767'), (b'%', b'-32768'),
    (b'!', b'1.5'), (b'!', b'1E+10'), (b'!', b'1.234567E-20'), (b'!', b'-.1'),
    (b'#', b'1D+30'), (b'#', b'1.23456789012345D-5'),
]
ITEMS = [('s', s) for s in STRINGS] + [('n', t, lit) for t, lit in NUMBERS]
# column sweep: records whose items end at, just before and just after every multiple of 256
# characters on the line (the column counter of a text file is a byte that wraps)
COL_LENGTHS = list(range(244, 256))
COL_NUMBERS = [b'7', b'42', b'123', b'-1234']
ALL_ITEMS = ITEMS + [('s', b'c' * n) for n in COL_LENGTHS] + [('n', b'%', lit) for lit in COL_NUMBERS] + [('s', b'tail')]
TAIL_INDEX = len(ALL_ITEMS) - 1
# numbers at and next to whole values (a fraction far below single precision, an ordinary one, one half), in each type
def _near_whole():
    out = []
    for w in (1, -3, 100, 123456, 500000, 8388608, 9000000, 9999999, 10000000):
        for frac in (b'', b'.00000001', b'.001', b'.25', b'.5', b'.99999999'):
            lit = b'%d%s' % (w, frac)
            if len(lit.replace(b'-', b'').replace(b'.', b'')) > 16:
                continue
            out.append(('n', b'#', lit + b'#'))
        if abs(w) < 32768:
            out.append(('n', b'%', b'%d' % w))
        out.append(('n', b'!', b'%d' % w))
        if abs(w) < 4000000:
            out.append(('n', b'!', b'%d.5' % w))
    return out


NEAR_WHOLE = _near_whole()
ALL_ITEMS = ALL_ITEMS + NEAR_WHOLE
LINES = [b'', b'a', b'a,b', b' lead', b'trail ', b'q"q', b'"quoted"', b'x' * 254, b'x' * 255]


def _compositions(k, maxparts=3):
    """All ways to cut k items into 1..maxparts consecutive non-empty sessions, plus an empty first one."""
    out = []

    def rec(rest, parts):
        if rest == 0:
            out.append(tuple(parts))
            return
        if len(parts) == maxparts:
            return
        for n in range(1, rest + 1):
            rec(rest - n, parts + [n])
    if k == 0:
        return [(0,), (0, 0)]
    rec(k, [])
    out.append((0, k))
    return out


class Worker(object):
    def __init__(self, sl):
        self.scratch = H.Scratch()
        self.path = self.scratch.path
        self.s = H.new_session(devices={'C:': self.path}, current_device='C:', soft_linefeed=sl)
        self.sl = sl
        self.hostfile = os.path.join(self.path, FNAME)
        self.valcache = {}

    def done(self):
        try:
            self.s.close()
        except Exception:
            pass
        self.scratch.__exit__()

    def run(self, stmt):
        return H.run(self.s, stmt)

    def must(self, stmt):
        r = self.run(stmt)
        if r.exc is not None or r.err is not None:
            raise CheckError('harness statement %r failed: %r' % (stmt, r))

    def reset(self):
        self.must(b'CLOSE:CLEAR')
        if os.path.exists(self.hostfile):
            os.remove(self.hostfile)

    def host(self):
        with open(self.hostfile, 'rb') as f:
            return f.read()

    def val_of(self, text, sigil):
        """VAL(text) converted to the type: the 'value of the written representation'."""
        k = (text, sigil)
        if k not in self.valcache:
            self.s.set_variable('T9$', text)
            self.must(b'E9%s=VAL(T9$)' % sigil)
            self.valcache[k] = self.s.get_variable('E9' + sigil.decode())
        return self.valcache[k]


def _frac(text):
    t = text.decode().strip().replace('D', 'E').replace('d', 'e')
    return Fraction(t)


def _kind(item):
    if item[0] == 'n':
        return item[1].decode()
    s = item[1]
    if s == b'':
        return 'empty'
    if len(s) == 255:
        return 's255'
    if b'\n' in s:
        return 'sLF'
    if b'\r' in s:
        return 'sCR'
    if b',' in s:
        return 'scomma'
    if b' ' in s:
        return 'sblank'
    return 's'


def _viol(part, w, key, what, case):
    part.violation(key, what + ' [soft_linefeed=%s]' % w.sl, case)


def _lf_class(item, sl):
    """Known, documented: without soft-linefeed LF inside strings is a line break."""
    return (not sl) and item[0] == 's' and b'\n' in item[1]


def run_write_input(part, w, items, shape, cuts, case, tag=None):
    """One case of the write-input leg."""
    s = w.s
    w.reset()
    k = len(items)
    # assign the values to write
    names = []
    for i, it in enumerate(items):
        if it[0] == 's':
            s.set_variable('W%d$' % i, it[1])
            names.append(b'W%d$' % i)
        else:
            w.must(b'W%d%s=%s' % (i, it[1], it[2]))
            names.append(b'W%d%s' % (i, it[1]))
    pos = 0
    prev_host = None
    for si, n in enumerate(cuts):
        mode = b'OUTPUT' if si == 0 else b'APPEND'
        r = w.run(b'OPEN "%s" FOR %s AS 1' % (FNAME.encode(), mode))
        if r.exc is not None or r.err is not None:
            _viol(part, w, 'open/%s-failed' % mode.decode().lower(), 'OPEN FOR %s: %r' % (mode, r), case)
            return
        group = names[pos:pos + n]
        if group:
            stmts = [b'WRITE#1,' + b','.join(group)] if shape == 'one' else [b'WRITE#1,' + g for g in group]
            for st in stmts:
                r = w.run(st)
                if r.exc is not None:
                    _viol(part, w, 'write/host-exception/' + H.exc_key(r.exc), '%r: %r' % (st, r.exc), case)
                    return
                if r.err is not None:
                    _viol(part, w, 'write/error-%s' % r.err, '%r failed with %s' % (st, r.err), case)
                    return
        pos += n
        # LOF while writing
        w.must(b'L9#=LOF(1)')
        lof = s.get_variable('L9#')
        size = os.path.getsize(w.hostfile)
        if lof != size:
            _viol(part, w, 'lof/while-writing-%s' % mode.decode().lower(),
                  'LOF(1)=%r but the file has %d bytes' % (lof, size), case)
        w.must(b'CLOSE 1')
        host = w.host()
        if prev_host is not None:
            base = prev_host[:-1] if prev_host.endswith(b'\x1a') else prev_host
            if not host.startswith(base) or (n and len(host) <= len(base)):
                _viol(part, w, 'append/existing-content-not-kept',
                      'before APPEND %r, after %r' % (prev_host[-40:], host[:80]), case)
        prev_host = host
    host = prev_host
    # read back
    r = w.run(b'OPEN "%s" FOR INPUT AS 1' % FNAME.encode())
    if r.exc is not None or r.err is not None:
        _viol(part, w, 'open/input-failed', 'OPEN FOR INPUT: %r' % (r,), case)
        return
    w.must(b'L9#=LOF(1)')
    lof = s.get_variable('L9#')
    if lof != len(host):
        _viol(part, w, 'lof/while-reading', 'LOF(1)=%r but the file has %d bytes' % (lof, len(host)), case)
    tainted = False     # after a known LF conversion the rest of the read-back is not judged
    after255 = False    # a 255-character string has been read: INPUT# stops after 255 characters and
    #                     leaves the closing quote in the stream (GW-BASIC manual); keyed separately
    for i, it in enumerate(items):
        if after255:
            # everything behind a 255-character string is one class
            _input_after_255(part, w, items, i, host, case)
            return
        w.must(b'E9%=EOF(1)')
        if s.get_variable('E9%') != 0 and not tainted:
            _viol(part, w, 'eof/true-before-item', 'EOF(1) true before item %d of %d; file %r' % (
                i + 1, k, host[:80]), case)
            return
        # LOF in the middle of reading (after EOF has looked ahead) reports the size and disturbs nothing
        w.must(b'L9#=LOF(1)')
        if s.get_variable('L9#') != len(host) and not tainted:
            _viol(part, w, 'lof/while-reading', 'LOF(1)=%r before item %d but the file has %d bytes' % (
                s.get_variable('L9#'), i + 1, len(host)), case)
        rn = b'R%d%s' % (i, b'$' if it[0] == 's' else it[1])
        if case.get('deftype'):
            # the same read into a variable that has its type from a DEFtype default, written without sigil
            w.must(b'DEFSTR S:DEFINT I:DEFSNG F:DEFDBL D')
            sig = b'$' if it[0] == 's' else it[1]
            bare = {b'$': b'S', b'%': b'I', b'!': b'F', b'#': b'D'}[sig] + b'R%d' % i
            rn = bare + sig
            r = w.run(b'INPUT#1,' + bare)
        else:
            r = w.run(b'INPUT#1,' + rn)
        if r.exc is not None:
            _viol(part, w, 'input/host-exception/' + H.exc_key(r.exc), 'INPUT#1: %r' % (r.exc,), case)
            return
        if r.err is not None:
            if tainted:
                return
            _viol(part, w, 'input/error-%s/%s' % (r.err, tag or _kind(it)),
                  'INPUT#1,%s failed with %s; file %r' % (rn.decode(), r.err, host[:80]), case)
            return
        got = s.get_variable(rn.decode())
        if it[0] == 's':
            if bytes(got) != it[1] and not tainted:
                if _lf_class(it, w.sl):
                    key = 'input/string-with-LF/soft-linefeed-off'
                    tainted = True
                else:
                    key = 'input/string-differs/%s' % (tag or _kind(it))
                _viol(part, w, key, 'wrote %r, INPUT# returned %r' % (it[1][:40], bytes(got)[:40]), case)
                if not tainted:
                    return
            if len(it[1]) == 255:
                after255 = True
        elif not tainted:
            text = w.numtext(it)
            exp = w.val_of(text, it[1])
            if got != exp:
                _viol(part, w, 'input/number-differs/%s' % it[1].decode(),
                      'wrote %s (text %r), INPUT# returned %r, VAL of the text is %r' % (
                          it[2].decode(), text, got, exp), case)
                return
    w.must(b'E9%=EOF(1)')
    if after255:
        if s.get_variable('E9%') != -1:
            _viol(part, w, 'eof/false-after-last-item/255-char-string-last',
                  'EOF(1)=0 after reading all %d items, the last one a 255-character string: INPUT# stopped '
                  'after 255 characters and left the closing quote unread' % k, case)
    elif s.get_variable('E9%') != -1 and not tainted:
        _viol(part, w, 'eof/false-after-last-item', 'EOF(1)=%r after reading all %d items; file %r' % (
            s.get_variable('E9%'), k, host[-40:]), case)
    w.must(b'CLOSE 1')


def _input_after_255(part, w, items, i, host, case):
    """Read item i which follows a 255-character string; any deviation is one class."""
    s = w.s
    it = items[i]
    rn = b'R%d%s' % (i, b'$' if it[0] == 's' else it[1])
    r = w.run(b'INPUT#1,' + rn)
    if r.exc is not None:
        _viol(part, w, 'input/host-exception/' + H.exc_key(r.exc), 'INPUT#1: %r' % (r.exc,), case)
        return
    ok = r.err is None
    if ok:
        got = s.get_variable(rn.decode())
        ok = (bytes(got) == it[1]) if it[0] == 's' else (got == w.val_of(w.numtext(it), it[1]))
    if not ok and r.err is None and _lf_class(it, w.sl) and \
            bytes(got) == it[1].replace(b'\r\n', b'\r').replace(b'\n', b'\r'):
        _viol(part, w, 'input/string-with-LF/soft-linefeed-off',
              'wrote %r, INPUT# returned %r' % (it[1][:40], bytes(got)[:40]), case)
    elif not ok:
        _viol(part, w, 'input/item-after-255-char-string',
              'the item written after a 255-character string is not read back (INPUT# stops after 255 '
              'characters and leaves the closing quote in the stream): wrote %r, err %r' % (it[-1][:20], r.err),
              case)
    w.run(b'CLOSE 1')


def _numtext(w, it):
    """Text that WRITE# produces for this number (rendered once per worker, alone in a file)."""
    k = ('numtext', it[1], it[2])
    if k not in w.valcache:
        w.reset()
        w.must(b'W0%s=%s' % (it[1], it[2]))
        w.must(b'OPEN "%s" FOR OUTPUT AS 1' % FNAME.encode())
        w.must(b'WRITE#1,W0%s' % it[1])
        w.must(b'CLOSE 1')
        host = w.host()
        if not host.endswith(b'\r\n\x1a'):
            raise CheckError('unexpected single-number file %r' % host)
        text = host[:-3]
        val = w.s.get_variable('W0' + it[1].decode())
        # sanity: the representation denotes (nearly) the value that was written
        f = _frac(text)
        tol = {b'%': Fraction(0), b'!': Fraction(1, 10 ** 6), b'#': Fraction(1, 10 ** 15)}[it[1]]
        if abs(f - Fraction(val)) > tol * abs(Fraction(val)):
            w.valcache[k] = (text, 'WRITE# of %s produced %r which is not the value %r' % (it[2], text, val))
        else:
            w.valcache[k] = (text, None)
        w.reset()
    return w.valcache[k]


Worker.numtext = lambda self, it: _numtext(self, it)[0]


def work_write_input(shard):
    part = Partial()
    sl, cases = shard[:2]
    deftype = len(shard) > 2 and shard[2] == 'deftype'
    w = Worker(sl)
    try:
        # render all number texts first (also the sanity check of the representation)
        used = set(i for idxs, _s, _c in cases for i in idxs)
        for ii, it in enumerate(ALL_ITEMS):
            if it[0] == 'n' and (ii <= TAIL_INDEX or ii in used):
                text, bad = _numtext(w, it)
                if bad:
                    part.violation('write/number-representation/%s' % it[1].decode(), bad,
                                   {'items': [ALL_ITEMS.index(it)], 'shape': 'one', 'cuts': [1], 'sl': sl})
        for idxs, shape, cuts in cases:
            items = [ALL_ITEMS[i] for i in idxs]
            case = {'items': list(idxs), 'shape': shape, 'cuts': list(cuts), 'sl': sl}
            if deftype:
                case['deftype'] = True
            run_write_input(part, w, items, shape, cuts, case)
            part.n += 1
            part.traces += 1
            for kd in (set(_kind(i) for i in items) or {'none'}):
                part.classes.add('%s|%s|%d|%s' % (kd, shape, len(cuts), 'sl' if sl else 'nl'))
        part.sample({'items': [repr(ALL_ITEMS[i][-1][:12]) for i in cases[0][0]], 'shape': cases[0][1],
                     'cuts': list(cases[0][2]), 'sl': sl})
    finally:
        w.done()
    return part


EMBED = [lambda c: c, lambda c: b'a' + c + b'b', lambda c: c + c]
POSITIONS = ['alone', 'first', 'second']


def work_write_bytes(shard):
    part = Partial()
    sl, byts = shard
    w = Worker(sl)
    try:
        for b in byts:
            c = bytes(bytearray([b]))
            for ei, emb in enumerate(EMBED):
                for pos in POSITIONS:
                    item = ('s', emb(c))
                    other = ('s', b'k')
                    items = {'alone': [item], 'first': [item, other], 'second': [other, item]}[pos]
                    case = {'byte': b, 'embed': ei, 'pos': pos, 'sl': sl}
                    run_write_input(part, w, items, 'one', (len(items),), case, tag='byte-%02X' % b)
                    part.n += 1
                    part.traces += 1
            cls = 'ctrl' if b < 32 else ('space' if b == 32 else ('comma' if b == 44 else
                                                                 ('high' if b >= 128 else 'print')))
            part.classes.add('%s|%s' % (cls, 'sl' if sl else 'nl'))
            if b in (10, 13, 9, 44, 32, 255, 1):
                part.classes.add('byte%02X|%s' % (b, 'sl' if sl else 'nl'))
        part.sample({'bytes': list(byts[:3]), 'sl': sl})
    finally:
        w.done()
    return part


def run_print_line(part, w, lines, cuts, case):
    s = w.s
    w.reset()
    k = len(lines)
    for i, ln in enumerate(lines):
        s.set_variable('W%d$' % i, ln)
    pos = 0
    prev_host = None
    for si, n in enumerate(cuts):
        mode = b'OUTPUT' if si == 0 else b'APPEND'
        r = w.run(b'OPEN "%s" FOR %s AS 1' % (FNAME.encode(), mode))
        if r.exc is not None or r.err is not None:
            _viol(part, w, 'open/%s-failed' % mode.decode().lower(), 'OPEN FOR %s: %r' % (mode, r), case)
            return
        for i in range(pos, pos + n):
            st = b'PRINT#1,W%d$' % i
            r = w.run(st)
            if r.exc is not None:
                _viol(part, w, 'print/host-exception/' + H.exc_key(r.exc), '%r: %r' % (st, r.exc), case)
                return
            if r.err is not None:
                _viol(part, w, 'print/error-%s' % r.err, '%r failed with %s' % (st, r.err), case)
                return
        pos += n
        w.must(b'L9#=LOF(1)')
        lof = s.get_variable('L9#')
        size = os.path.getsize(w.hostfile)
        if lof != size:
            _viol(part, w, 'lof/while-writing-%s' % mode.decode().lower(),
                  'LOF(1)=%r but the file has %d bytes' % (lof, size), case)
        w.must(b'CLOSE 1')
        host = w.host()
        if prev_host is not None:
            base = prev_host[:-1] if prev_host.endswith(b'\x1a') else prev_host
            if not host.startswith(base) or (n and len(host) <= len(base)):
                _viol(part, w, 'append/existing-content-not-kept',
                      'before APPEND %r, after %r' % (prev_host[-40:], host[:80]), case)
        prev_host = host
    host = prev_host
    r = w.run(b'OPEN "%s" FOR INPUT AS 1' % FNAME.encode())
    if r.exc is not None or r.err is not None:
        _viol(part, w, 'open/input-failed', 'OPEN FOR INPUT: %r' % (r,), case)
        return
    w.must(b'L9#=LOF(1)')
    if s.get_variable('L9#') != len(host):
        _viol(part, w, 'lof/while-reading', 'LOF(1)=%r but the file has %d bytes' % (
            s.get_variable('L9#'), len(host)), case)
    # read back until EOF (at most k+3 lines)
    got = []
    for i in range(k + 3):
        w.must(b'E9%=EOF(1)')
        if s.get_variable('E9%') != 0:
            break
        r = w.run(b'LINE INPUT#1,R0$')
        if r.exc is not None:
            _viol(part, w, 'lineinput/host-exception/' + H.exc_key(r.exc), repr(r.exc), case)
            return
        if r.err is not None:
            _viol(part, w, 'lineinput/error-%s' % r.err, 'LINE INPUT#1 failed with %s; file %r' % (
                r.err, host[:60]), case)
            return
        got.append(bytes(s.get_variable('R0$')))
    w.must(b'CLOSE 1')
    if got != list(lines):
        # classify
        exp255 = []
        for ln in lines:
            exp255.append(ln)
            if len(ln) == 255:
                exp255.append(b'')
        if got == exp255:
            key = 'lineinput/extra-empty-line-after-255-char-line'
        elif got[:len(lines)] == list(lines):
            key = 'eof/false-after-last-line'
        elif len(got) < len(lines) and got == list(lines)[:len(got)]:
            key = 'eof/true-before-last-line'
        else:
            key = 'lineinput/line-differs'
        _viol(part, w, key, 'wrote lines %r, read %r' % ([l[:20] for l in lines], [g[:20] for g in got]), case)


# records written with WRITE# and lines written with PRINT# in one file, read back with INPUT# and LINE INPUT#

MIX_UNITS = [
    ('W', [('n', b'12'), ('s', b'title')]),
    ('W', [('s', b'a b ')]),
    ('W', [('n', b'-3')]),
    ('W', [('s', b''), ('n', b'7')]),
    ('P', b'   indented'),
    ('P', b'plain'),
    ('P', b' x '),
    ('P', b''),
    ('P', b'  '),
]


# WIDTH #n settings under which WRITE#-only sequences are run as well: a record is a unit whatever the width
MIX_WIDTHS = [5, 9, 14]


def run_mixed(part, w, units, case):
    s = w.s
    w.reset()
    r = w.run(b'OPEN "%s" FOR OUTPUT AS 1' % FNAME.encode())
    if r.exc is not None or r.err is not None:
        _viol(part, w, 'open/output-failed', repr(r), case)
        return
    if case.get('width'):
        w.must(b'WIDTH #1,%d' % case['width'])
    for ui, (kind, body) in enumerate(units):
        if kind == 'W':
            args = []
            for ii, (t, v) in enumerate(body):
                if t == 's':
                    s.set_variable('W%d%d$' % (ui, ii), v)
                    args.append(b'W%d%d$' % (ui, ii))
                else:
                    args.append(v)
            st = b'WRITE#1,' + b','.join(args)
        else:
            s.set_variable('W%d0$' % ui, body)
            st = b'PRINT#1,W%d0$' % ui
        r = w.run(st)
        if r.exc is not None or r.err is not None:
            _viol(part, w, 'mixed/write-failed', '%r: %r' % (st, r), case)
            return
    w.must(b'CLOSE 1')
    host = w.host()
    w.must(b'OPEN "%s" FOR INPUT AS 1' % FNAME.encode())
    for ui, (kind, body) in enumerate(units):
        w.must(b'E9%=EOF(1)')
        if s.get_variable('E9%') != 0:
            _viol(part, w, 'mixed/eof-true-before-unit', 'EOF before unit %d of %r; file %r' % (ui, units, host), case)
            return
        if kind == 'W':
            names = [(b'R%d$' % ii if t == 's' else b'R%d%%' % ii) for ii, (t, v) in enumerate(body)]
            st = b'INPUT#1,' + b','.join(names)
        else:
            names = [b'R0$']
            st = b'LINE INPUT#1,R0$'
        r = w.run(st)
        if r.exc is not None:
            _viol(part, w, 'mixed/host-exception/' + H.exc_key(r.exc), '%r: %r' % (st, r.exc), case)
            return
        if r.err is not None:
            _viol(part, w, 'mixed/read-error-%s' % r.err, '%r failed; file %r' % (st, host), case)
            return
        if kind == 'W':
            got = [bytes(s.get_variable(nm.decode())) if nm.endswith(b'$') else s.get_variable(nm.decode()) for nm in names]
            exp = [v if t == 's' else int(v) for t, v in body]
        else:
            got = [bytes(s.get_variable('R0$'))]
            exp = [body]
        if got != exp:
            prevk = units[ui - 1][0] if ui else '-'
            _viol(part, w, 'mixed/%s-after-%s/differs' % ({'W': 'input', 'P': 'line-input'}[kind], {'W': 'input', 'P': 'line-input', '-': 'open'}[prevk]),
                  'unit %d of %r read back as %r; file %r' % (ui, units, got, host), case)
            return
    w.must(b'E9%=EOF(1)')
    if s.get_variable('E9%') == 0:
        _viol(part, w, 'mixed/eof-false-after-last-unit', 'units %r; file %r' % (units, host), case)
    w.must(b'CLOSE 1')


def work_mixed(shard):
    part = Partial()
    sl, cases = shard
    w = Worker(sl)
    try:
        for idxs in cases:
            units = [MIX_UNITS[i] for i in idxs]
            case = {'units': list(idxs), 'sl': sl}
            run_mixed(part, w, units, case)
            part.n += 1
            part.traces += 1
            part.classes.add('mixed|%s|%s' % (''.join(u[0] for u in units), 'sl' if sl else 'nl'))
            if all(u[0] == 'W' for u in units):
                for width in MIX_WIDTHS:
                    case = {'units': list(idxs), 'sl': sl, 'width': width}
                    run_mixed(part, w, units, case)
                    part.n += 1
                    part.traces += 1
                    part.classes.add('mixed|%s|%s|width%d' % (''.join(u[0] for u in units), 'sl' if sl else 'nl', width))
        part.sample({'units': list(cases[0]), 'sl': sl})
    finally:
        w.done()
    return part


def work_print_line(shard):
    part = Partial()
    sl, cases = shard
    w = Worker(sl)
    try:
        for idxs, cuts in cases:
            lines = [LINES[i] for i in idxs]
            case = {'lines': list(idxs), 'cuts': list(cuts), 'sl': sl}
            run_print_line(part, w, lines, cuts, case)
            part.n += 1
            part.traces += 1
            for kd in (set('e' if not l else ('255' if len(l) == 255 else ('254' if len(l) == 254 else
                                                                           ('q' if b'"' in l else 'p')))
                           for l in lines) or {'none'}):
                part.classes.add('L|%s|%d|%s' % (kd, len(cuts), 'sl' if sl else 'nl'))
        part.sample({'lines': list(cases[0][0]), 'cuts': list(cases[0][1]), 'sl': sl})
    finally:
        w.done()
    return part


def work_line_bytes(shard):
    part = Partial()
    sl, byts = shard
    w = Worker(sl)
    try:
        for b in byts:
            c = bytes(bytearray([b]))
            for ei, emb in enumerate(EMBED):
                for pos in POSITIONS:
                    ln = emb(c)
                    lines = {'alone': [ln], 'first': [ln, b'k'], 'second': [b'k', ln]}[pos]
                    case = {'byte': b, 'embed': ei, 'pos': pos, 'sl': sl}
                    run_print_line(part, w, lines, (len(lines),), case)
                    part.n += 1
                    part.traces += 1
            cls = 'ctrl' if b < 32 else ('space' if b == 32 else ('high' if b >= 128 else 'print'))
            part.classes.add('LB|%s|%s' % (cls, 'sl' if sl else 'nl'))
        part.sample({'bytes': list(byts[:3]), 'sl': sl})
    finally:
        w.done()
    return part


# ---------------------------------------------------------------------------
# WRITE# of computed strings: every item is a temporary that is gone when the next one is computed

WX_SETUP = b'N$="abcdef":M$="uvwxyz":A%=7'
WX_ITEMS = [(b'CHR$(65)', b'A'), (b'CHR$(66)', b'B'), (b'MID$(N$,2,3)', b'bcd'), (b'MID$(M$,2,3)', b'vwx'), (b'N$', b'abcdef'),
            (b'LEFT$(N$,2)', b'ab'), (b'RIGHT$(M$,2)', b'yz'), (b'HEX$(255)', b'FF'), (b'HEX$(171)', b'AB'),
            (b'N$+M$', b'abcdefuvwxyz'), (b'M$+N$', b'uvwxyzabcdef'), (b'"AB"', b'AB'), (b'"CD"', b'CD'),
            (b'STRING$(3,"p")', b'ppp'), (b'SPACE$(3)', b'   '), (b'LEFT$(N$,0)', b'')]


def work_write_exprs(shard):
    part = Partial()
    sl, tuples = shard
    w = Worker(sl)
    try:
        for idxs in tuples:
            items = [WX_ITEMS[i] for i in idxs]
            for mode in ('direct', 'program'):
                case = {'exprs': list(idxs), 'mode': mode, 'sl': sl}
                w.reset()
                stmt = b'WRITE#1,' + b','.join(e for e, _v in items)
                if mode == 'program':
                    # (storing a line clears the variables: the line goes in first)
                    w.must(b'10 ' + stmt + b':END')
                w.must(WX_SETUP)
                w.must(b'OPEN "%s" FOR OUTPUT AS 1' % FNAME.encode())
                r = w.run(stmt if mode == 'direct' else b'GOTO 10')
                part.n += 1
                part.traces += 1
                if r.exc is not None or r.err is not None:
                    _viol(part, w, 'write-exprs/error', '%r: %r' % (stmt, r), case)
                    continue
                w.must(b'CLOSE 1')
                host = w.host()
                want = b','.join(b'"' + v + b'"' for _e, v in items) + b'\r\n\x1a'
                if host != want:
                    _viol(part, w, 'write-exprs/wrong-text/%s' % mode, '%r wrote %r, expected %r' % (stmt, host, want), case)
                if mode == 'program':
                    w.must(b'NEW')
                part.classes.add('write-exprs/%s/%s' % (mode, 'same-length' if len(set(len(v) for _e, v in items)) < len(items) else 'different-lengths'))
    finally:
        w.done()
    part.sample({'exprs': list(shard[1][0])})
    return part


def _seqs(n, maxlen):
    for k in range(maxlen + 1):
        for idxs in product(range(n), repeat=k):
            yield idxs


def legs(ctx):
    maxlen = 2 if ctx.quick else 3
    out = []
    cases = []
    for idxs in _seqs(len(ITEMS), maxlen):
        for cuts in _compositions(len(idxs)):
            shapes = ('one', 'each') if any(c > 1 for c in cuts) else ('one',)
            for shape in shapes:
                cases.append((idxs, shape, cuts))
    shards = [(sl, ch) for sl in (False, True) for ch in chunked(cases, 150 if ctx.quick else 400)]
    out.append(Leg('write-input', shards, work_write_input, exhaustive=True,
                   bound='all %d cases: item sequences of length <=%d over %d items (8 strings, 10 numbers) x '
                         'statement shape x all cuts into <=3 OPEN sessions, x soft_linefeed off/on' % (
                             len(cases) * 2, maxlen, len(ITEMS))))
    base = len(ITEMS)
    longs = list(range(base, base + len(COL_LENGTHS)))
    nums = list(range(base + len(COL_LENGTHS), base + len(COL_LENGTHS) + len(COL_NUMBERS)))
    tail = TAIL_INDEX
    ccases = []
    for a in longs:
        for n in nums:
            ccases.append(((a, n, tail), 'one', (3,)))
            ccases.append(((n, a, tail), 'one', (3,)))
            ccases.append(((n, a, n, a, tail), 'one', (5,)))
        for b in (longs if not ctx.quick else longs[-4:]):
            ccases.append(((a, b, tail), 'one', (3,)))
            ccases.append(((a, b, nums[2], tail), 'one', (2, 2)))
    out.append(Leg('write-column', [(sl, ch) for sl in (False, True) for ch in chunked(ccases, 40)], work_write_input,
                   exhaustive=True,
                   bound='all %d records: strings of %d..%d characters x 4 numbers of 1-5 characters in 3 orders, and '
                         'pairs of such strings, written by one WRITE# (items ending at every offset around each multiple '
                         'of 256 characters on the line), x soft_linefeed off/on' % (
                             len(ccases) * 2, COL_LENGTHS[0], COL_LENGTHS[-1])))
    xt = [t for k in (2, 3) for t in product(range(len(WX_ITEMS)), repeat=k)] if not ctx.quick else \
        [t for t in product(range(len(WX_ITEMS)), repeat=2)] + [(a, 4, b) for a in range(len(WX_ITEMS)) for b in range(len(WX_ITEMS))]
    out.append(Leg('write-exprs', [(False, ch) for ch in chunked(xt, 64)], work_write_exprs, exhaustive=True,
                   bound='all %d records of 2%s computed string items over %d expressions (CHR$, MID$, LEFT$, RIGHT$, HEX$, concatenations, '
                         'literals, STRING$, SPACE$, an empty one; many of equal length), written by one WRITE# typed directly and from a '
                         'program line: the text in the file' % (len(xt), '..3' if not ctx.quick else ' (and 3 with a variable in the middle)', len(WX_ITEMS))))
    dcases = [(idxs, 'one', (len(idxs),)) for idxs in _seqs(len(ITEMS), 2) if idxs]
    out.append(Leg('input-deftype', [(False, ch, 'deftype') for ch in chunked(dcases, 60)], work_write_input, exhaustive=True,
                   bound='all %d records of 1..2 items over the %d items, read back with INPUT# into variables written without '
                         'type sigil under DEFSTR / DEFINT / DEFSNG / DEFDBL defaults' % (len(dcases), len(ITEMS))))
    ncases = [((TAIL_INDEX + 1 + i,), 'one', (1,)) for i in range(len(NEAR_WHOLE))]
    ncases += [((TAIL_INDEX + 1 + i, TAIL_INDEX), 'one', (2,)) for i in range(len(NEAR_WHOLE))]
    out.append(Leg('write-numbers', [(sl, ch) for sl in (False, True) for ch in chunked(ncases, 20)], work_write_input,
                   exhaustive=True,
                   bound='all %d numbers at and next to 9 whole values (fractions 1E-8, .001, .25, .5, 1-1E-8 as doubles; the whole value '
                         'in every type that holds it; w+.5 as a single), alone and followed by a string, x soft_linefeed off/on: '
                         'the text written denotes the value (relative error <= 1E-15 for doubles) and INPUT# reads it back' % len(NEAR_WHOLE)))
    byts = [b for b in range(1, 256) if b not in (0x1a, 0x22)]
    out.append(Leg('write-bytes', [(sl, ch) for sl in (False, True) for ch in chunked(byts, 8)],
                   work_write_bytes, exhaustive=True,
                   bound='every byte 01..FF except 1A,22 x 3 embeddings x 3 positions x soft_linefeed off/on'))
    lcases = []
    for idxs in _seqs(len(LINES), maxlen):
        for cuts in _compositions(len(idxs)):
            lcases.append((idxs, cuts))
    out.append(Leg('print-line', [(sl, ch) for sl in (False, True) for ch in chunked(lcases, 150)],
                   work_print_line, exhaustive=True,
                   bound='all %d cases: line sequences of length <=%d over %d lines x all cuts into <=3 OPEN '
                         'sessions x soft_linefeed off/on' % (len(lcases) * 2, maxlen, len(LINES))))
    mcases = [idxs for k in range(1, maxlen + 2) for idxs in product(range(len(MIX_UNITS)), repeat=k)]
    out.append(Leg('mixed', [(sl, ch) for sl in (False, True) for ch in chunked(mcases, 100)], work_mixed, exhaustive=True,
                   bound='all %d sequences of 1..%d units over %d (4 WRITE# records, 5 PRINT# lines incl. leading / trailing blanks and '
                         'empty) in one file, read back with INPUT# / LINE INPUT# in the same order, x soft_linefeed off/on; the WRITE#-only sequences also '
                         'under WIDTH #1,5 / 9 / 14' % (
                             len(mcases) * 2, maxlen + 1, len(MIX_UNITS))))
    lbyts = [b for b in range(1, 256) if b not in (0x0a, 0x0d, 0x1a)]
    out.append(Leg('line-bytes', [(sl, ch) for sl in (False, True) for ch in chunked(lbyts, 8)],
                   work_line_bytes, exhaustive=True,
                   bound='every byte 01..FF except 0A,0D,1A x 3 embeddings x 3 positions x soft_linefeed off/on'))
    return out


def replay(ctx, leg, case):
    part = Partial()
    sl = bool(case['sl'])
    w = Worker(sl)
    try:
        if 'exprs' in case:
            part = work_write_exprs((sl, [tuple(case['exprs'])]))
            part.viol = [v for v in part.viol if v[2].get('mode') == case.get('mode')]
            return part
        if 'units' in case:
            run_mixed(part, w, [MIX_UNITS[i] for i in case['units']], case)
            return part
        if leg in ('write-input', 'write-column', 'write-numbers', 'input-deftype'):
            items = [ALL_ITEMS[i] for i in case['items']]
            for it in items:
                if it[0] == 'n':
                    text, bad = _numtext(w, it)
                    if bad:
                        part.violation('write/number-representation/%s' % it[1].decode(), bad, case)
            run_write_input(part, w, items, case['shape'], tuple(case['cuts']), case)
        elif leg in ('write-bytes', 'line-bytes'):
            c = bytes(bytearray([case['byte']]))
            v = EMBED[case['embed']](c)
            if leg == 'write-bytes':
                item, other = ('s', v), ('s', b'k')
                items = {'alone': [item], 'first': [item, other], 'second': [other, item]}[case['pos']]
                run_write_input(part, w, items, 'one', (len(items),), case, tag='byte-%02X' % case['byte'])
            else:
                lines = {'alone': [v], 'first': [v, b'k'], 'second': [b'k', v]}[case['pos']]
                run_print_line(part, w, lines, (len(lines),), case)
        elif leg == 'print-line':
            run_print_line(part, w, [LINES[i] for i in case['lines']], tuple(case['cuts']), case)
    finally:
        w.done()
    part.n = 1
    return part
