"""
C07 - decimal conversion is accurate in both directions.

E1 (domain enumeration on the real conversion functions, integer-arithmetic oracle):
  print-int   : all 65536 Integers, and the same values as Single and Double, in all three flavours
  print-sng   : Single.to_str over (mantissa patterns M24) x (all 255 exponent bytes) x sign x flavours
  print-dbl   : Double.to_str over M56 x 255 x sign x flavours
  print-near  : every float within +-R ulp of k*10^j (k = 1..9 and 9..9 boundary numbers, all j in range),
                single and double: the places where the digit count / notation switches
  print-ints  : (thorough) every integer 0..9,999,999 as Single (the whole "exact" range of 7 digits),
                integers around 10^k and 2^k as Double
  print-sweep : (thorough) every one of the 2^23 mantissas of selected Single binades
  parse       : Values.from_repr (VAL flavour and INPUT/READ flavour) over
                digit strings x decimal point positions x exponents -45..+40 x {E,D,none} x sign x sigil,
                with leading zeros, trailing zeros, embedded blanks
  literal     : the same kind of text as a program literal through the tokeniser (token type and bytes)
  stmt        : PRINT / STR$ / WRITE / LIST / VAL / READ / INPUT through Session.execute (binding of the seams)
Oracle: models/decimal_ref.py, exact integer arithmetic.
"""
import re
import struct

from mc.core import Leg, Partial, CheckError, chunked
from mc import num
from mc import nosleep
from models import decimal_ref as D
from pcbasic.basic.values import numbers as N
from pcbasic.basic.values import values as V
from pcbasic.basic.base import error

nosleep.install()

PROPERTY = 'C07'
ENGINE = 'E1 domain'
LEVEL = 'model_checking'
LEVEL_TEXT = (
    'Number-to-text: every 16-bit integer in all three types, boundary mantissa patterns x all 255 exponents x '
    'sign for singles and doubles, every float within a few ulp of k*10^j for all decades, and (thorough) every '
    'integer of up to 7 digits as a single plus complete mantissa sweeps of selected single binades are printed '
    'by the real to_str in the PRINT/STR$, WRITE and LIST flavours and compared exactly. Text-to-number: the '
    'full product of digit strings (all 1..3-digit strings and 7/8/16/17/20-digit boundary strings), decimal '
    'point positions, exponents -45..+40 with E/D/none, signs, sigils, leading/trailing zeros and embedded '
    'blanks is read by the real from_repr and by the tokeniser and compared exactly.')
LEVEL_NOTE = (
    'Trusted: models/decimal_ref.py (integer arithmetic, self-consistent with Fractions) and the MBF decoding. '
    'Doubles are covered by mantissa patterns and neighbourhoods of powers of ten only (2^56 mantissas cannot be '
    'enumerated): a rounding defect that needs one specific 56-bit mantissa outside those alphabets is not covered.')
TECHNIQUE = ('bounded exhaustive enumeration of bit patterns / decimal strings on the real Float.to_str, '
             'Values.from_repr and tokeniser against exact integer arithmetic')
RULE = ('print: product of mantissa alphabet x all exponent bytes x sign x flavour, plus ulp-neighbourhoods of all '
        'k*10^j; parse: product of digit strings x point positions x exponents x letters x signs x sigils x '
        'zero/blank decorations. A case class is (direction, type, notation or text shape, exponent band, '
        'error band); non-trivial = every class except a mid-range value shown/read within half a unit')
ASSUMPTIONS = [
    'internal seam: Number.to_str(leading_space, type_sign) (PRINT/STR$: True,False; WRITE: False,False; LIST: '
    'False,True), Values.from_repr(text, allow_nonnum) (VAL: True; INPUT/READ/literals: False), Tokeniser',
    '"integers within the type\'s exact range are shown exactly" is read as: integers of at most 7 (single) / 16 '
    '(double) digits; an integer of 8 digits below 2^24 cannot be shown exactly in 7 significant digits, so for '
    'those only the one-unit rule applies',
    'significant digits are counted from the first non-zero digit to the last non-zero digit (place-holder zeros '
    'are not counted)',
    'reading: a decimal value below the smallest positive number 2^-128 may be stored as 0 (underflow is not '
    'described by the statement); a decimal value above the largest number minus one ulp may raise Overflow; '
    'a value within range must not raise Overflow',
    'reading: one unit in the last binary place is taken in the binade of the stored value, or of the decimal '
    'value if that lies in the next binade (the weaker bound)',
    'a % sigil is not part of a numeral for the INPUT flavour of from_repr (it is for VAL, where it ends the '
    'number, and for program literals, where the tokeniser swallows it)',
    'type by digit count: more than 7 significant digits (not counting trailing zeros of the fraction) -> double; '
    'at most 7 (counting them) -> single; in between, and for E-exponent literals with more than 7 digits, either '
    'type is accepted; integer text with embedded blanks may become Integer or Single',
    'a print -> parse round trip is not demanded (the statement does not)',
]

BASICError = error.BASICError
FLAVOURS = (('print', True, False), ('write', False, False), ('list', False, True))
MAXDIG = {24: 7, 56: 16}


# ---------------------------------------------------------------------------
# number -> text

def _band(e):
    return 'lo' if e < 100 else ('hi' if e > 160 else 'mid')


def check_shown(part, vobj, b, leg, extra_case=None):
    """Print the value in all flavours and check the three clauses of the statement.
    b: bytes of a Single/Double."""
    neg, man, t, nbits = D.mbf_triple(b)
    maxdig = MAXDIG[nbits]
    tname = 'sng' if nbits == 24 else 'dbl'
    iv = D.int_value(man, t) if man else 0
    exact_int = iv is not None and iv < D.POW10[maxdig]
    e = b[-1]
    for fl, lead, tsign in FLAVOURS:
        try:
            txt = bytes(vobj.to_str(lead, tsign))
        except Exception as ex:       # inside pcbasic: the implementation's exception
            from mc.core import from_pcbasic
            if not from_pcbasic(ex) or isinstance(ex, error.Interrupt):
                raise
            part.violation('print/%s/host-exception/%s' % (tname, type(ex).__name__),
                           'to_str(%s) of %s: %r' % (fl, b.hex(), ex), _case(b, fl, extra_case))
            continue
        part.n += 1
        sh = D.parse_shown(txt)
        if sh is None:
            part.violation('print/%s/malformed-text' % tname, 'to_str(%s) of %s gives %r' % (fl, b.hex(), txt),
                           _case(b, fl, extra_case))
            continue
        if man == 0:
            if sh.digits != 0:
                part.violation('print/%s/zero-shown-nonzero' % tname, '%s -> %r' % (b.hex(), txt), _case(b, fl, extra_case))
            continue
        # sign and leading space
        want_lead = b'-' if neg else (b' ' if lead else b'')
        if sh.lead != want_lead:
            part.violation('print/%s/wrong-sign/%s' % (tname, fl), 'to_str(%s) of %s gives %r' % (fl, b.hex(), txt),
                           _case(b, fl, extra_case))
        c, exact = D.shown_error(sh, man, t)
        notation = 'sci' if sh.expletter else 'fix'
        if c == 2:
            # which kind of input is it?  (key must name the class of failing input)
            kind = _near_power_of_ten(man, t, nbits)
            part.violation('print/%s/off-by-a-unit-or-more/%s/%s' % (tname, notation, kind),
                           'to_str(%s) of %s (= %s) gives %r: differs from the stored value by one unit of the last '
                           'digit shown or more' % (fl, b.hex(), _approx(neg, man, t), txt), _case(b, fl, extra_case))
        if sh.sig > maxdig:
            part.violation('print/%s/too-many-digits/%s' % (tname, notation),
                           'to_str(%s) of %s gives %r: %d significant digits' % (fl, b.hex(), txt, sh.sig),
                           _case(b, fl, extra_case))
        if exact_int and not exact:
            part.violation('print/%s/integer-not-exact/%s' % (tname, notation),
                           'to_str(%s) of %s (= %d) gives %r' % (fl, b.hex(), -iv if neg else iv, txt),
                           _case(b, fl, extra_case))
        if fl == 'print':
            part.classes.add('p:%s:%s:%s:%s%s' % (tname, notation, _band(e), 'exact' if exact else ('half', 'unit', 'BAD')[c],
                                                   ':int' if exact_int else ''))
            part.outcome('%s-%s-sig%d' % (tname, notation, sh.sig))
            if c == 1:
                part.add('shown_error_between_half_and_one_unit')


def _case(b, fl, extra):
    c = {'bytes': bytes(b), 'flavour': fl}
    if extra:
        c.update(extra)
    return c


def _approx(neg, man, t):
    from fractions import Fraction
    v = Fraction(man) * Fraction(2) ** t
    return ('-' if neg else '') + '%.20g' % float(v) if t > -1000 else '?'


def _near_power_of_ten(man, t, nbits):
    """'below-10^k' if the value is within 2^-(nbits-4) relative distance below a power of ten, else 'other'."""
    # find k with 10^(k-1) <= v < 10^k
    from fractions import Fraction
    v = Fraction(man) * Fraction(2) ** t
    k = 0
    p = Fraction(1)
    if v >= 1:
        while p <= v:
            p *= 10
            k += 1
    else:
        while p / 10 > v:
            p /= 10
            k -= 1
    # now v < p = 10^k
    if (p - v) * (1 << (nbits - 4)) < p:
        return 'just-below-power-of-ten'
    return 'other'


def work_print_int(shard):
    lo, hi = shard
    part = Partial()
    vals = num.make_values()
    iobj = N.Integer(None, vals)
    sobj = N.Single(None, vals)
    dobj = N.Double(None, vals)
    for i in range(lo, hi):
        struct.pack_into('<h', iobj._buffer, 0, i)
        for fl, lead, tsign in FLAVOURS:
            txt = bytes(iobj.to_str(lead, tsign))
            want = (b' ' if lead and i >= 0 else b'') + b'%d' % i
            part.n += 1
            if txt != want and txt != want + b'%':
                part.violation('print/int/not-exact/%s' % fl, 'Integer %d -> %r' % (i, txt), {'int': i, 'flavour': fl})
        sobj.from_int(i)
        check_shown(part, sobj, bytes(sobj.to_bytes()), 'print-int', {'int': i})
        dobj.from_int(i)
        check_shown(part, dobj, bytes(dobj.to_bytes()), 'print-int', {'int': i})
    part.traces = part.n
    part.classes.add('p:int:%s' % ('neg' if lo < 0 else 'pos'))
    part.sample({'int_range': [lo, hi]})
    return part


def work_print_patterns(shard):
    size, exps, rich = shard
    part = Partial()
    vals = num.make_values()
    nbits = (size - 1) * 8
    vobj = (N.Single if size == 4 else N.Double)(None, vals)
    mans = num.mantissa_patterns(nbits, rich=rich)
    buf = vobj._buffer
    for e in exps:
        for m in mans:
            for neg in (False, True):
                b = num.pack_mbf(neg, e, m, size)
                buf[:] = b
                check_shown(part, vobj, b, 'print')
    part.traces = part.n
    part.sample({'size': size, 'exps': list(exps)[:4], 'mantissas': len(mans)})
    return part


def _ordinal(expb, man, nbits):
    return (expb << (nbits - 1)) | (man - (1 << (nbits - 1)))


def _from_ordinal(o, nbits):
    return o >> (nbits - 1), (o & ((1 << (nbits - 1)) - 1)) | (1 << (nbits - 1))


def near_targets(size):
    """Decimal boundary numbers (as Fractions): k*10^j, 99..9 * 10^j, (10^d - 1/2) * 10^j."""
    from fractions import Fraction
    nbits = (size - 1) * 8
    d = MAXDIG[nbits]
    out = []
    for j in range(-40, 40):
        p = Fraction(10) ** j
        for k in range(1, 10):
            out.append(p * k)
        out.append(p * (10 ** d - 1))                 # 9999999 * 10^j
        out.append(p * (10 ** d - 1) + p / 2)         # 9999999.5 * 10^j
        out.append(p * (10 ** (d - 1)) + p / 2)       # 1000000.5 * 10^j
        out.append(p * Fraction(10 ** d - 1, 10))     # 999999.9 * 10^j
        out.append(p * 15)
        out.append(p * 25)
    return out


def work_print_near(shard):
    size, lo, hi, radius = shard
    part = Partial()
    vals = num.make_values()
    nbits = (size - 1) * 8
    vobj = (N.Single if size == 4 else N.Double)(None, vals)
    targets = near_targets(size)[lo:hi]
    top = _ordinal(255, (1 << nbits) - 1, nbits)
    bot = _ordinal(1, 1 << (nbits - 1), nbits)
    for tg in targets:
        r = num.fraction_to_mbf_floor(tg, size)
        if r is None:
            continue
        neg, expb, man, exact = r
        if not 1 <= expb <= 255:
            continue
        o = _ordinal(expb, man, nbits)
        for dlt in range(-radius, radius + 1):
            oo = o + dlt
            if not bot <= oo <= top:
                continue
            e2, m2 = _from_ordinal(oo, nbits)
            for ng in (False, True):
                b = num.pack_mbf(ng, e2, m2, size)
                vobj._buffer[:] = b
                check_shown(part, vobj, b, 'print-near')
        part.classes.add('near:%d:%s' % (size, 'exact' if exact else 'inexact'))
    part.traces = part.n
    part.sample({'size': size, 'targets': [lo, hi], 'radius': radius})
    return part


def work_print_ints(shard):
    kind = shard[0]
    part = Partial()
    vals = num.make_values()
    if kind == 'sng':
        _, lo, hi = shard
        vobj = N.Single(None, vals)
        lead, tsign = True, False
        for i in range(lo, hi):
            # build the single by hand (exact: i < 2^24)
            if i == 0:
                continue
            k = i.bit_length()
            man = i << (24 - k)
            b = num.pack_mbf(False, 128 + k, man, 4)
            vobj._buffer[:] = b
            txt = bytes(vobj.to_str(True, False))
            part.n += 1
            if txt != b' %d' % i:
                part.violation('print/sng/integer-not-exact/fix', 'Single %d (%s) -> %r' % (i, b.hex(), txt),
                               {'bytes': b, 'flavour': 'print'})
        part.classes.add('ints:sng:%d' % (lo // 1000000))
        part.sample({'kind': 'sng', 'range': [lo, hi]})
    else:
        _, ints = shard
        vobj = N.Double(None, vals)
        for i in ints:
            if i <= 0 or i >= 1 << 56:
                continue
            k = i.bit_length()
            man = i << (56 - k)
            if 128 + k > 255:
                continue
            b = num.pack_mbf(False, 128 + k, man, 8)
            for ng in (False, True):
                bb = num.pack_mbf(ng, 128 + k, man, 8)
                vobj._buffer[:] = bb
                check_shown(part, vobj, bb, 'print-ints', {'int': -i if ng else i})
        part.classes.add('ints:dbl')
        part.sample({'kind': 'dbl', 'ints': list(ints)[:3]})
    part.traces = part.n
    return part


def _double_ints():
    s = set()
    for k in range(0, 17):
        for d in range(-3, 4):
            s.add(10 ** k + d)
            for m in (2, 5, 9):
                s.add(m * 10 ** k + d)
    for k in range(1, 57):
        for d in (-2, -1, 0, 1, 2):
            s.add((1 << k) + d)
    for k in range(1, 17):
        s.add(int('9' * k))
        s.add(int('1' * k))
        s.add(int('123456789012345678'[:k]))
        s.add(int('987654321098765432'[:k]))
    return sorted(x for x in s if 0 < x < (1 << 56))


def work_print_sweep(shard):
    expb, lo, hi = shard
    part = Partial()
    vals = num.make_values()
    vobj = N.Single(None, vals)
    buf = vobj._buffer
    t = expb - 128 - 24
    to_str = vobj.to_str
    parse = D.parse_shown
    err = D.shown_error
    pack = struct.pack_into
    n = 0
    bad_units = 0
    for m in range(lo, hi):
        # mantissa bits without the hidden bit, positive sign
        pack('<I', buf, 0, (m & 0x7fffff) | (expb << 24))
        txt = bytes(to_str(True, False))
        sh = parse(txt)
        n += 1
        if sh is None or sh.lead != b' ':
            part.violation('print/sng/malformed-text', '%s -> %r' % (bytes(buf).hex(), txt), {'bytes': bytes(buf), 'flavour': 'print'})
            continue
        c, exact = err(sh, m, t)
        if c == 2 or sh.sig > 7:
            check_shown(part, vobj, bytes(buf), 'print-sweep')
        elif c == 1:
            bad_units += 1
        if t >= 0 or not (m & ((1 << -t) - 1)):
            iv = D.int_value(m, t)
            if iv < 10000000 and not exact:
                check_shown(part, vobj, bytes(buf), 'print-sweep')
    part.n += n
    part.traces = part.n
    part.add('shown_error_between_half_and_one_unit', bad_units)
    part.classes.add('sweep:e%02x' % expb)
    part.sample({'exp': expb, 'mantissas': [lo, hi]})
    return part


# ---------------------------------------------------------------------------
# text -> number

def digit_strings(tier):
    # zero mantissas first: the value is zero whatever the exponent
    out = ['0', '00', '0' * 20]
    if tier == 'quick':
        out += [str(i) for i in range(1, 100)]
        out += ['105', '125', '999', '101', '256', '512', '750']
    else:
        out += [str(i) for i in range(1, 1000)]
    for n in (6, 7, 8, 9, 15, 16, 17, 20):
        out.append('9' * n)
        out.append('1' + '0' * (n - 2) + '1')
        out.append('1' * (n - 1) + '5')
        out.append('4' + '9' * (n - 1))
        out.append('5' + '0' * (n - 1))
        out.append('1234567890123456789012'[:n])
        out.append('9876543210987654321098'[:n])
    out += ['16777215', '16777216', '16777217', '33554431', '32767', '32768', '32769', '65535', '65536',
            '8388607', '8388608', '1701411', '17014118', '170141183', '2938736', '29387358',
            '72057594037927935', '72057594037927936', '1701411834604692', '17014118346046923',
            '2938735877055718', '29387358770557188']
    seen = set()
    res = []
    for s in out:
        if s not in seen:
            seen.add(s)
            res.append(s)
    return res


def point_positions(ds, tier):
    """Texts of the digit string with a decimal point at different places / zero decorations."""
    n = len(ds)
    forms = [ds, ds + '.', '.' + ds, ds[0] + '.' + ds[1:] if n > 1 else '0.' + ds]
    if n > 2:
        forms.append(ds[:-1] + '.' + ds[-1])
        forms.append(ds[:n // 2] + '.' + ds[n // 2:])
    forms.append('00' + ds)             # leading zeros
    forms.append('0.00' + ds)           # leading zeros behind the point
    forms.append(ds + '.000')           # trailing zeros
    forms.append(ds + '00')             # trailing zeros in the integer part
    if tier != 'quick' or n <= 2 or n >= 7:
        forms.append(ds[0] + ' ' + ds[1:] if n > 1 else ' ' + ds)       # embedded blank
        forms.append(ds + ' ')
        if n > 1:
            forms.append(ds[0] + ' . ' + ds[1:])
    return forms


EXPONENTS = list(range(-45, 41))


REDUCED_EXPONENTS = (-45, -39, -38, -10, -1, 0, 1, 10, 37, 38, 39, 40)


def gen_parse_texts(tier, lo, hi, reduced=False):
    """Texts for digit strings [lo:hi] of the tier's list."""
    dss = digit_strings(tier)[lo:hi]
    for ds in dss:
        forms = point_positions(ds, tier)
        for f in forms:
            for sign in ('', '-', '+'):
                if sign == '+' and len(ds) > 2:
                    continue
                base = sign + f
                yield base
                for sigil in ('!', '#', '%'):
                    yield base + sigil
                if reduced or (tier == 'quick' and (len(ds) > 2 or f not in forms[:4]) and f is not forms[0]):
                    exps = REDUCED_EXPONENTS
                else:
                    exps = EXPONENTS
                for x in exps:
                    yield '%sE%d' % (base, x)
                    if x % 5 == 0 or x in (38, 39, -38, -39):
                        yield '%sD%d' % (base, x)
                yield base + 'E+05'
                yield base + 'e5'
                yield base + 'd-5'
                yield base + 'E'
                yield base + 'E 5'


SNG_MAX_N, SNG_MAX_D = num.SNG_MAX.numerator, num.SNG_MAX.denominator
DBL_MAX_N, DBL_MAX_D = num.DBL_MAX.numerator, num.DBL_MAX.denominator


def expected_types(nm):
    """Set of acceptable result types ('%', '!', '#') for a numeral, by the statement's rule."""
    if nm.sigil == b'!':
        return {'!'}
    if nm.sigil == b'#':
        return {'#'}
    if nm.expletter == b'D':
        return {'#'}
    if nm.plain_int:
        # no point, no exponent: an integer if it fits (the % sigil is then redundant)
        v = -nm.dint if nm.neg else nm.dint
        if -32768 <= v <= 32767:
            # pure digit strings are integer constants; with a sign, a % sigil or blanks in the text the
            # conversion may go through the float reader (same value): the statement only separates ! from #
            pure = not nm.blanks and not nm.signed and nm.sigil is None
            return {'%'} if pure else {'%', '!'}
    # a % sigil on something that is not a 16-bit integer text: not described; value rule only
    types = set()
    if nm.sig_min > 7:
        types.add('#')
    elif nm.sig_all <= 7:
        types.add('!')
    else:
        types |= {'!', '#'}
    if nm.expletter == b'E' and nm.sig_all > 7:
        types |= {'!', '#'}
    if nm.sigil == b'%':
        types |= {'%', '!', '#'}
    return types


def check_read(part, text, got, flavour, case):
    """got = ('ok', Value) or ('err', code)."""
    nm = D.parse_numeral(text)
    if nm is None:
        raise CheckError('reference cannot read %r' % (text,))
    part.n += 1
    shape = _shape(nm)
    if got[0] == 'err':
        code = got[1]
        if code != error.OVERFLOW:
            part.violation('parse/%s/unexpected-error-%d/%s' % (flavour, code, shape), 'reading %r: error %d' % (text, code), case)
            return
        # which type would it have been? overflow is acceptable only near / above the top of the range
        types = expected_types(nm)
        ok = False
        if types & {'!', '%'}:
            # MAX - ulp(MAX): (2^24-2)/2^24 * 2^127
            ok = ok or D.decimal_cmp_frac(nm, ((1 << 24) - 2) << 103, 1) > 0
        if '#' in types:
            ok = ok or D.decimal_cmp_frac(nm, ((1 << 56) - 2) << 71, 1) > 0
        if nm.plain_int and nm.sigil == b'%' and nm.dint > 32767:
            ok = True
        if not ok:
            part.violation('parse/%s/spurious-overflow/%s' % (flavour, shape), 'reading %r: Overflow although in range' % (text,), case)
        part.classes.add('r:%s:overflow' % shape)
        part.outcome('overflow')
        return
    val = got[1]
    if isinstance(val, N.Integer):
        ty = '%'
    elif isinstance(val, N.Single):
        ty = '!'
    elif isinstance(val, N.Double):
        ty = '#'
    else:
        part.violation('parse/%s/not-a-number' % flavour, 'reading %r gives %r' % (text, val), case)
        return
    types = expected_types(nm)
    if ty not in types:
        part.violation('parse/%s/wrong-type/%s/got%s' % (flavour, shape, {'%': 'int', '!': 'sng', '#': 'dbl'}[ty]),
                       'reading %r gives type %s, the sigil/exponent-letter/digit-count rule gives %s' % (
                           text, ty, sorted(types)), case)
    # value
    if ty == '%':
        iv = val.to_int()
        want = -nm.dint if nm.neg else nm.dint
        exact_int = nm.x >= 0 and want * D.POW10[nm.x] == iv if nm.x >= 0 else (
            nm.dint % D.POW10[-nm.x] == 0 and (want // D.POW10[-nm.x] if want >= 0 else -((-want) // D.POW10[-nm.x])) == iv)
        if not exact_int:
            part.violation('parse/%s/integer-wrong-value/%s' % (flavour, shape), 'reading %r gives Integer %d' % (text, iv), case)
        part.classes.add('r:%s:int' % shape)
        part.outcome('int')
        return
    b = bytes(val.to_bytes())
    neg, man, t, nbits = D.mbf_triple(b)
    tname = 'sng' if nbits == 24 else 'dbl'
    if man == 0:
        if nm.dint == 0:
            c = 0
        elif D.decimal_cmp_frac(nm, (1 << 23) + 1, 1 << 151) < 0:
            # below the smallest positive number plus one (single) ulp: underflow accepted (ASSUMPTIONS)
            c = 0
            part.classes.add('r:%s:%s:underflow' % (shape, tname))
        else:
            part.violation('parse/%s/%s/nonzero-read-as-zero/%s' % (flavour, tname, shape),
                           'reading %r gives 0 although the value is at least 2^-128' % (text,), case)
            return
    else:
        if nm.dint == 0:
            part.violation('parse/%s/%s/zero-read-as-nonzero/%s' % (flavour, tname, shape), 'reading %r gives %s' % (text, b.hex()), case)
            return
        if neg != nm.neg:
            part.violation('parse/%s/%s/wrong-sign/%s' % (flavour, tname, shape), 'reading %r gives %s' % (text, b.hex()), case)
            return
        c = D.read_error(nm, man, t, nbits)
        if c == 2:
            wide = 'digit-string-exceeds-%d-bits' % nbits if nm.dint >= (1 << nbits) else 'digit-string-fits'
            key = 'parse/%s/%s/off-by-an-ulp-or-more/%s' % (flavour, tname, wide)
            if nm.dint < (1 << nbits):
                key += '/%s/%s' % (shape, _xband(nm))
            part.violation(key,
                           'reading %r gives %s (= %s): differs from the decimal value by one unit in the last binary '
                           'place or more' % (text, b.hex(), _approx(neg, man, t)), case)
    part.classes.add('r:%s:%s:%s:%s' % (shape, tname, _xband(nm), ('half', 'ulp', 'BAD')[c]))
    part.outcome('%s-%s' % (tname, ('half', 'ulp', 'BAD')[c]))
    if c == 1:
        part.add('read_error_between_half_and_one_ulp')


def _shape(nm):
    s = 'exp%s' % nm.expletter.decode() if nm.expletter else ('int' if nm.plain_int else 'frac')
    d = nm.sig_all
    s += '-d%s' % ('1-7' if d <= 7 else ('8-16' if d <= 16 else '17+'))
    if nm.sigil:
        s += '-sigil' + {b'!': 'S', b'#': 'D', b'%': 'I'}[nm.sigil]
    if nm.blanks:
        s += '-blank'
    return s


def _xband(nm):
    # decimal magnitude band
    e = nm.x + len(str(nm.dint)) if nm.dint else 0
    if e < -30:
        return 'tiny'
    if e > 30:
        return 'huge'
    return 'mid'


def _call_from_repr(vals, text, allow_nonnum):
    try:
        return ('ok', vals.from_repr(text, allow_nonnum))
    except BASICError as e:
        return ('err', e.err)


def work_parse(shard):
    tier, lo, hi = shard
    part = Partial()
    vals = num.make_values()
    soft_vals, _soft_console = num.make_values_soft()
    from mc.core import from_pcbasic
    for text in gen_parse_texts(tier, lo, hi):
        tb = text.encode('ascii')
        for flavour, allow in (('val', True), ('input', False)):
            if not allow and tb.endswith(b'%'):
                continue        # a % is not part of a numeral for INPUT (ASSUMPTIONS)
            case = {'text': tb, 'flavour': flavour}
            try:
                got = _call_from_repr(vals, tb, allow)
            except Exception as ex:
                if not from_pcbasic(ex):
                    raise
                part.n += 1
                part.violation('parse/%s/host-exception/%s/%s' % (flavour, type(ex).__name__, _shape(D.parse_numeral(tb))),
                               'reading %r: %r' % (tb, ex), case)
                continue
            check_read(part, tb, got, flavour, case)
            if got == ('err', error.OVERFLOW):
                # without ON ERROR GOTO a float overflow is a message and the largest number of the text's sign
                try:
                    g2 = _call_from_repr(soft_vals, tb, allow)
                except Exception as ex:
                    if not from_pcbasic(ex):
                        raise
                    part.violation('parse/%s/host-exception/%s/soft-overflow' % (flavour, type(ex).__name__), 'reading %r: %r' % (tb, ex), case)
                    continue
                part.n += 1
                if g2[0] == 'ok' and isinstance(g2[1], N.Float):
                    want = type(g2[1]).neg_max if D.parse_numeral(tb).neg else type(g2[1]).pos_max
                    if bytes(g2[1].to_bytes()) != bytes(want):
                        part.violation('parse/%s/soft-overflow-wrong-value/%s' % (flavour, _shape(D.parse_numeral(tb))),
                                       'reading %r with soft error handling gives %s, expected the largest number of that sign %s' % (
                                           tb, bytes(g2[1].to_bytes()).hex(), bytes(want).hex()), case)
                    part.classes.add('r:soft-overflow:%s' % type(g2[1]).__name__)
    part.traces = part.n
    part.sample({'tier': tier, 'digit_strings': [lo, hi], 'first': digit_strings(tier)[lo]})
    return part


def _literal_from_program(s):
    """Token and value of the literal in line 1 'X#=<literal>' of the session's program."""
    code = bytes(s._impl.program.bytecode.getvalue())
    # \0 ptr ptr 01 00 'X' '#' EF(=) token...
    i = code.find(b'X#\xe7')
    if i < 0:
        raise CheckError('cannot find the literal in %r' % code[:40])
    rest = code[i + 3:]
    return rest


_TOKLEN = {0x1d: 4, 0x1f: 8, 0x1c: 2, 0x0f: 1}


def work_literal(shard):
    from mc import harness as H
    tier, lo, hi = shard
    part = Partial()
    s = H.new_session(horizon=100)
    vals = num.make_values()
    try:
        for idx, text in enumerate(gen_parse_texts(tier, lo, hi, reduced=(tier == 'quick'))):
            if tier == 'quick' and idx % 3 != lo % 3:
                continue        # quick tier: every third text of the enumeration (fixed, no sampling)
            if text.endswith('E') or text.endswith('E 5') or text[0] == '+':
                continue        # tokeniser-specific lexing (E followed by blank/nothing): not a literal question
            tb = text.encode('ascii')
            neg = tb.startswith(b'-')
            body = tb[1:] if neg else tb          # GW stores the sign as a separate token
            case = {'text': tb, 'flavour': 'literal'}
            r = H.run(s, b'1 X#=' + body)
            part.traces += 1
            if r.exc is not None:
                part.n += 1
                part.violation('parse/literal/host-exception/%s' % H.exc_key(r.exc), 'tokenising %r: %r' % (body, r.exc), case)
                continue
            if r.err is not None or error.OVERFLOW in r.soft:
                # overflow while tokenising is a soft error: message, and the largest number is stored
                got = ('err', r.err if r.err is not None else error.OVERFLOW)
                check_read(part, body, got, 'literal', case)
                continue
            rest = _literal_from_program(s).lstrip(b' ')
            lead = rest[0]
            if lead in _TOKLEN:
                tok = rest[:1 + _TOKLEN[lead]]
                after = rest[1 + _TOKLEN[lead]:]
            elif 0x11 <= lead <= 0x1b:
                tok = rest[:1]
                after = rest[1:]
            else:
                part.n += 1
                part.violation('parse/literal/no-number-token', 'tokenising %r gives %r' % (body, rest[:12]), case)
                continue
            # the literal must be consumed completely (only a swallowed % / end of line may follow)
            if after.lstrip(b' ')[:1] not in (b'\0', b'%'):
                part.n += 1
                part.violation('parse/literal/not-consumed/%s' % _shape(D.parse_numeral(body)),
                               'tokenising %r leaves %r behind the number token' % (body, after[:8]), case)
                continue
            val = vals.from_token(tok)
            check_read(part, body, ('ok', val), 'literal', case)
    finally:
        s.close()
    part.sample({'tier': tier, 'digit_strings': [lo, hi]})
    return part


# ---------------------------------------------------------------------------
# statements through the interpreter

def _stmt_values():
    """(bytes) values for the statement-level leg: a small boundary set of all three types."""
    out = []
    for i in (0, 1, -1, 7, 10, 255, -256, 32767, -32768):
        out.append(struct.pack('<h', i))
    for e in (1, 2, 105, 121, 125, 128, 129, 132, 148, 151, 152, 153, 160, 254, 255):
        for m in (0x800000, 0xffffff, 0xa00000, 0xc90fda, 0x800001, 0x989680):
            for neg in (False, True):
                out.append(num.pack_mbf(neg, e, m, 4))
    for e in (1, 75, 125, 128, 129, 132, 181, 182, 183, 184, 185, 255):
        for m in (1 << 55, (1 << 56) - 1, 0xa0000000000000, 0xc90fdaa22168c2, (1 << 55) | 1, 0x8e1bc9bf040000):
            for neg in (False, True):
                out.append(num.pack_mbf(neg, e, m, 8))
    return out


def _stmt_texts():
    out = ['0', '1', '-1', '12', '32767', '32768', '-32768', '1.5', '.5', '-.25', '1E5', '1D5', '1.5E-3', '123456789',
           '1234567', '12345678', '0.1', '1E38', '1E-38', '1.701411E38', '2.938736E-39', '1D-38', '1.5!', '1.5#', '3%',
           '1 2 3', ' 7', '7 ', '00012', '1.50000', '1E+05', '1e5', '-1.25d-3', '99999999', '9999999', '.0000001',
           '16777217', '1234567890123456', '12345678901234567', '12345678901234567890']
    return out


def _cv(b):
    fn = {2: b'CVI', 4: b'CVS', 8: b'CVD'}[len(b)]
    return fn + b'(' + b'+'.join(b'CHR$(%d)' % x for x in b) + b')'


def work_stmt(shard):
    from mc import harness as H
    kind, idxs = shard
    part = Partial()
    vals = num.make_values()
    s = H.new_session(horizon=200)
    try:
        if kind == 'print':
            allv = _stmt_values()
            for i in idxs:
                b = allv[i]
                vobj = vals.from_bytes(b)
                expr = _cv(b)
                var = {2: b'V%', 4: b'V!', 8: b'V#'}[len(b)]
                r = H.run(s, b'LOCATE 1,1:' + var + b'=' + expr + b':PRINT ' + var + b':PRINT STR$(' + var + b'):WRITE ' + var)
                part.traces += 1
                case = {'idx': i, 'bytes': b, 'kind': 'print'}
                if r.exc is not None or r.err is not None:
                    part.violation('stmt/print/failed', 'PRINT of %s: err %r exc %r' % (b.hex(), r.err, r.exc), case)
                    continue
                lines = r.out.split(b'\r\n')
                want_p = bytes(vobj.to_str(True, False))
                want_w = bytes(vobj.to_str(False, False))
                part.n += 3
                # the seams: PRINT appends a space, STR$ is the PRINT form, WRITE has no leading space
                if lines[:3] != [want_p + b' ', want_p, want_w]:
                    part.violation('stmt/print/seam-mismatch', 'PRINT/STR$/WRITE of %s print %r, to_str gives %r / %r' % (
                        b.hex(), lines[:3], want_p, want_w), case)
                # and the statement itself on the statement-level output
                if len(b) > 2:
                    for txt, fl in ((lines[0].rstrip(b' '), 'print'), (lines[2], 'write')):
                        _check_text_against(part, txt, b, 'stmt-' + fl, case)
                # LIST flavour: a program line holding a float token; the listing must be to_str(False, True)
                # of the value *in the token* (whatever the tokeniser made of the text)
                if len(b) > 2 and not (b[-2] & 0x80) and b[-1] != 0:
                    text_in = bytes(vobj.to_str(False, True))
                    H.run(s, b'1 X#=' + text_in)
                    rest = _literal_from_program(s).lstrip(b' ')
                    if rest[0] in (0x1d, 0x1f):
                        tokval = vals.from_token(rest[:1 + _TOKLEN[rest[0]]])
                        want_l = bytes(tokval.to_str(False, True))
                        r2 = H.run(s, b'LIST')
                        part.traces += 1
                        part.n += 1
                        m = re.match(rb'^1 X#=(\S+)\s*$', r2.out.split(b'\r\n')[0])
                        if r2.exc is not None or not m or m.group(1) != want_l:
                            part.violation('stmt/list/seam-mismatch', 'LIST of a line with token %s: %r, to_str gives %r' % (
                                bytes(tokval.to_bytes()).hex(), r2.out, want_l), case)
                        else:
                            _check_text_against(part, m.group(1), bytes(tokval.to_bytes()), 'stmt-list', case)
                part.classes.add('stmt:print:%d' % len(b))
        else:
            allt = _stmt_texts()
            for i in idxs:
                text = allt[i].encode('ascii')
                case = {'idx': i, 'text': text, 'kind': 'read'}
                want = _call_from_repr(vals, text, True)
                wantd = None
                if want[0] == 'ok':
                    wantd = bytes(V.to_double(want[1]).to_bytes())
                # VAL
                s.set_variable('T$', text)
                r = H.run(s, b'LOCATE 1,1:R$="":R$=MKD$(VAL(T$))')
                part.traces += 1
                part.n += 1
                got = s.get_variable('R$')
                if r.exc is not None or (r.err is None) != (want[0] == 'ok') or (wantd is not None and got != wantd):
                    part.violation('stmt/val/seam-mismatch', 'VAL(%r): err %r exc %r value %s; from_repr gives %r' % (
                        text, r.err, r.exc, got.hex(), want), case)
                elif wantd is not None:
                    check_read(part, text, ('ok', vals.from_bytes(wantd)) if False else want, 'stmt-val', case)
                if text.endswith(b'%'):
                    continue    # READ / INPUT lex a % differently from VAL (ASSUMPTIONS)
                # READ from DATA (INPUT flavour of from_repr)
                want2 = _call_from_repr(vals, text, False)
                H.run(s, b'NEW')
                H.run(s, b'10 DATA ' + text)
                H.run(s, b'20 READ Q#:R$=MKD$(Q#)')
                r = H.run(s, b'LOCATE 1,1:RUN')
                part.traces += 1
                part.n += 1
                got = s.get_variable('R$')
                if want2[0] == 'ok':
                    wd = bytes(V.to_double(want2[1]).to_bytes())
                    if r.exc is not None or r.err is not None or got != wd:
                        part.violation('stmt/read/seam-mismatch', 'READ of DATA %r: err %r exc %r value %s; from_repr gives %s' % (
                            text, r.err, r.exc, got.hex(), wd.hex()), case)
                    else:
                        check_read(part, text, want2, 'stmt-read', case)
                elif r.err != want2[1]:
                    part.violation('stmt/read/seam-mismatch', 'READ of DATA %r: err %r, from_repr gives error %r' % (
                        text, r.err, want2[1]), case)
                # INPUT from the keyboard
                H.run(s, b'NEW')
                s.press_keys(text.decode('ascii') + u'\r')
                r = H.run(s, b'LOCATE 1,1:INPUT Q#:R$=MKD$(Q#)')
                part.traces += 1
                part.n += 1
                got = s.get_variable('R$')
                if want2[0] == 'ok':
                    wd = bytes(V.to_double(want2[1]).to_bytes())
                    if r.exc is not None or r.err is not None or got != wd:
                        part.violation('stmt/input/seam-mismatch', 'INPUT of %r: err %r exc %r value %s; from_repr gives %s' % (
                            text, r.err, r.exc, got.hex(), wd.hex()), case)
                part.classes.add('stmt:read')
    finally:
        s.close()
    part.sample({'kind': kind, 'idx': list(idxs)[:3]})
    return part


def _check_text_against(part, txt, b, leg, case):
    """Statement-level text against the stored value (same clauses as check_shown, one flavour)."""
    sh = D.parse_shown(txt)
    neg, man, t, nbits = D.mbf_triple(b)
    if sh is None:
        part.violation('stmt/print/malformed-text', '%s printed as %r' % (b.hex(), txt), case)
        return
    if man == 0:
        return
    c, exact = D.shown_error(sh, man, t)
    if c == 2 or sh.sig > MAXDIG[nbits]:
        part.violation('stmt/print/%s/%s' % ('off-by-a-unit-or-more' if c == 2 else 'too-many-digits',
                                              _near_power_of_ten(man, t, nbits)),
                       '%s (= %s) printed as %r' % (b.hex(), _approx(neg, man, t), txt), case)


# ---------------------------------------------------------------------------

SWEEP_EXPS = (0x81, 0x7d, 0x94, 0x98)      # [1,2), [1/16,1/8) with 0.1, [2^19,2^20) with 999999.9, [2^23,2^24) with 10^7


def legs(ctx):
    tier = 'quick' if ctx.quick else 'thorough'
    out = []
    out.append(Leg('print-int', [(lo, lo + 2048) for lo in range(-32768, 32768, 2048)], work_print_int, exhaustive=True,
                   bound='all 65536 integers as Integer, Single and Double x 3 flavours'))
    exps = list(range(1, 256))
    rich = True
    m24 = len(num.mantissa_patterns(24, rich))
    m56 = len(num.mantissa_patterns(56, rich))
    out.append(Leg('print-sng', [(4, c, rich) for c in chunked(exps, 4)], work_print_patterns, exhaustive=True,
                   bound='%d mantissa patterns x 255 exponent bytes x 2 signs x 3 flavours' % m24))
    out.append(Leg('print-dbl', [(8, c, rich) for c in chunked(exps, 2)], work_print_patterns, exhaustive=True,
                   bound='%d mantissa patterns x 255 exponent bytes x 2 signs x 3 flavours' % m56))
    radius = 3 if ctx.quick else 40
    nt = len(near_targets(4))
    shards = [(size, lo, min(lo + 20, nt), radius) for size in (4, 8) for lo in range(0, nt, 20)]
    out.append(Leg('print-near', shards, work_print_near, exhaustive=True,
                   bound='all floats within +-%d ulp of %d decimal boundary numbers (k*10^j, 9..9*10^j, (10^d-1/2)*10^j, '
                         '... for j=-40..39), single and double, 2 signs x 3 flavours' % (radius, nt)))
    dints = _double_ints()
    shards = [('dbl', c) for c in chunked(dints, 60)]
    if not ctx.quick:
        shards += [('sng', lo, lo + 50000) for lo in range(0, 10000000, 50000)]
        b = 'every integer 1..9,999,999 as Single (PRINT flavour); '
    else:
        shards += [('sng', lo, lo + 5000) for lo in list(range(0, 100000, 5000)) +
                   [999000 + 0, 9990000 + 5000, 8385000, 1045000]]
        b = 'integers 1..99,999 and 4 windows of 5000 up to 9,999,999 as Single; '
    out.append(Leg('print-ints', shards, work_print_ints, exhaustive=True,
                   bound=b + '%d integers around 10^k, m*10^k, 2^k, repdigits as Double' % len(dints)))
    if not ctx.quick:
        shards = [(e, lo, lo + (1 << 17)) for e in SWEEP_EXPS for lo in range(1 << 23, 1 << 24, 1 << 17)]
        out.append(Leg('print-sweep', shards, work_print_sweep, exhaustive=True,
                       bound='all 2^23 mantissas of the Single binades with exponent bytes %s (PRINT flavour)' % (
                           ', '.join('%02X' % e for e in SWEEP_EXPS))))
    nds = len(digit_strings(tier))
    step = 4 if ctx.quick else 3
    shards = [(tier, lo, min(lo + step, nds)) for lo in range(0, nds, step)]
    out.append(Leg('parse', shards, work_parse, exhaustive=True,
                   bound='%d digit strings x up to 13 point/zero/blank forms x signs x (sigils + exponents -45..40 with E, '
                         'every 5th with D + 5 exponent spellings) x 2 flavours of from_repr' % nds))
    lds = nds if not ctx.quick else nds
    lstep = 3 if ctx.quick else 2
    out.append(Leg('literal', [(tier, lo, min(lo + lstep, lds)) for lo in range(0, lds, lstep)], work_literal, exhaustive=True,
                   bound='the same texts as program literals through the tokeniser (quick: reduced exponent set, every third text)'))
    nv, ntx = len(_stmt_values()), len(_stmt_texts())
    shards = [('print', c) for c in chunked(range(nv), 12)] + [('read', c) for c in chunked(range(ntx), 4)]
    out.append(Leg('stmt', shards, work_stmt, exhaustive=True,
                   bound='%d values through PRINT/STR$/WRITE/LIST and %d texts through VAL/READ/INPUT in real sessions' % (nv, ntx)))
    import gc
    gc.collect()
    gc.freeze()
    return out


def replay(ctx, leg, case):
    part = Partial()
    vals = num.make_values()
    if 'text' in case and leg in ('parse', 'literal'):
        tb = case['text']
        if leg == 'parse':
            allow = case['flavour'] == 'val'
            check_read(part, tb, _call_from_repr(vals, tb, allow), case['flavour'], case)
        else:
            from mc import harness as H
            s = H.new_session(horizon=100)
            try:
                body = tb[1:] if tb.startswith(b'-') else tb
                r = H.run(s, b'1 X#=' + body)
                if r.err is not None:
                    check_read(part, body, ('err', r.err), 'literal', case)
                else:
                    rest = _literal_from_program(s)
                    lead = rest[0]
                    tok = rest[:1 + _TOKLEN.get(lead, 0)]
                    after = rest[len(tok):]
                    if after[:1] not in (b'\0', b'%'):
                        part.violation('parse/literal/not-consumed/%s' % _shape(D.parse_numeral(body)),
                                       'tokenising %r leaves %r behind the number token' % (body, after[:8]), case)
                    else:
                        check_read(part, body, ('ok', vals.from_token(tok)), 'literal', case)
            finally:
                s.close()
        return part
    if leg == 'stmt':
        return work_stmt((case['kind'], [case['idx']]))
    if 'bytes' in case:
        b = case['bytes']
        vobj = vals.from_bytes(b)
        check_shown(part, vobj, bytes(b), leg)
        return part
    if 'int' in case:
        return work_print_int((case['int'], case['int'] + 1))
    raise CheckError('cannot replay %r' % (case,))
