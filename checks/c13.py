"""
C13 - the stored program equals the entered lines after any edit history.

E2 (history BFS on the real Session, reference model in lock-step):
  closure : small closed alphabet (3 line numbers), run to the FIXED POINT of the
            canonical state space -> every history of any length over that alphabet
  depth   : large alphabet (6 line numbers incl. 0 and 65529, 3 body shapes of
            different lengths, empty lines, 6 DELETE ranges, 4 RENUMs, NEW, MERGE/LOAD
            of hand-assembled ASCII and tokenised files), all histories to depth d
Canonical key = program bytes + incremental line index (the complete state the
operations of the alphabet can observe).
In every new canonical state: LIST == model, PEEK link chain == model numbers and
ends in 00 00, incremental index == independent rescan == real rebuild_line_dict,
execution entering at each line lands where the model says.
"""
import io
import os
import hashlib

from mc.core import Leg, Partial, CheckError
from mc import harness as H
from mc import progstore as R
from models.progmodel import ProgramModel, line_text

PROPERTY = 'C13'
ENGINE = 'E2 bfs'
LEVEL = 'model_checking'
LEVEL_TEXT = (
    'Explicit-state breadth-first search over edit histories executed on the real Session, '
    'de-duplicated on the exact program bytes + line index. The closure leg reaches the fixed '
    'point of a closed alphabet (3 line numbers, <=3 lines), so it covers histories of every length '
    'over that alphabet; the depth leg covers every history up to the stated depth over a 40-operation '
    'alphabet (line numbers 0..65529, three body lengths, DELETE ranges incl. empty ones, RENUM incl. '
    'rejected ones, NEW, MERGE/LOAD of ASCII and tokenised files, programs of <=4 lines).')
LEVEL_NOTE = (
    'Trusted: the reference dict-of-lines model, the PEEK chain walker and the token-length table of '
    'the independent scanner. States are rebuilt by replaying the history in a fresh Session.')
TECHNIQUE = ('bounded exhaustive enumeration of edit histories (BFS with canonical-state de-duplication, '
             'fixed point where closed) on the real Session.execute seam against a dict-of-lines model')
RULE = ('every operation of the alphabet is applied in every canonical state reached; a case class is '
        '(operation kind, what it did in the model: insert-front/middle/end, replace-longer/shorter/same, '
        'delete-none/some/all, renum-changed/same, rejected, load, merge); all but insert-first are non-trivial')
ASSUMPTIONS = [
    'internal seam (read-only, for the canonical key and the index-vs-rescan invariant): '
    'Implementation.program.bytecode / .line_numbers / .rebuild_line_dict',
    'an operation the interpreter rejects with a BASIC error must leave the program unchanged; which '
    'DELETE ranges / RENUM arguments are rejected is not prescribed by the statement and is followed '
    'from the implementation, except: entering a line, NEW, LOAD/MERGE of a valid file, an empty line '
    'for an existing number and DELETE a-b with both end points existing must be accepted',
    'a RENUM that is accepted although it would produce duplicate / descending / >65529 numbers is a violation',
    'no operation of the alphabet reads Program.last_stored (the "." line), so it is not part of the key',
    'line 0 is typed without a blank after the number (a blank typed after line number 0 is kept as '
    'text by GW-BASIC and pcbasic alike and would show up in LIST)',
    'error codes of rejected operations are recorded as outcome classes only (the statement does not fix them)',
    'execution that the model predicts to loop forever is cut by Ctrl+Break and only checked for host exceptions',
]

# ---------------------------------------------------------------------------
# alphabet


def _body(n, shape):
    if shape == 'p':
        return ('p', b't%d' % n)
    if shape == 'r':
        return ('r', (b'r%d' % n).ljust(40, b'.'))
    if shape[0] == 'g':
        return ('g', int(shape[1:]))
    if shape[0] == 'x':
        # a REM of a given length: moves every later line by one byte per step
        return ('r', b'x' * int(shape[1:]))
    raise ValueError(shape)


def _tok_body(body):
    """Tokenised form of a model body (GW-BASIC tokens: PRINT 91, END 81, REM 8F, GOTO 89, 0E uint)."""
    kind, arg = body
    if kind == 'p':
        return b'\x91 "' + arg + b'":\x81'
    if kind == 'r':
        return b'\x8f ' + arg
    return b'\x89 \x0e' + bytes((arg & 255, arg >> 8))


FILES = {
    # id: (format, [(number, body)])
    'A1': ('A', [(10, ('p', b'fa')), (15, ('g', 30)), (65529, ('r', b'f one'))]),
    'A2': ('A', [(20, ('p', b'fb')), (1, ('r', b'two'))]),          # not in ascending order in the file
    # a line number followed by blanks only deletes the line (here: lines the file itself has just stored)
    'A4': ('A', [(25, ('p', b'fd')), (12, ('p', b'fe')), (25, ('ws', b'  ')), (12, ('ws', b'\t'))]),
    'a4': ('A', [(20, ('p', b'fd')), (30, ('p', b'fe')), (20, ('ws', b'   '))]),
    'T3': ('B', [(5, ('p', b'fc')), (30, ('g', 5))]),
    # closure alphabet
    'a1': ('A', [(20, ('p', b'm')), (30, ('g', 10))]),
    't2': ('B', [(10, ('g', 30)), (30, ('p', b'k'))]),
    # tokenised, larger than the program memory of the tight configuration
    't9': ('B', [(10, ('r', b'nine'.ljust(40, b'.'))), (20, ('r', b'nine'.ljust(40, b','))), (30, ('p', b'k9'))]),
}


def file_bytes(fid):
    fmt, lines = FILES[fid]
    if fmt == 'A':
        return R.ascii_file([line_text(n, b) for n, b in lines])
    return R.tokenised_file([(n, _tok_body(b)) for n, b in lines])


def _ops_big():
    ops = []
    nums = (0, 1, 10, 20, 30, 65529)
    for n in nums:
        for shape in ('p', 'r', 'g10'):
            ops.append(('line', n, shape))
    for n in nums:
        ops.append(('empty', n))
    ops += [('empty', 10, b'  '), ('empty', 20, b'\t'), ('empty', 0, b' '), ('empty', 65529, b' \t ')]
    ops += [('del', 10, 10), ('del', 10, 20), ('del', None, 10), ('del', 20, None),
            ('del', 2, 9), ('del', 0, 65529),
            # line number 0 given explicitly (falsy in Python: must not be read as 'omitted')
            ('del', 0, 0), ('del', None, 0)]
    ops += [('renum', None, None, None), ('renum', 100, 20, 5), ('renum', 65520, 30, 5),
            ('renum', 1, 10, 1), ('renum', 0, None, None), ('renum', 0, 0, 5)]
    ops += [('new',), ('merge', 'A1'), ('merge', 'A2'), ('load', 'A1'), ('load', 'T3'),
            ('merge', 'T3'), ('merge', 'A4'), ('load', 'A4')]
    return ops


def _ops_small():
    ops = []
    for n in (10, 20, 30):
        ops.append(('line', n, 'p'))
        ops.append(('line', n, 'g10'))
        ops.append(('empty', n))
    ops.append(('line', 20, 'r'))
    ops += [('empty', 20, b'  '), ('empty', 10, b'\t')]
    ops += [('del', 10, 20), ('del', 20, None), ('del', 15, 15), ('del', None, 10)]
    ops += [('renum', None, None, None), ('renum', 20, 20, 10), ('renum', 30, 20, None)]
    ops += [('new',), ('merge', 'a1'), ('load', 't2'), ('load', 'a1'), ('merge', 'a4')]
    return ops


def _ops_tight():
    ops = []
    for n in (10, 20, 30):
        for shape in ('p', 'r', 'g10'):
            ops.append(('line', n, shape))
        ops.append(('empty', n))
    ops += [('del', 10, 20), ('del', 20, None), ('del', None, 10)]
    ops += [('renum', None, None, None), ('renum', 20, 20, 10), ('new',)]
    # a tokenised file that fits and one that does not (tokenised files are read in one piece)
    ops += [('load', 't2'), ('load', 't9')]
    return ops


# CLEAR ,n that leaves 69 bytes for the program: three short lines fit, a 40-character REM next to
# another line does not, so replacing or inserting lines fails with Out of memory in many states
TIGHT_MEMORY = 5300

CONFIGS = {
    'tight': {'ops': _ops_tight(), 'maxlines': 3},
    'small': {'ops': _ops_small(), 'maxlines': 3},
    'small2': {'ops': _ops_small(), 'maxlines': 2},
    'big': {'ops': _ops_big(), 'maxlines': 4},
}


def op_command(op):
    kind = op[0]
    if kind == 'line':
        text = line_text(op[1], _body(op[1], op[2]))
        if op[1] == 0:
            # GW-BASIC keeps the blank typed after line number 0 as part of the line; type none
            text = text.replace(b'0 ', b'0', 1)
        return text
    if kind == 'empty':
        # optionally followed by blanks only
        return b'%d' % op[1] + (op[2] if len(op) > 2 else b'')
    if kind == 'del':
        lo, hi = op[1], op[2]
        if lo is not None and lo == hi:
            return b'DELETE %d' % lo
        return b'DELETE %s-%s' % (b'' if lo is None else b'%d' % lo, b'' if hi is None else b'%d' % hi)
    if kind == 'renum':
        args = [b'' if a is None else b'%d' % a for a in op[1:4]]
        while args and args[-1] == b'':
            args.pop()
        return (b'RENUM ' + b','.join(args)).strip()
    if kind == 'new':
        return b'NEW'
    if kind == 'clear':
        return b'CLEAR ,%d' % op[1]
    return None  # file operations need a bound name


# ---------------------------------------------------------------------------
# one step on the real session + model


def apply_op(s, model, op):
    """Apply op to the real session and, according to the outcome, to the model.
    Returns (Run, label, viols) where viols is a list of (key, what)."""
    kind = op[0]
    viols = []
    if kind in ('merge', 'load'):
        name, _stream = R.bind_bytes(s, file_bytes(op[1]))
        cmd = (b'MERGE "%s"' if kind == 'merge' else b'LOAD "%s"') % (name,)
    else:
        cmd = op_command(op)
    r = R.run(s, cmd)
    if r.exc is not None:
        viols.append(('host-exception/%s/%s' % (kind, H.exc_key(r.exc)),
                      '%r raised %r' % (cmd, r.exc)))
        return r, 'host-exception', viols
    rejected = r.err is not None
    must_accept = False
    if kind == 'clear':
        if rejected:
            raise CheckError('%r rejected: %r' % (cmd, r.err))
        model.tight = True
        return r, 'clear', viols
    if kind == 'line':
        must_accept = True
    elif kind == 'new':
        must_accept = True
    elif kind == 'empty':
        must_accept = not model.may_reject_empty(op[1])
    elif kind == 'del':
        must_accept = (op[1] in model.lines and op[2] in model.lines)
    elif kind in ('merge', 'load'):
        fmt = FILES[op[1]][0]
        must_accept = (fmt == 'A' or kind == 'load')
    if rejected:
        label = '%s:rejected-%s' % (kind, r.err)
        if must_accept and (r.err == 7 or (r.err == 14 and kind == 'load')) and getattr(model, 'tight', False):
            # memory was limited with CLEAR: the line does not fit; nothing may have changed
            # (LOAD: or the file name, a direct-mode string, does not fit in string space)
            label = '%s:out-of-memory' % kind
            if kind == 'load' and not s._impl.program.line_numbers:
                # (a LOAD that is refused may have discarded the old program already: then the program is empty)
                model.new()
                label = 'load:out-of-memory-program-discarded'
        elif must_accept:
            viols.append(('rejected/%s' % kind,
                          '%r rejected with error %s but the statement requires it to take effect' % (cmd, r.err)))
        return r, label, viols
    # accepted: step the model
    if kind == 'line':
        label = model.enter(op[1], _body(op[1], op[2]))
    elif kind == 'empty':
        label = model.empty(op[1])
    elif kind == 'del':
        label = model.delete(op[1], op[2])
    elif kind == 'renum':
        if not model.renum_wellformed(*op[1:4]):
            viols.append(('renum/ill-formed-accepted',
                          '%r accepted although it produces duplicate/descending/>65529 numbers from lines %r'
                          % (cmd, model.numbers())))
        label = model.renum(*op[1:4])
    elif kind == 'new':
        label = model.new()
    elif kind == 'merge':
        label = model.merge(FILES[op[1]][1])
    else:
        label = model.load(FILES[op[1]][1])
        label += '-' + FILES[op[1]][0]
    return r, '%s:%s' % (kind, label), viols


def state_key(s):
    prog = s._impl.program
    try:
        code = prog.bytecode.getvalue()
        index = tuple(sorted(prog.line_numbers.items()))
    except AttributeError as e:
        raise CheckError('internal seam changed: %s' % e)
    return hashlib.sha1(code + repr(index).encode('ascii')).digest(), code, index


def check_state(s, model, tag, code, index):
    """All per-state invariants. Returns list of (key, what). Mutates the session (it is
    discarded afterwards)."""
    viols = []
    nums = model.numbers()
    prog = s._impl.program
    # (1) incremental index == independent token-aware rescan of the bytes
    scanned, endpos, status = R.scan_lines(code)
    ref_index = tuple(sorted([(n, pos) for n, pos, _l, _b in scanned] + [(65536, endpos)]))
    if status != 'ok' or ref_index != index:
        viols.append(('index/differs-from-rescan/after-' + tag,
                      'incremental line index %r, rescan of the program bytes gives %r (%s)'
                      % (index, ref_index, status)))
    # (2) LIST
    r = R.run(s, b'LIST')
    if r.exc is not None:
        viols.append(('host-exception/LIST/' + H.exc_key(r.exc), 'LIST raised %r' % (r.exc,)))
    else:
        got = R.lines_of(r.out)
        exp = model.listing()
        if got != exp:
            viols.append(('list/mismatch/after-' + tag, 'LIST shows %r, model has %r' % (got, exp)))
    # (3) link chain through PEEK
    chain, cstatus = R.peek_chain(s)
    if cstatus != 'terminated' or [c[0] for c in chain] != nums:
        viols.append(('links/%s/after-%s' % (cstatus if cstatus != 'terminated' else 'wrong-lines', tag),
                      'PEEK link chain visits %r and ends %s; model lines %r'
                      % ([c[0] for c in chain], cstatus, nums)))
    # (4) entering at each line lands where the model says
    for n in nums:
        how, tags, errline = model.run_from(n)
        r = R.run(s, b'RUN %d' % n)
        if r.exc is not None:
            viols.append(('host-exception/RUN/' + H.exc_key(r.exc), 'RUN %d raised %r' % (n, r.exc)))
            continue
        if how == 'loop':
            continue
        out = R.lines_of(r.out)
        exp = list(tags)
        if how == 'undef':
            exp.append(b'Undefined line number in %d\xff' % errline)
        if out != exp:
            viols.append(('goto/lands-wrong/after-' + tag,
                          'RUN %d printed %r, model says %r (lines %r)' % (n, out, exp, model.listing())))
    # (5) the real full rescan agrees with the incremental index (mutating: last)
    before = dict(prog.line_numbers)
    try:
        prog.rebuild_line_dict()
    except Exception as e:
        viols.append(('host-exception/rebuild/' + H.exc_key(e), 'rebuild_line_dict raised %r' % (e,)))
    else:
        if dict(prog.line_numbers) != before:
            viols.append(('index/differs-from-rebuild/after-' + tag,
                          'incremental %r, rebuild_line_dict %r' % (sorted(before.items()),
                                                                    sorted(prog.line_numbers.items()))))
        if prog.bytecode.getvalue()[:len(code)] != code:
            viols.append(('links/rebuild-changes-bytes/after-' + tag,
                          'rebuild_line_dict rewrote links: %r -> %r' % (code, prog.bytecode.getvalue())))
    return viols


def replay_history(hist):
    """Fresh session + model after hist. Returns (session, model, ok, label of the last op)."""
    s = R.bounded_session(limit=40)
    model = ProgramModel()
    label = 'start'
    for op in hist:
        r, label, _v = apply_op(s, model, tuple(op))
        if r.exc is not None:
            return s, model, False, label
    return s, model, True, label


def _expand(hist, cfgname):
    """Phase 1 (cheap): every op of the alphabet applied to the state reached by hist."""
    cfg = CONFIGS[cfgname]
    out = []
    for op in cfg['ops']:
        s, model, ok, _l = replay_history(hist)
        if not ok:
            raise CheckError('history %r no longer replays' % (hist,))
        r, label, viols = apply_op(s, model, op)
        if r.exc is not None:
            out.append((op, None, viols, label, True))
            continue
        digest, _code, _index = state_key(s)
        stop = False
        if len(model.lines) > cfg['maxlines']:
            stop = True
            label += '/cap'
        out.append((op, digest, viols, label, stop))
    return out


def check_history(hist):
    """Phase 2: all state invariants in the state reached by hist (once per canonical state)."""
    s, model, ok, label = replay_history(hist)
    if not ok:
        raise CheckError('history %r no longer replays' % (hist,))
    _digest, code, index = state_key(s)
    return check_state(s, model, label, code, index)


def expand_small(hist):
    return _expand(hist, 'small')


def expand_small2(hist):
    return _expand(hist, 'small2')


def expand_big(hist):
    return _expand(hist, 'big')


def expand_tight(hist):
    return _expand(hist, 'tight')


def work_tight(shard):
    part = Partial()
    res = R.explore_checked(expand_tight, check_history, [(('clear', TIGHT_MEMORY),)], shard['depth'], part, label='tight',
                            time_budget=shard.get('budget'))
    part.add('tight_states', res['states'])
    part.add('tight_unexpanded_frontier', res['unexpanded_frontier'])
    return part


def work_closure(shard):
    part = Partial()
    res = R.explore_checked(expand_small2 if shard.get('maxlines') == 2 else expand_small, check_history,
                            [()], shard['depth'], part, label='closure', time_budget=shard.get('budget'))
    part.add('closure_states', res['states'])
    return part


def work_depth(shard):
    part = Partial()
    res = R.explore_checked(expand_big, check_history, [()], shard['depth'], part, label='depth',
                            time_budget=shard.get('budget'))
    part.add('depth_unexpanded_frontier', res['unexpanded_frontier'])
    return part


class _KeepBytesIO(io.BytesIO):
    """Stream that survives close() so that what SAVE wrote can be read back."""

    def close(self):
        pass


def _state_viols(s, model, tag):
    _k, code, index = state_key(s)
    return check_state(s, model, tag, code, index)


def work_alignment(shard):
    """E1: the same three-line program at every byte alignment of its second and third line
    (256 consecutive lengths of the first line put every value of the low byte, and a carry into
    the high byte, into the stored link words), as typed, after a tokenised SAVE + LOAD, and
    loaded from a hand-assembled file whose (arbitrary) link words have a zero low or high byte."""
    part = Partial()
    for pad in shard['pads']:
        # (a typed line holds at most 255 characters: the padding is spread over two lines)
        hist = [('line', 5, 'x%d' % min(pad, 200)), ('line', 10, 'x%d' % (pad - min(pad, 200))),
                ('line', 20, 'p'), ('line', 30, 'g10')]
        for variant in ('typed', 'saved', 'file-lo0', 'file-hi0'):
            part.n += 1
            part.traces += 1
            case = {'pad': pad, 'variant': variant}
            if variant in ('typed', 'saved'):
                s, model, ok, _label = replay_history(hist)
                if not ok:
                    part.violation('alignment/host-exception/' + variant, 'history %r failed' % (hist,), case)
                    continue
                if variant == 'saved':
                    stream = _KeepBytesIO()
                    name = bytes(s.bind_file(stream, create=True))
                    r = R.run(s, b'SAVE "%s"' % (name,))
                    r2 = R.run(s, b'NEW')
                    name2, _st = R.bind_bytes(s, stream.getvalue())
                    r3 = R.run(s, b'LOAD "%s"' % (name2,))
                    bad = [x for x in (r, r2, r3) if x.exc is not None or x.err is not None]
                    if bad:
                        part.violation('alignment/save-load-refused', 'SAVE/NEW/LOAD of %r: %r %r'
                                       % (model.listing(), bad[0].err, bad[0].exc), case)
                        continue
            else:
                s = R.bounded_session(limit=40)
                model = ProgramModel()
                for op in hist:
                    model.enter(op[1], _body(op[1], op[2]))
                link = 0x2300 if variant == 'file-lo0' else 0x0023
                data = R.tokenised_file([(op[1], _tok_body(_body(op[1], op[2]))) for op in hist], link=link)
                if variant == 'file-hi0':
                    # link words 0x0023, 0x0024, 0x0025: zero high bytes
                    data = bytearray(data)
                    pos = 1
                    for i, op in enumerate(hist):
                        data[pos:pos+2] = bytes((0x23 + i, 0))
                        pos += 4 + len(_tok_body(_body(op[1], op[2]))) + 1
                    data = bytes(data)
                name, _st = R.bind_bytes(s, data)
                r = R.run(s, b'LOAD "%s"' % (name,))
                if r.exc is not None or r.err is not None:
                    part.violation('alignment/load-refused/' + variant, 'LOAD of a hand-assembled file: %r %r'
                                   % (r.err, r.exc), case)
                    continue
            for key, what in _state_viols(s, model, variant):
                part.violation('alignment/' + key, what + ' [%d bytes of padding, %s]' % (pad, variant), case)
            part.classes.add('alignment/%s/low-byte-%s' % (variant, 'zero' if any(c[2] % 256 == 0 for c in R.peek_chain(s)[0]) else 'nonzero'))
            part.outcome('alignment-%s-checked' % variant)
    return part


def legs(ctx):
    nsmall = len(CONFIGS['small']['ops'])
    nbig = len(CONFIGS['big']['ops'])
    if ctx.quick:
        return [
            Leg('closure', [{'depth': 64, 'maxlines': 2}], work_closure, exhaustive=True, serial=True,
                bound='fixed point of %d ops over lines {10,20,30}, programs <=2 lines expanded '
                      '(extra closure_fixed_point=1 confirms closure)' % nsmall),
            Leg('depth', [{'depth': 3}], work_depth, exhaustive=True, serial=True,
                bound='all histories of <=3 ops over %d ops, programs <=4 lines expanded' % nbig),
            Leg('alignment', [{'pads': list(range(k, 260, 16))} for k in range(16)], work_alignment, exhaustive=True,
                bound='padding 0..259 (every low byte of the link words, one carry) x typed / SAVE+LOAD / 2 hand-assembled files'),
            Leg('tight', [{'depth': 4}], work_tight, exhaustive=True, serial=True,
                bound='all histories of <=3 ops over %d ops after CLEAR ,%d (69 bytes of program memory: line entry '
                      'fails with Out of memory in many states and must leave the program as it was)' % (
                          len(CONFIGS['tight']['ops']), TIGHT_MEMORY)),
        ]
    # depth 5 = 671 k transitions / 88 k states (3.5 min on 16 idle cores, ~5 ms per transition);
    # VERIF_C13_DEPTH=4 (90 k transitions) is the fallback on a loaded machine
    depth = int(os.environ.get('VERIF_C13_DEPTH', '5'))
    return [
        Leg('closure', [{'depth': 64}], work_closure, exhaustive=True, serial=True,
            bound='fixed point of %d ops over lines {10,20,30}, programs <=3 lines expanded '
                  '(extra closure_fixed_point=1 confirms closure)' % nsmall),
        Leg('depth', [{'depth': depth}], work_depth, exhaustive=True, serial=True,
            bound='all histories of <=%d ops over %d ops, programs <=4 lines expanded' % (depth, nbig)),
        Leg('alignment', [{'pads': list(range(k, 400, 16))} for k in range(16)], work_alignment, exhaustive=True,
            bound='padding 0..399 (every low byte of the link words, two carries) x typed / SAVE+LOAD / 2 hand-assembled files'),
        Leg('tight', [{'depth': 64}], work_tight, exhaustive=True, serial=True,
            bound='fixed point of %d ops after CLEAR ,%d (69 bytes of program memory: line entry fails with Out of '
                  'memory in many states and must leave the program as it was)' % (len(CONFIGS['tight']['ops']), TIGHT_MEMORY)),
    ]


def replay(ctx, leg, case):
    if 'pad' in case:
        part = work_alignment({'pads': [case['pad']]})
        part.viol = [v for v in part.viol if v[2].get('variant') == case.get('variant')]
        return part
    part = Partial()
    hist = [tuple(None if x is None else x for x in op) for op in case['history']]
    if not hist:
        return part
    s, model, ok, _l = replay_history(hist[:-1])
    r, label, viols = apply_op(s, model, tuple(hist[-1]))
    if r.exc is None:
        _d, code, index = state_key(s)
        viols = viols + check_state(s, model, label, code, index)
    for k, w in viols:
        part.violation(k, w, case)
    part.n = 1
    return part
