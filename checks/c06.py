"""
C06 - numeric comparisons agree with the exact order of the values.

E1 (domain enumeration on the real values.eq/neq/lt/gt/lte/gte):

  pairs    ALL ordered pairs V x V of a fixed value set V of integers, singles and doubles
           (boundary integers; rounding-critical mantissas and their +-1 neighbours at the
           bottom, middle, integer-boundary and top exponent bytes, both signs; every single
           widened to double and its two double neighbours; integers as floats and their
           neighbours; non-canonical zero encodings with and without sign bit), six operators
  int-all  every one of the 65536 integers against core integers/singles/doubles, both orders

  expr     all ordered pairs of the core values in composite expressions that hold several
           comparison results at once, through the Session API (parser, evaluator, DEF FN)

Oracle: exact order of value*2^184 (Python ints, models/mbf.py).  Each result must be the
Integer -1 or 0; trichotomy and <= == NOT > (etc.) are asserted separately.
"""
import struct

from mc.core import Leg, Partial, CheckError, from_pcbasic
from mc import num
from models import mbf
from pcbasic.basic.values import values as V
from pcbasic.basic.values import numbers as N
from pcbasic.basic.base import error

PROPERTY = 'C06'
ENGINE = 'E1 domain'
LEVEL = 'model_checking'
LEVEL_TEXT = (
    'Bounded exhaustive enumeration: all ordered pairs of a fixed set of integers, singles and doubles (quick ~1.2k, '
    'thorough ~8k values: boundary integers, rounding-critical mantissas with their adjacent representable values at '
    'the extreme, middle and integer-boundary exponents, both signs, singles widened to double with their double '
    'neighbours, integers as floats, every kind of non-canonical zero) under all six relational operators on the real '
    'values.eq/neq/lt/gt/lte/gte, plus all 65536 integers against a core set; each result compared with the exact '
    'rational order computed in integer arithmetic, and trichotomy / negation consistency asserted on the results.')
LEVEL_NOTE = ('Pairs outside the value set are not covered (the set is built so that every byte position and the '
              'sign/exponent/zero special cases of the byte-wise comparison are exercised). Trusted base: models/mbf.py.')
TECHNIQUE = ('bounded exhaustive enumeration of all ordered pairs of a boundary value set across the three numeric '
             'types on the real relational operators against the exact rational order')
RULE = ('all ordered pairs of a fixed value set x six operators; a case class is (type pair, sign/zero class of each '
        'operand, exact relation); non-trivial = everything except positive canonical same-type pairs')
ASSUMPTIONS = [
    'internal seam: values.eq/neq/gt/gte/lt/lte on Integer/Single/Double objects built from bytes',
    'a float with zero exponent byte is zero whatever its mantissa and sign bit (statement: all zero encodings compare equal)',
]

BASICError = error.BASICError
CLS = {2: N.Integer, 4: N.Single, 8: N.Double}
TN = {2: 'i', 4: 's', 8: 'd'}
OPS = (('eq', V.eq), ('neq', V.neq), ('lt', V.lt), ('gt', V.gt), ('lte', V.lte), ('gte', V.gte))
TRUE = b'\xff\xff'
FALSE = b'\x00\x00'


def _with_neighbours(ms, fmt):
    s = set()
    for m in ms:
        for d in (-1, 0, 1):
            if fmt.top <= m + d <= fmt.full:
                s.add(m + d)
    return sorted(s)


def value_set(quick):
    """-> sorted list of (size, bytes)."""
    S, D = mbf.SNG, mbf.DBL
    ints = sorted(num.s16(u) for u in num.int_boundary_set())
    if quick:
        ints = mbf.pick(ints, 100)
        for must in (-32768, -1, 0, 1, 32767, 255, 256, -256, -257):
            if must not in ints:
                ints.append(must)
    exps = (1, 0x80, 0x81, 0x90, 0x98, 0xff) if quick else (1, 2, 0x7f, 0x80, 0x81, 0x90, 0x91, 0x98, 0xfe, 0xff)
    m24 = _with_neighbours(mbf.mant_set(24, 1), S)
    m56 = _with_neighbours(mbf.mant_set(56, 1), D)
    if quick:
        m24 = mbf.pick(m24, 26)
        m56 = mbf.pick(m56, 22)
    else:
        m56 = mbf.pick(m56, 120)
    out = set((2, struct.pack('<h', i)) for i in ints)
    widen = mbf.pick(m24, 8 if quick else 24)
    for neg in (False, True):
        for e in exps:
            for m in m24:
                out.add((4, S.bytes(neg, e, m)))
            for m in m56:
                out.add((8, D.bytes(neg, e, m)))
            for m in widen:
                for d in (-1, 0, 1):
                    m2 = (m << 32) + d
                    if D.top <= m2 <= D.full:
                        out.add((8, D.bytes(neg, e, m2)))
                # differs from the single only in the lowest / in one middle byte
                out.add((8, D.bytes(neg, e, (m << 32) | 0x80000000)))
                out.add((8, D.bytes(neg, e, (m << 32) | 0x00010000)))
    # integers as floats, with neighbours
    for i in mbf.pick(ints, 24 if quick else 80):
        if i == 0:
            continue
        for fmt in (S, D):
            b = mbf.int_to_fmt(fmt, i)
            neg, e, m = fmt.unbytes(b)
            for d in (-1, 0, 1):
                if fmt.top <= m + d <= fmt.full:
                    out.add((fmt.size, fmt.bytes(neg, e, m + d)))
    # zeros: canonical and non-canonical (zero exponent byte, any mantissa, either sign bit)
    for neg in (False, True):
        for m in (S.top, S.top | 1, S.full, 0xaaaaaa, 0x923456):
            out.add((4, S.bytes(neg, 0, m)))
        for m in (D.top, D.top | 1, D.full, D.top | (1 << 32), 0xaaaaaaaaaaaaaa):
            out.add((8, D.bytes(neg, 0, m)))
    return sorted(out)


def _cls(size, b, k):
    if k == 0:
        if size != 2 and b != bytes(size):
            return 'z*'
        return 'z'
    return '-' if k < 0 else '+'


def compare_pair(part, X, kx, Y, ky, sx, sy, count):
    """Six operators on one ordered pair; returns nothing, records violations."""
    e_eq = kx == ky
    e_lt = kx < ky
    e_gt = kx > ky
    expect = (e_eq, not e_eq, e_lt, e_gt, not e_gt, not e_lt)
    res = []
    live = []
    for (name, fn), e in zip(OPS, expect):
        try:
            r = fn(X, Y)
        except BASICError as ex:
            part.violation('%s/%s%s/error' % (name, TN[sx], TN[sy]), 'error %r' % ex.err, _case(X, Y))
            res.append(None)
            continue
        except Exception as ex:
            if from_pcbasic(ex):
                part.violation('%s/%s%s/host-exception/%s' % (name, TN[sx], TN[sy], type(ex).__name__), repr(ex), _case(X, Y))
                res.append(None)
                continue
            raise
        rb = bytes(r._buffer)
        live.append((name, r, rb))
        if type(r) is not N.Integer or rb not in (TRUE, FALSE):
            part.violation('%s/%s%s/not-minus-one-or-zero' % (name, TN[sx], TN[sy]),
                           '%s %s %s returned %r' % (_txt(X), name, _txt(Y), r), _case(X, Y))
            res.append(None)
            continue
        v = rb == TRUE
        res.append(v)
        if v != e:
            zx = 'zero' if (kx == 0 or ky == 0) else 'nonzero'
            part.violation('%s/%s%s/%s/wrong' % (name, TN[sx], TN[sy], zx), '%s %s %s gave %d, exact order says %d' % (
                _txt(X), name, _txt(Y), -v, -e), _case(X, Y))
    # an expression may hold any number of comparison results at once: each stays what it was
    for name, r, rb in live:
        if bytes(r._buffer) != rb:
            part.violation('result-not-stable/%s' % name, '%s %s %s: result %s became %s after later comparisons' % (
                _txt(X), name, _txt(Y), rb.hex(), bytes(r._buffer).hex()), _case(X, Y))
    if None not in res:
        eq, neq, lt, gt, lte, gte = res
        if (eq + lt + gt) != 1:
            part.violation('consistency/trichotomy/%s%s' % (TN[sx], TN[sy]), '%s vs %s: < = > gave %r' % (
                _txt(X), _txt(Y), (lt, eq, gt)), _case(X, Y))
        if lte == gt or gte == lt or neq == eq:
            part.violation('consistency/negation/%s%s' % (TN[sx], TN[sy]), '%s vs %s: eq neq lt gt lte gte = %r' % (
                _txt(X), _txt(Y), res), _case(X, Y))
    count[0] += 6


def _txt(X):
    return '%s:%s' % (TN[len(X._buffer)], bytes(X._buffer).hex())


def _case(X, Y):
    return {'sx': len(X._buffer), 'x': bytes(X._buffer), 'sy': len(Y._buffer), 'y': bytes(Y._buffer)}


def _objects(vals, vs):
    out = []
    for size, b in vs:
        out.append((CLS[size](None, vals).from_bytes(b), mbf.scaled_bytes(b), size, b))
    return out


def work_pairs(shard):
    quick, lo, hi = shard
    part = Partial()
    vals = num.make_values()
    objs = _objects(vals, value_set(quick))
    count = [0]
    classes = part.classes
    for X, kx, sx, bx in objs[lo:hi]:
        cx = _cls(sx, bx, kx)
        for Y, ky, sy, by in objs:
            compare_pair(part, X, kx, Y, ky, sx, sy, count)
            classes.add('%s%s %s%s %s' % (TN[sx], TN[sy], cx, _cls(sy, by, ky),
                                          '=' if kx == ky else ('<' if kx < ky else '>')))
        if bytes(X._buffer) != bx:
            part.violation('operand-modified', 'operand %s changed' % bx.hex(), {'sx': sx, 'x': bx, 'sy': sx, 'y': bx})
    for Y, ky, sy, by in objs:
        if bytes(Y._buffer) != by:
            part.violation('operand-modified', 'operand %s changed' % by.hex(), {'sx': sy, 'x': by, 'sy': sy, 'y': by})
    part.n = count[0]
    part.traces = part.n
    part.add('pairs', count[0] // 6)
    part.sample({'values': [lo, hi], 'of': len(objs)})
    return part


def core_values(quick):
    S, D = mbf.SNG, mbf.DBL
    ints = [-32768, -256, -1, 0, 1, 255, 32767] if quick else \
        [-32768, -32767, -16384, -257, -256, -255, -129, -128, -127, -2, -1, 0, 1, 2, 127, 128, 255, 256, 257,
         16383, 16384, 32766, 32767]
    out = [(2, struct.pack('<h', i)) for i in ints]
    for i in ((-32768, -1, 256) if quick else (-32768, -32767, -256, -1, 1, 2, 255, 256, 257, 32767)):
        for fmt in (S, D):
            b = mbf.int_to_fmt(fmt, i)
            neg, e, m = fmt.unbytes(b)
            out.append((fmt.size, b))
            if not quick:
                out.append((fmt.size, fmt.bytes(neg, e, m + 1)))
                if m - 1 >= fmt.top:
                    out.append((fmt.size, fmt.bytes(neg, e, m - 1)))
    out.append((4, bytes(4)))
    out.append((8, b'\x01\x00\x00\x00\x00\x00\x80\x00'))
    return out


def work_int_all(shard):
    quick, lo, hi = shard
    part = Partial()
    vals = num.make_values()
    core = _objects(vals, core_values(quick))
    X = N.Integer(None, vals)
    count = [0]
    for i in range(lo, hi):
        bx = struct.pack('<h', i)
        X._buffer[:] = bx
        kx = i << mbf.SCALE
        for Y, ky, sy, by in core:
            compare_pair(part, X, kx, Y, ky, 2, sy, count)
            compare_pair(part, Y, ky, X, kx, sy, 2, count)
    part.classes.add('int-all %s' % ('-' if lo < 0 else '+'))
    part.n = count[0]
    part.traces = part.n
    part.add('pairs', count[0] // 6)
    part.sample({'ints': [lo, hi], 'core': len(core)})
    return part


def _lit(size, b):
    if size == 2:
        return '%d' % struct.unpack('<h', b)[0]
    return '%s(%s)' % ('CVS' if size == 4 else 'CVD', '+'.join('CHR$(%d)' % c for c in bytearray(b)))


EXPRS = [
    # (template, expected value by relation '<', '=', '>')
    ('({a}<{b})+2*({a}={b})+4*({a}>{b})', {'<': -1, '=': -2, '>': -4}),
    ('(({a}<{b}) OR ({a}={b}))=({a}<={b})', {'<': -1, '=': -1, '>': -1}),
    ('({a}<>{b})=NOT({a}={b})', {'<': -1, '=': -1, '>': -1}),
    ('({a}>={b})=NOT({a}<{b})', {'<': -1, '=': -1, '>': -1}),
    ('FNT({a}<{b},{a}={b},{a}>{b})', {'<': -100, '=': -10, '>': -1}),
    ('({a}<{b})+(({a}={b})+({a}>{b}))', {'<': -1, '=': -1, '>': -1}),
    ('({a}<={b})+(({a}>={b})+(({a}<>{b})+({a}={b})))', {'<': -2, '=': -3, '>': -2}),
    ('({a}<{b})*100+({b}<{a})*10+({a}={b})*(1+({b}={a}))', {'<': -100, '=': 0, '>': -10}),
    ('(({a}<{b})>({a}>{b}))+2*(({a}<{b})<({a}>{b}))', {'<': -2, '=': 0, '>': -1}),
]
SUF = {2: '%', 4: '!', 8: '#'}


def work_expr(shard):
    """Composite relational expressions through the real parser and expression evaluator."""
    from mc import harness
    quick, lo, hi = shard
    part = Partial()
    core = core_values(quick)
    s = harness.new_session()
    try:
        harness.run(s, b'DEF SEG:KEY OFF')
        harness.enter_program(s, [b'10 DEF FNT(P,Q,R)=P*100+Q*10+R'])
        harness.run(s, b'RUN')
        for sx, bx in core[lo:hi]:
            kx = mbf.scaled_bytes(bx)
            a = 'A' + SUF[sx]
            for sy, by in core:
                ky = mbf.scaled_bytes(by)
                b = 'B' + SUF[sy]
                rel = '=' if kx == ky else ('<' if kx < ky else '>')
                harness.run(s, ('%s=%s:%s=%s' % (a, _lit(sx, bx), b, _lit(sy, by))).encode('latin-1'))
                for names in ((a, b), (_lit(sx, bx) if sx == 2 else a, b)):
                    for tmpl, exp in EXPRS:
                        text = 'PRINT ' + tmpl.format(a=names[0], b=names[1])
                        if len(text) > 250:
                            continue
                        r = harness.run(s, text.encode('latin-1'))
                        got = r.out.strip()
                        part.n += 1
                        if r.exc is not None and not from_pcbasic(r.exc):
                            raise r.exc
                        if r.exc is not None or got != str(exp[rel]).encode('latin-1'):
                            part.violation('expr/%s%s/wrong' % (TN[sx], TN[sy]), '%s with %s:%s, %s:%s printed %r, expected %d%s' % (
                                text, a, bx.hex(), b, by.hex(), got, exp[rel], ' (%r)' % r.exc if r.exc else ''),
                                {'sx': sx, 'x': bx, 'sy': sy, 'y': by, 'quick': quick})
                part.classes.add('expr %s%s %s' % (TN[sx], TN[sy], rel))
        part.traces = part.n
        part.sample({'core': [lo, hi], 'of': len(core)})
    finally:
        s.close()
    return part


def legs(ctx):
    q = ctx.quick
    vs = value_set(q)
    step = 8 if q else 12
    cnt = {s: sum(1 for x, _ in vs if x == s) for s in (2, 4, 8)}
    out = [Leg('pairs', [(q, lo, min(lo + step, len(vs))) for lo in range(0, len(vs), step)], work_pairs,
               exhaustive=False, bound='complete enumeration of all ordered pairs of %d values (%d integers, %d singles, %d doubles) x 6 operators' % (
                   len(vs), cnt[2], cnt[4], cnt[8]))]
    core = core_values(q)
    out.append(Leg('int-all', [(q, lo, lo + 1024) for lo in range(-32768, 32768, 1024)], work_int_all, exhaustive=False,
                   bound='complete enumeration of all 65536 integers x %d core values (integers, singles, doubles), both orders x 6 operators' % len(core)))
    out.append(Leg('expr', [(q, lo, min(lo + 2, len(core))) for lo in range(0, len(core), 2)], work_expr, exhaustive=False,
                   bound='complete enumeration of all ordered pairs of %d core values x %d composite expressions holding 2-6 '
                         'comparison results at once (sums, nested comparisons, user-function arguments), through the '
                         'Session API parser and evaluator' % (len(core), len(EXPRS))))
    return out


def replay(ctx, leg, case):
    part = Partial()
    if leg == 'expr':
        core = core_values(case.get('quick', True))
        idx = [i for i, (sz, b) in enumerate(core) if sz == case['sx'] and b == bytes(case['x'])]
        return work_expr((case.get('quick', True), idx[0], idx[0] + 1)) if idx else part
    vals = num.make_values()
    (X, kx, sx, bx), (Y, ky, sy, by) = _objects(vals, [(case['sx'], bytes(case['x'])), (case['sy'], bytes(case['y']))])
    compare_pair(part, X, kx, Y, ky, sx, sy, [0])
    return part
