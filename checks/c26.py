"""
C26 - file sharing and record locks exclude each other.

Legs
  locks-bfs     E2: BFS to the fixed point over LOCK / UNLOCK / GET / PUT / CLOSE / re-OPEN through
                BASIC statements on 2 (quick) or 3 (thorough) file numbers open on ONE random file,
                every range 1<=s<=e<=R plus the whole-file lock, <= CAP ranges held per number.
  locks-direct  E2: the same alphabet driven directly on devices.diskfiles.Locks (the anchored,
                pure mechanism) with 3 numbers and a larger R / CAP.
  openmode      E1: every ordered pair of OPEN clauses (mode x ACCESS x LOCK, both syntaxes) on
                the same file, plus re-open after CLOSE.
  openmode3     E1: every ordered triple of openings (mode x LOCK) with an optional CLOSE between.
  spelling      E1: second OPEN names the same file through a different spelling.
Reference: models.filemodels.LockModel (interval sets), written from the statement.
"""
import os
import copy

from mc.core import Leg, Partial, CheckError, chunked
from mc import bfs
from mc import harness as H
from models.filemodels import LockModel, WHOLE, overlaps, relation, pairwise_overlaps

from pcbasic.basic.base import error
from pcbasic.basic.devices import diskfiles

PROPERTY = 'C26'
ENGINE = 'E2 bfs'
LEVEL = 'model_checking'
LEVEL_TEXT = (
    'Explicit-state BFS to the fixed point of the lock-set state space: every LOCK/UNLOCK of every '
    'range 1<=s<=e<=R (R=5 quick, 5-6 thorough) and of the whole file, every GET/PUT of records 1..R+1, '
    'CLOSE and re-OPEN, through 2-3 file numbers on one file with at most CAP ranges held per number, '
    'is executed on the real interpreter (BASIC statements) and on the real Locks object and compared '
    'with an interval-set reference model in every reachable state; so every ordered pair of ranges '
    '(equal, contained, containing, overlapping, adjacent, disjoint, whole-file) is covered for the '
    'same and for different file numbers. Open-mode exclusion is decided for every ordered pair '
    '(and triple) of OPEN clauses.')
LEVEL_NOTE = (
    'Trusted: the harness reads the held ranges from LockingParameters.lock_set (internal) to compare '
    'them with the model after each step; text-file locks (range ignored) and network/SHARE semantics '
    'of ACCESS/LOCK clauses beyond OUTPUT/APPEND exclusion are not judged.')
TECHNIQUE = ('bounded exhaustive enumeration (BFS with canonical lock-set de-duplication, run to the '
             'fixed point) of lock/unlock/access histories on the real Files/Locks code against an '
             'interval-set model; exhaustive product of OPEN clause pairs/triples')
RULE = ('BFS: a state is (open flag, set of held ranges) per file number; all ops of the alphabet are '
        'applied in every state; case class = (op, geometric relation of the requested range to a held '
        'range, same/other number, outcome); non-trivial = every class except a granted lock on an '
        'empty table. openmode: case class = (mode1, mode2, outcome).')
ASSUMPTIONS = [
    'internal seam: DiskDevice._locks._locking_parameters[n].lock_set is read to observe held ranges; '
    'diskfiles.Locks is also driven directly (open_file/acquire_record_lock/release_record_lock/'
    'try_record_access/close_file)',
    'liveness reading: a LOCK that overlaps nothing held, an UNLOCK of an exactly held range and a '
    'GET/PUT of a record not locked through another number are expected to succeed (otherwise the '
    'exclusion statement would be vacuous)',
    'failure of UNLOCK / GET / PUT / a second OPEN is accepted with any BASIC error code; only the '
    'overlapping LOCK must be Permission denied (70) as the statement says',
    'all numbers in the lock legs are RANDOM files; LOCK on sequential files ignores the range '
    '(whole-file) and GW-BASIC lets GET through a lock held by an OUTPUT file: not judged',
    'open-mode: only "OUTPUT/APPEND cannot coexist with another open of the same file" is judged; '
    'the outcome of I/R after I/R under the various ACCESS/LOCK clauses is recorded, not judged',
    'known finding proposed: INPUT/RANDOM open after OUTPUT/APPEND succeeds as in GW-BASIC 3.23 '
    '(tests/basic/unsorted/LockFilesOutput)',
]

PD = error.PERMISSION_DENIED
FNAME = b'F.DAT'
FCONTENT = bytes(bytearray(range(65, 65 + 26))) * 4      # 104 bytes


# ---------------------------------------------------------------------------
# adapters: the real thing, driven through BASIC or directly on Locks

def _norm_range(r):
    s, e = r
    if s is None and e is None:
        return WHOLE
    if s is None or e is None:
        raise CheckError('unexpected half-open lock range %r' % (r,))
    return (int(s), int(e))


class BasicAdapter(object):
    """Session with FNAME open FOR RANDOM under the given numbers."""

    def __init__(self, path, numbers, clause, reclen):
        self.path = path
        self.numbers = numbers
        self.clause = clause
        self.reclen = reclen
        with open(os.path.join(path, FNAME.decode()), 'wb') as f:
            f.write(FCONTENT)
        self.s = H.new_session(devices={'C:': path}, current_device='C:')
        try:
            dev = self.s._impl.files.get_device(b'C:')
            self._lp = dev._locks._locking_parameters
        except AttributeError as e:
            raise CheckError('internal seam missing: %s' % e)
        self.exc = None
        for n in numbers:
            self.reopen(n)

    def close_session(self):
        try:
            self.s.close()
        except Exception:
            pass

    def _run(self, stmt):
        r = H.run(self.s, stmt)
        self.exc = r.exc
        if r.exc is not None:
            return ('exc', H.exc_key(r.exc))
        return r.err

    def clause_of(self, n):
        """The ACCESS / LOCK clause of number n (one clause for all numbers, or one per number)."""
        if isinstance(self.clause, tuple):
            return dict(self.clause)[n]
        return self.clause

    def excluded(self, n, kind):
        """Is GET (kind G/g) or PUT (P/p) excluded by the ACCESS clause the number was opened with?"""
        c = self.clause_of(n)
        if b'ACCESS READ WRITE' in c or b'ACCESS' not in c:
            return False
        return (b'ACCESS WRITE' in c) if kind in 'Gg' else (b'ACCESS READ' in c)

    def _open_stmt(self, n):
        return b'OPEN "%s" FOR RANDOM %sAS %d LEN=%d' % (FNAME, self.clause_of(n), n, self.reclen)

    def reopen(self, n):
        return self._run(self._open_stmt(n))

    def close(self, n):
        return self._run(b'CLOSE %d' % n)

    def close_all(self):
        return self._run(b'CLOSE')

    @staticmethod
    def _rng(rng):
        if rng == WHOLE:
            return b''
        if rng[0] == rng[1]:
            return b',%d' % rng[0]
        return b',%d TO %d' % rng

    def lock(self, n, rng):
        return self._run(b'LOCK#%d%s' % (n, self._rng(rng)))

    def unlock(self, n, rng):
        return self._run(b'UNLOCK#%d%s' % (n, self._rng(rng)))

    def access(self, n, rec, kind):
        return self._run((b'GET#%d,%d' if kind == 'G' else b'PUT#%d,%d') % (n, rec))

    def access_next(self, n, rec, kind):
        """Record `rec` reached without a record number: position on rec-1, then GET#n / PUT#n."""
        # (a number opened for writing only is positioned by a PUT)
        pos = b'PUT#%d,%d' if self.excluded(n, 'G') else b'GET#%d,%d'
        res = self._run(pos % (n, rec - 1))
        if res is not None:
            raise CheckError('positioning %s failed with %r' % (pos % (n, rec - 1), res))
        return self._run(b'GET#%d' % n if kind == 'g' else b'PUT#%d' % n)

    def locksets(self):
        out = {}
        for n in self.numbers:
            if n in self._lp:
                out[n] = set(_norm_range(r) for r in self._lp[n].lock_set)
        return out

    def snapshot(self):
        return None

    def restore(self, snap):
        raise NotImplementedError


class DirectAdapter(object):
    """diskfiles.Locks driven directly."""

    def __init__(self, numbers, lock_type):
        self.numbers = numbers
        self.lock_type = lock_type
        self.locks = diskfiles.Locks()
        for a in ('open_file', 'close_file', 'acquire_record_lock', 'release_record_lock',
                  'try_record_access', '_locking_parameters'):
            if not hasattr(self.locks, a):
                raise CheckError('internal seam missing: Locks.%s' % a)
        for n in numbers:
            self.reopen(n)

    def close_session(self):
        pass

    def _call(self, fn, *args):
        try:
            fn(*args)
        except error.BASICError as e:
            return e.err
        except Exception as e:
            from mc.core import from_pcbasic
            if from_pcbasic(e):
                return ('exc', H.exc_key(e))
            raise
        return None

    @staticmethod
    def _se(rng):
        return (None, None) if rng == WHOLE else rng

    def reopen(self, n):
        return self._call(self.locks.open_file, FNAME, n, b'R', self.lock_type, b'')

    def close(self, n):
        return self._call(self.locks.close_file, n)

    def close_all(self):
        for n in self.numbers:
            self.close(n)

    def lock(self, n, rng):
        return self._call(self.locks.acquire_record_lock, n, *self._se(rng))

    def unlock(self, n, rng):
        return self._call(self.locks.release_record_lock, n, *self._se(rng))

    def access(self, n, rec, kind):
        return self._call(self.locks.try_record_access, n, rec, rec, b'R' if kind == 'G' else b'W')

    def locksets(self):
        lp = self.locks._locking_parameters
        return {n: set(_norm_range(r) for r in lp[n].lock_set) for n in self.numbers if n in lp}

    def snapshot(self):
        return copy.deepcopy(self.locks)

    def restore(self, snap):
        self.locks = snap


# ---------------------------------------------------------------------------
# the explorer step shared by both BFS legs

def _ranges(R):
    return [(s, e) for s in range(1, R + 1) for e in range(s, R + 1)] + [WHOLE]


def _fmt_rng(r):
    return 'whole' if r == WHOLE else '%d-%d' % r


def _model_step(model, op):
    """Apply op to the reference model (used both for replay and for expectations)."""
    kind = op[0]
    if kind == 'L':
        n, rng = op[1], (op[2], op[3])
        if model.may_lock(n, rng):
            model.lock(n, rng)
    elif kind == 'U':
        n, rng = op[1], (op[2], op[3])
        if model.may_unlock(n, rng):
            model.unlock(n, rng)
    elif kind == 'C':
        model.close(op[1])
    elif kind == 'O':
        model.reopen(op[1])


def _apply(real, op):
    kind = op[0]
    if kind == 'L':
        return real.lock(op[1], (op[2], op[3]))
    if kind == 'U':
        return real.unlock(op[1], (op[2], op[3]))
    if kind in 'GP':
        return real.access(op[1], op[2], kind)
    if kind in 'gp':
        return real.access_next(op[1], op[2], kind)
    if kind == 'C':
        return real.close(op[1])
    if kind == 'O':
        return real.reopen(op[1])
    raise CheckError('bad op %r' % (op,))


def _rebuild(real, model0, ops):
    """Bring the real object to the state reached by ops from the root; returns the model."""
    real.close_all()
    for n in real.numbers:
        res = real.reopen(n)
        if res is not None:
            raise CheckError('root OPEN failed: %r' % (res,))
    model = model0.copy()
    for op in ops:
        _apply(real, op)
        _model_step(model, op)
    return model


def _candidate_ops(cfg, model):
    _, numbers, R, cap = cfg[:4]
    rngs = _ranges(R)
    ops = []
    for n in numbers:
        if not model.open[n]:
            ops.append(('O', n))
            continue
        for r in rngs:
            if model.may_lock(n, r) and len(model.held[n]) >= cap:
                continue     # bound: at most cap ranges held per number
            ops.append(('L', n, r[0], r[1]))
        for r in rngs:
            ops.append(('U', n, r[0], r[1]))
        for rec in range(1, R + 2):
            ops.append(('G', n, rec))
            ops.append(('P', n, rec))
        if cfg[0] == 'basic':
            # the same records reached without a record number (the one after the record accessed last)
            for rec in range(2, R + 2):
                if not model.locked_by_other(n, rec - 1):
                    ops.append(('g', n, rec))
                    ops.append(('p', n, rec))
        ops.append(('C', n))
    return ops


def _same(n, m):
    return 'same-number' if n == m else 'other-number'


def _check_op(real, model, op, viols):
    """Apply op on the real object, compare with the model.  Returns (info, new_model, changed)."""
    kind = op[0]
    res = _apply(real, op)
    after = model.copy()
    info = None
    if isinstance(res, tuple):
        viols.append(('%s/host-exception/%s' % (kind, res[1]),
                      'op %r raised a non-BASIC exception %s' % (op, res[1])))
        return 'host-exception', None, True
    ok = res is None
    if kind == 'L':
        n, rng = op[1], (op[2], op[3])
        conf = sorted(model.conflicts(rng))
        if not conf:
            info = 'L/free/%s' % ('granted' if ok else 'refused-%s' % res)
            if ok:
                after.lock(n, rng)
            else:
                viols.append(('lock/non-overlapping-refused',
                              'LOCK#%d %s refused (err %s) although nothing held overlaps; held=%r' % (
                                  n, _fmt_rng(rng), res, model.key())))
        else:
            m, held = conf[0]
            rel = '%s/%s' % (relation(rng, held), _same(n, m))
            if ok:
                info = 'L/%s/ACCEPTED' % rel
                viols.append(('lock/overlap-accepted/%s' % rel,
                              'LOCK#%d %s accepted while #%d holds %s (overlap); expected Permission denied' % (
                                  n, _fmt_rng(rng), m, _fmt_rng(held))))
            elif res != PD:
                info = 'L/%s/err%s' % (rel, res)
                viols.append(('lock/overlap-wrong-error/%s' % res,
                              'LOCK#%d %s overlapping #%d %s failed with error %s, expected 70' % (
                                  n, _fmt_rng(rng), m, _fmt_rng(held), res)))
            else:
                info = 'L/%s/denied' % rel
    elif kind == 'U':
        n, rng = op[1], (op[2], op[3])
        if model.may_unlock(n, rng):
            info = 'U/exact/%s' % ('ok' if ok else 'refused')
            if ok:
                after.unlock(n, rng)
            else:
                viols.append(('unlock/exact-range-refused',
                              'UNLOCK#%d %s refused (err %s) although exactly that range is held' % (
                                  n, _fmt_rng(rng), res)))
        else:
            near = sorted((m, r) for m, r in model.all_held() if overlaps(rng, r))
            if near:
                m, held = near[0]
                rel = '%s/%s' % (relation(rng, held), _same(n, m))
            else:
                rel = 'nothing-held-there'
            info = 'U/%s/%s' % (rel, 'ACCEPTED' if ok else 'refused')
            if ok:
                viols.append(('unlock/inexact-range-accepted/%s' % rel,
                              'UNLOCK#%d %s succeeded although #%d does not hold exactly that range; held=%r' % (
                                  n, _fmt_rng(rng), n, model.key())))
    elif kind in 'GPgp':
        n, rec = op[1], op[2]
        word = {'G': 'get', 'P': 'put', 'g': 'get-next', 'p': 'put-next'}[kind]
        lockers = sorted(model.locked_by_other(n, rec))
        own = any(overlaps((rec, rec), r) for r in model.held[n])
        if getattr(real, 'excluded', lambda _n, _k: False)(n, kind):
            # the number was opened without this kind of access: the transfer must fail whatever is locked
            info = '%s/excluded-by-access/%s' % (kind, 'ACCEPTED' if ok else 'refused')
            if ok:
                viols.append(('%s/accepted-without-access' % word,
                              '%s#%d,%d succeeded although #%d was opened %r' % (word.upper(), n, rec, n, real.clause_of(n))))
        elif lockers:
            info = '%s/locked-by-other/%s' % (kind, 'ACCESSIBLE' if ok else 'refused')
            if ok:
                viols.append(('%s/locked-record-accessible/%s' % (
                    word, 'whole-file' if lockers[0][1] == WHOLE else 'range'),
                    '%s#%d,%d succeeded although #%d holds %s' % (
                        word.upper(), n, rec, lockers[0][0], _fmt_rng(lockers[0][1]))))
        else:
            info = '%s/%s/%s' % (kind, 'own-lock' if own else 'unlocked', 'ok' if ok else 'refused')
            if not ok:
                viols.append(('%s/unlocked-record-refused' % word,
                              '%s#%d,%d failed (err %s) although no other number locks it; held=%r' % (
                                  word.upper(), n, rec, res, model.key())))
    elif kind == 'C':
        info = 'C/%s' % ('ok' if ok else 'err%s' % res)
        after.close(op[1])
        if not ok:
            viols.append(('close/failed', 'CLOSE %d failed with %s' % (op[1], res)))
    elif kind == 'O':
        info = 'O/%s' % ('ok' if ok else 'err%s' % res)
        if ok:
            after.reopen(op[1])
        else:
            viols.append(('reopen/refused', 'second OPEN FOR RANDOM AS %d failed with %s; held=%r' % (
                op[1], res, model.key())))
    # observe the held ranges
    real_sets = real.locksets()
    model_sets = {n: set(after.held[n]) for n in after.held if after.open[n]}
    bad = pairwise_overlaps(real_sets)
    if bad and not viols:
        viols.append(('invariant/held-ranges-overlap',
                      'after %r the held ranges overlap: %r' % (op, bad[0])))
    if real_sets != model_sets and not viols:
        viols.append(('invariant/lock-table-differs-from-model/%s' % kind,
                      'after %r lock table is %r, model %r' % (
                          op, sorted((n, sorted(s)) for n, s in real_sets.items()),
                          sorted((n, sorted(s)) for n, s in model_sets.items()))))
    changed = real_sets != {n: set(model.held[n]) for n in model.held if model.open[n]}
    return info, after, changed


def _make_real(cfg, path):
    kind, numbers = cfg[0], cfg[1]
    if kind == 'basic':
        return BasicAdapter(path, numbers, cfg[4], cfg[5])
    return DirectAdapter(numbers, cfg[4])


def _expand(hist, only_op=None):
    cfg, ops = hist[0], list(hist[1:])
    numbers = cfg[1]
    scratch = H.Scratch() if cfg[0] == 'basic' else None
    path = scratch.path if scratch else None
    real = None
    out = []
    try:
        real = _make_real(cfg, path)
        model0 = LockModel(numbers)
        model = _rebuild(real, model0, ops) if ops else model0.copy()
        rs = real.locksets()
        ms = {n: set(model.held[n]) for n in model.held if model.open[n]}
        if rs != ms:
            raise CheckError('replay of %r does not reproduce the state it was recorded with: '
                             'real %r model %r' % (hist, rs, ms))
        cands = _candidate_ops(cfg, model) if only_op is None else [tuple(only_op)]
        for op in cands:
            snap = real.snapshot()
            viols = []
            info, after, changed = _check_op(real, model, op, viols)
            if viols or after is None:
                key = None
            elif after.key() == model.key():
                key = None          # self-loop: nothing new to expand
            else:
                key = (cfg,) + after.key()
            out.append((op, key, viols, info))
            # restore the state for the next candidate
            if snap is not None:
                real.restore(snap)
            elif changed or viols or op[0] in 'CO':
                model_chk = _rebuild(real, model0, ops)
                if model_chk.key() != model.key():
                    raise CheckError('rebuild diverged')
                if real.locksets() != ms:
                    raise CheckError('rebuild of %r failed: %r' % (hist, real.locksets()))
    finally:
        if real is not None:
            real.close_session()
        if scratch is not None:
            scratch.__exit__()
    return out


def expand(hist):
    return _expand(hist)


def work_bfs(shard):
    cfg, depth = shard
    part = Partial()
    root = (cfg,)
    rk = (cfg,) + LockModel(cfg[1]).key()
    res = bfs.explore(expand, [root], depth, part, root_key=rk, label='bfs')
    part.add('levels', len(res['levels']))
    if not res['fixed_point']:
        part.add('unexpanded_frontier', res['unexpanded_frontier'])
    return part


# ---------------------------------------------------------------------------
# open-mode exclusion

MODES = [(b'', 'R'), (b'FOR INPUT ', 'I'), (b'FOR OUTPUT ', 'O'), (b'FOR APPEND ', 'A'),
         (b'FOR RANDOM ', 'R')]
ACCESSES = [b'', b'ACCESS READ ', b'ACCESS WRITE ', b'ACCESS READ WRITE ']
LOCKS = [b'', b'SHARED ', b'LOCK READ ', b'LOCK WRITE ', b'LOCK READ WRITE ']
OLD = [(b'"I"', 'I'), (b'"O"', 'O'), (b'"A"', 'A'), (b'"R"', 'R')]


def _openings(with_access=True):
    """(label, mode letter, statement template with %(n)d and %(name)s)"""
    out = []
    for mtxt, m in MODES:
        for a in (ACCESSES if with_access else ACCESSES[:1]):
            for l in LOCKS:
                clause = mtxt + a + l
                out.append((clause.decode().strip() or 'default', m, ('new', clause)))
    for mtxt, m in OLD:
        out.append(('old-' + m, m, ('old', mtxt)))
    return out


def _open_stmt(opening, n, name=FNAME):
    syn, clause = opening[2]
    if syn == 'new':
        return b'OPEN "%s" %sAS %d' % (name, clause, n)
    return b'OPEN %s,%d,"%s"' % (clause, n, name)


class OpenWorker(object):
    def __init__(self):
        self.scratch = H.Scratch()
        self.path = self.scratch.path
        self.s = H.new_session(devices={'C:': self.path}, current_device='C:')
        self.alone = {}

    def done(self):
        try:
            self.s.close()
        except Exception:
            pass
        self.scratch.__exit__()

    def reset(self):
        r = H.run(self.s, b'CLOSE')
        if r.exc is not None or r.err is not None:
            raise CheckError('CLOSE failed: %r' % r)
        with open(os.path.join(self.path, FNAME.decode()), 'wb') as f:
            f.write(b'1,2,3\r\n\x1a')

    def run(self, stmt):
        r = H.run(self.s, stmt)
        if r.exc is not None:
            return ('exc', H.exc_key(r.exc))
        return r.err

    def opens_alone(self, opening):
        """Does this OPEN clause succeed when the file is not open at all?"""
        k = opening[0]
        if k not in self.alone:
            self.reset()
            self.alone[k] = self.run(_open_stmt(opening, 2))
        return self.alone[k]


def _judge_open(part, open_now, opening, res, case, tag):
    """open_now: list of (number, mode) currently open on the file; opening tried; res outcome."""
    m2 = opening[1]
    if isinstance(res, tuple):
        part.violation('%s/host-exception/%s' % (tag, res[1]),
                       'OPEN raised %s: %r' % (res[1], case), case)
        return
    holders = [m for _, m in open_now if m in 'OA']
    others = [m for _, m in open_now]
    if res is None and holders:
        cls = 'I-or-R' if m2 in 'IR' else 'O-or-A'
        part.violation('%s/%s-after-O-or-A' % (tag, cls),
                       'file open FOR %s was opened again FOR %s (%s) without error' % (
                           holders[0], m2, opening[0]), case)
    elif res is None and m2 in 'OA' and others:
        part.violation('%s/O-or-A-after-I-or-R' % tag,
                       'file already open (modes %s) was opened FOR %s (%s) without error' % (
                           ''.join(others), m2, opening[0]), case)


def work_openpairs(shard):
    part = Partial()
    ops = _openings()
    w = OpenWorker()
    try:
        for i, j in shard:
            o1, o2 = ops[i], ops[j]
            case = {'o1': i, 'o2': j, 'first': o1[0], 'second': o2[0]}
            alone2 = w.opens_alone(o2)
            w.reset()
            r1 = w.run(_open_stmt(o1, 1))
            part.n += 1
            part.traces += 1
            if isinstance(r1, tuple):
                part.violation('openmode/host-exception/%s' % r1[1], 'first OPEN raised: %r' % (case,), case)
                continue
            if r1 is not None:
                part.outcome('first-open-invalid')
                continue
            r2 = w.run(_open_stmt(o2, 2))
            _judge_open(part, [(1, o1[1])], o2, r2, case, 'openmode')
            oc = 'ok' if r2 is None else ('err%s' % (r2,))
            part.outcome('%s-then-%s:%s' % (o1[1], o2[1], oc))
            part.classes.add('%s>%s:%s' % (o1[1], o2[1], oc))
            # until closed: after CLOSE 1 the second opening must behave as on an unopened file
            if r2 is not None and not isinstance(r2, tuple):
                w.run(b'CLOSE 1')
                r3 = w.run(_open_stmt(o2, 2))
                if alone2 is None and r3 is not None:
                    part.violation('openmode/still-excluded-after-close',
                                   'after CLOSE of the first number, OPEN %s still fails with %s' % (o2[0], r3),
                                   case)
                part.classes.add('reopen-after-close:%s' % ('ok' if r3 is None else 'err'))
        part.sample({'pairs': [list(p) for p in shard[:2]]})
    finally:
        w.done()
    return part


def work_opentriples(shard):
    part = Partial()
    ops = _openings(with_access=False)
    w = OpenWorker()
    try:
        for i, j, k, cl in shard:
            o = (ops[i], ops[j], ops[k])
            case = {'o1': i, 'o2': j, 'o3': k, 'close': cl, 'clauses': [x[0] for x in o]}
            w.reset()
            open_now = []
            part.n += 1
            part.traces += 1
            for idx in (0, 1):
                res = w.run(_open_stmt(o[idx], idx + 1))
                _judge_open(part, open_now, o[idx], res, case, 'openmode')
                if res is None:
                    open_now.append((idx + 1, o[idx][1]))
            if cl:
                w.run(b'CLOSE %d' % cl)
                open_now = [x for x in open_now if x[0] != cl]
            res = w.run(_open_stmt(o[2], 3))
            _judge_open(part, open_now, o[2], res, case, 'openmode')
            oc = 'ok' if res is None else 'err%s' % (res,)
            part.classes.add('%s|%s>%s:%s' % (
                ''.join(sorted(m for _, m in open_now)) or '-', 'c%d' % cl, o[2][1], oc[:5]))
            part.outcome('third:%s' % oc)
        part.sample({'triples': [list(p) for p in shard[:2]]})
    finally:
        w.done()
    return part


SPELLINGS = [b'F.DAT', b'f.dat', b'C:F.DAT', b'C:\\F.DAT', b'\\F.DAT', b'.\\F.DAT', b'F.dat',
             b'c:f.DAT', b'C:.\\F.DAT']
SP_MODES = [b'FOR INPUT ', b'FOR OUTPUT ', b'FOR APPEND ', b'FOR RANDOM ']


def work_spelling(shard):
    part = Partial()
    w = OpenWorker()
    try:
        for a, b, sp1, sp2 in shard:
            m1, m2 = SP_MODES[a], SP_MODES[b]
            case = {'m1': a, 'm2': b, 'sp1': sp1, 'sp2': sp2}
            w.reset()
            o1 = ('x', 'IOAR'[a], ('new', m1))
            o2 = ('%s as %s' % (m2.decode().strip(), SPELLINGS[sp2].decode()), 'IOAR'[b], ('new', m2))
            r1 = w.run(_open_stmt(o1, 1, SPELLINGS[sp1]))
            part.n += 1
            part.traces += 1
            if r1 is not None:
                part.outcome('first-failed:%r' % (r1,))
                continue
            r2 = w.run(_open_stmt(o2, 2, SPELLINGS[sp2]))
            _judge_open(part, [(1, o1[1])], o2, r2, case, 'openmode')
            part.classes.add('%s>%s:%s' % (o1[1], o2[1], 'ok' if r2 is None else 'err'))
            part.outcome('%s>%s:%s' % (o1[1], o2[1], 'ok' if r2 is None else 'err%s' % (r2,)))
    finally:
        w.done()
    return part


# ---------------------------------------------------------------------------

# two numbers opened with different, compatible clauses: one denies the others one kind of access, the
# other was opened for the complementary kind only
MIXED_CFGS = [
    (('basic', (1, 2), 3, 2, ((1, b'LOCK READ '), (2, b'ACCESS WRITE SHARED ')), 4), 40),
    (('basic', (1, 2), 3, 2, ((1, b'LOCK WRITE '), (2, b'ACCESS READ SHARED ')), 4), 40),
    (('basic', (1, 2), 3, 2, ((1, b'SHARED '), (2, b'ACCESS READ SHARED ')), 4), 40),
]


def legs(ctx):
    out = []
    if ctx.quick:
        cfgs = [(('basic', (1, 2), 5, 2, b'', 4), 40)] + MIXED_CFGS
        dcfgs = [(('direct', (1, 2, 3), 5, 2, b''), 60)]
        bound_b = ('2 numbers, ranges 1<=s<=e<=5 + whole file (16), <=2 held per number, records 1..6; '
                   '3 pairs of numbers opened with different compatible ACCESS / LOCK clauses, R=3')
        bound_d = '3 numbers, ranges 1<=s<=e<=5 + whole file (16), <=2 held per number'
    else:
        cfgs = [(('basic', (1, 2, 3), 5, 2, b'', 4), 60),
                (('basic', (1, 2), 6, 2, b'', 4), 60),
                (('basic', (1, 2), 5, 2, b'SHARED ', 2), 60)] + MIXED_CFGS
        dcfgs = [(('direct', (1, 2, 3), 6, 3, b''), 80),
                 (('direct', (1, 2, 3), 6, 2, b'SHARED'), 80)]
        bound_b = ('3 numbers, ranges 1<=s<=e<=5 + whole file (16), <=2 held per number, records 1..6; '
                   '2 numbers, ranges 1<=s<=e<=6 + whole file (22), <=2 held, records 1..7; '
                   '2 numbers opened SHARED, R=5; '
                   '3 pairs of numbers opened with different compatible ACCESS / LOCK clauses, R=3')
        bound_d = '3 numbers, ranges 1<=s<=e<=6 + whole file (22), <=3 held per number; and SHARED, <=2'
    out.append(Leg('locks-bfs', cfgs, work_bfs, exhaustive=True, serial=True,
                   bound='fixed point of the lock-table state space: ' + bound_b))
    out.append(Leg('locks-direct', dcfgs, work_bfs, exhaustive=True, serial=True,
                   bound='fixed point on diskfiles.Locks: ' + bound_d))
    n = len(_openings())
    pairs = [(i, j) for i in range(n) for j in range(n)]
    out.append(Leg('openmode', list(chunked(pairs, 120)), work_openpairs, exhaustive=True,
                   bound='all %d ordered pairs of %d OPEN clauses (5 modes x 4 ACCESS x 5 LOCK + 4 old-syntax)' % (
                       len(pairs), n)))
    sp = [(a, b, s1, s2) for a in range(4) for b in range(4)
          for s1 in range(len(SPELLINGS)) for s2 in range(len(SPELLINGS))]
    out.append(Leg('spelling', list(chunked(sp, 100)), work_spelling, exhaustive=True,
                   bound='4x4 modes x %d x %d spellings of the same file name' % (len(SPELLINGS), len(SPELLINGS))))
    if not ctx.quick:
        m = len(_openings(False))
        tr = [(i, j, k, cl) for i in range(m) for j in range(m) for k in range(m) for cl in (0, 1, 2)]
        out.append(Leg('openmode3', list(chunked(tr, 400)), work_opentriples, exhaustive=True,
                       bound='all %d ordered triples of %d OPEN clauses (5 modes x 5 LOCK + 4 old) x CLOSE none/1/2' % (
                           len(tr), m)))
    return out


def replay(ctx, leg, case):
    part = Partial()
    if leg in ('locks-bfs', 'locks-direct'):
        hist = case['history']
        hist = [tuple(tuple(y) if isinstance(y, list) else y for y in x) if isinstance(x, list) else x
                for x in hist]
        hist[0] = tuple(bytes(x) if isinstance(x, (bytes, bytearray)) else x for x in hist[0])
        succ = _expand(tuple(hist[:-1]), only_op=hist[-1])
        for op, key, viols, info in succ:
            for vkey, what in viols:
                part.violation(vkey, what, case)
        part.n = 1
        return part
    if leg == 'openmode':
        return work_openpairs([(case['o1'], case['o2'])])
    if leg == 'openmode3':
        return work_opentriples([(case['o1'], case['o2'], case['o3'], case['close'])])
    if leg == 'spelling':
        return work_spelling([(case['m1'], case['m2'], case['sp1'], case['sp2'])])
    return part
