"""
C31 - drawing primitives have their specified geometry (unclipped screen), in every graphics mode.

E1 (domain enumeration through Session.execute), per (adapter, SCREEN) graphics mode:

  pset   : every point of a k x k grid at each of the four screen corners x every attribute
           x three backgrounds: exactly that pixel becomes the attribute, POINT returns it
  line   : ALL ordered endpoint pairs of a k x k window at the top-left corner (clear background)
           and of a 5x5 window at the bottom-right corner (patterned background), + 64 long lines:
           |S| = max(|dx|,|dy|)+1, S is 8-connected, both endpoints in S, all of S in the attribute,
           nothing else changed
  box    : ALL corner pairs of a k x k window x {B, BF} x two backgrounds: exactly the outline /
           exactly the filled rectangle
  getput : sprite rectangles width {1..9,16,17} x height {1,2,3} x x-offsets 0..8 and flush with the
           right/bottom screen edge, over a patterned screen using every attribute:
           GET then PUT,PSET at the same place leaves the screen unchanged; PUT,XOR (and PUT with the
           default verb) twice at another place restores the screen
  forms  : LINE / LINE B / LINE BF / GET / PSET with STEP and omitted coordinates, for 3 positions of the
           graphics cursor: same pixels and same resulting cursor as the absolute form
  line16 : (thorough) all 65,536 ordered endpoint pairs of a 16x16 window in one mode
"""
from mc.core import Leg, Partial, CheckError, chunked
from mc import harness as H
from mc import gfxlib as G

PROPERTY = 'C31'
ENGINE = 'E1 domain'
LEVEL = 'model_checking'
LEVEL_TEXT = (
    'Bounded exhaustive enumeration in every (adapter, SCREEN) graphics mode of modes._MODES: every '
    'PSET of a 5x5 grid at each screen corner with every attribute on three backgrounds; every line '
    'between two points of a 9x9 window (6,561 ordered pairs: all octants, horizontal, vertical, single '
    'point; 65,536 pairs of a 16x16 window in one mode) plus 64 screen-spanning lines; every rectangle '
    'of a 6x6 window with B and BF; GET/PUT-PSET and PUT-XOR-twice identities for 33 sprite sizes at '
    'every bit alignment 0..8 and flush with the screen edges. The whole page is compared after every '
    'statement, so "exactly" is decided on all pixels, not only near the shape.'
)
LEVEL_NOTE = (
    'Trusted: page pixel matrix read at display.pages[0]._pixels (asserted equal to Session.get_pixels()); '
    'backgrounds are poked through the same rows. The reference is set arithmetic written from the statement.'
)
TECHNIQUE = ('bounded exhaustive enumeration of endpoints / rectangles / sprite rectangles / attributes per '
             'graphics mode on the real interpreter (Session.execute, Session.evaluate for POINT) against '
             'set-semantics oracles on full page snapshots')
RULE = ('full product of window coordinates (and attributes, backgrounds) per mode; a case class is '
        '(leg, mode name, shape class: octant/slope class for lines, degenerate/normal/reversed-corner for '
        'boxes, width mod 8 + alignment for sprites); non-trivial = every class except the single-point line '
        'and the 1x1 box')
ASSUMPTIONS = [
    'internal seam: display.pages[0]._pixels._rows (read; written only to lay backgrounds)',
    'attributes outside 0..num_attr-1 given to PSET: the statement does not say which value is stored; only '
    '"no other pixel changes and POINT returns what is stored" is required',
    'Tandy/PCjr SCREEN 6: GET (x0,y0)-(x1,y1) takes twice the requested width (GW-BASIC quirk reproduced by '
    'pcbasic); the identities are checked as stated (same place / twice) and the rectangles are chosen so the '
    'doubled width fits on the screen',
    'PUT with AND/OR/PRESET is not constrained by the statement and is not checked',
    'whether PUT,PSET restores a region erased after GET, and whether the first PUT,XOR changes anything, is '
    'recorded in the outcome histogram (non-vacuity), not judged',
]


# ---------------------------------------------------------------------------
# common

class Scr(object):
    """Session in a graphics mode with a known template on page 0."""

    def __init__(self, adapter, nr, name):
        g = self.g = G.Gfx(adapter, nr)
        if g.mode.name != name:
            raise CheckError('mode name mismatch %s != %s' % (g.mode.name, name))
        if g.apagenum != 0 or g.vpagenum != 0:
            raise CheckError('expected page 0')
        g.assert_seam()
        self.W, self.H = g.w, g.h
        self.tmpl = None
        self.tag = '%s/%d' % (adapter, nr)

    def background(self, kind):
        """'clear' | 'full' | 'checker' | 'checker2' | 'pattern' -> template rows."""
        g = self.g
        W, Hh = self.W, self.H
        if kind == 'clear':
            rows = [bytes(W)] * Hh
        elif kind == 'full':
            rows = [bytes([g.maxattr]) * W] * Hh
        elif kind == 'checker':
            a = (bytes([1, 0]) * W)[:W]
            b = (bytes([0, 1]) * W)[:W]
            rows = [a if y % 2 == 0 else b for y in range(Hh)]
        elif kind == 'checker2':
            # two non-zero attributes, both different from maxattr (needs >= 4 attributes)
            a = (bytes([1, 2]) * W)[:W]
            b = (bytes([2, 1]) * W)[:W]
            rows = [a if y % 2 == 0 else b for y in range(Hh)]
        elif kind == 'pattern':
            n = g.nattr
            rows = [bytes((x * 7 + y * 3 + x // 3 + (y // 2) * (x // 5)) % n for x in range(W)) for y in range(Hh)]
        else:
            raise CheckError('unknown background ' + kind)
        self.tmpl = rows
        g.poke(0, rows)
        self.bgkind = kind
        return rows

    def diff(self, xlim=None):
        """Changed pixels relative to the template -> dict (x,y)->value; restores the template.
        xlim=(lo,hi): columns scanned individually; any difference outside is still found."""
        out = {}
        rows = self.g.rows(0)
        tmpl = self.tmpl
        if rows == tmpl:
            return out
        W = self.W
        for y, row in enumerate(rows):
            t = tmpl[y]
            if row == t:
                continue
            if xlim and row[:xlim[0]] == t[:xlim[0]] and row[xlim[1] + 1:] == t[xlim[1] + 1:]:
                rng = range(xlim[0], min(W, xlim[1] + 1))
            else:
                rng = range(W)
            for x in rng:
                if row[x] != t[x]:
                    out[(x, y)] = row[x]
            row[:] = t
        return out

    def other_pages_clean(self):
        g = self.g
        for p in range(1, g.npages):
            for row in g.rows(p):
                if row.count(0) != len(row):
                    return False
        return True

    def close(self):
        self.g.close()


def _run(scr, part, stmt, key, case):
    """Execute; BASIC error or host exception are violations here (all inputs are valid)."""
    r = H.run(scr.g.s, stmt)
    part.traces += 1
    if r.exc is not None:
        part.violation('%s/host-exception/%s' % (key, H.exc_key(r.exc)),
                       '%s: %r raised %r' % (scr.tag, stmt, r.exc), case)
        return False
    if r.err is not None:
        part.violation('%s/basic-error-%d' % (key, r.err),
                       '%s: %r gave error %d on an unclipped screen' % (scr.tag, stmt, r.err), case)
        scr.g.must(b'CLS')
        scr.g.poke(0, scr.tmpl)
        return False
    return True


# ---------------------------------------------------------------------------
# PSET / POINT

def _pset_points(scr, k):
    W, Hh = scr.W, scr.H
    pts = []
    for (ox, oy) in ((0, 0), (W - k, 0), (0, Hh - k), (W - k, Hh - k)):
        for y in range(k):
            for x in range(k):
                pts.append((ox + x, oy + y))
    return pts


def _pset_case(scr, part, bg, x, y, c, form='attr'):
    g = scr.g
    case = {'mode': [g.adapter, g.nr, g.mode.name], 'leg': 'pset', 'bg': bg, 'x': x, 'y': y, 'c': c, 'form': form}
    if form == 'attr':
        stmt = b'PSET (%d,%d),%d' % (x, y, c)
    elif form == 'preset-attr':
        stmt = b'PRESET (%d,%d),%d' % (x, y, c)
    elif form == 'pset':
        stmt, c = b'PSET (%d,%d)' % (x, y), g.mode.attr
    else:
        stmt, c = b'PRESET (%d,%d)' % (x, y), 0
    part.n += 1
    if not _run(scr, part, stmt, 'pset', case):
        return
    try:
        pt = g.s.evaluate(b'POINT(%d,%d)' % (x, y))
    except Exception as e:
        part.violation('point/host-exception/%s' % H.exc_key(e), '%s POINT(%d,%d): %r' % (scr.tag, x, y, e), case)
        pt = None
    stored = g.rows(0)[y][x]
    d = scr.diff()
    valid = 0 <= c < g.nattr
    exp = {(x, y): c} if (valid and scr.tmpl[y][x] != c) else {}
    if valid:
        if d != exp:
            extra = sorted(set(d) - {(x, y)})
            if extra:
                part.violation('pset/extra-pixels', '%s bg=%s: %r changed %r' % (scr.tag, bg, stmt, extra[:6]), case)
            else:
                part.violation('pset/wrong-pixel-value',
                               '%s bg=%s: %r left pixel (%d,%d) = %r, expected %d' % (
                                   scr.tag, bg, stmt, x, y, stored, c), case)
        if pt != c:
            part.violation('pset/point-disagrees',
                           '%s bg=%s: after %r POINT(%d,%d) = %r, expected %d' % (scr.tag, bg, stmt, x, y, pt, c), case)
        part.classes.add('pset/%s/%s' % (g.mode.name, bg))
        part.classes.add('pset/form-%s' % form)
    else:
        extra = sorted(set(d) - {(x, y)})
        if extra:
            part.violation('pset/extra-pixels', '%s bg=%s: %r changed %r' % (scr.tag, bg, stmt, extra[:6]), case)
        if pt != stored:
            part.violation('pset/point-disagrees-with-stored',
                           '%s: after %r pixel holds %r but POINT returns %r' % (scr.tag, stmt, stored, pt), case)
        part.classes.add('pset/%s/%s/out-of-range-attr' % (g.mode.name, bg))
    part.outcome('pset:%s' % ('set' if d else 'same-value'))


def work_pset(shard):
    (adapter, nr, name), k = shard
    part = Partial()
    scr = Scr(adapter, nr, name)
    try:
        g = scr.g
        pts = _pset_points(scr, k)
        for bg in ('clear', 'full', 'checker'):
            scr.background(bg)
            for (x, y) in pts:
                for c in range(g.nattr):
                    _pset_case(scr, part, bg, x, y, c)
            for (x, y) in (pts[0], pts[-1], pts[k - 1], pts[len(pts) // 2]):
                for form in ('pset', 'preset', 'preset-attr'):
                    _pset_case(scr, part, bg, x, y, g.maxattr, form)
                for c in (g.nattr, 255):
                    _pset_case(scr, part, bg, x, y, c)
        if not scr.other_pages_clean():
            part.violation('pset/other-page-changed', '%s: a page other than 0 changed' % scr.tag,
                           {'mode': [adapter, nr, name], 'leg': 'pset-pages'})
        part.sample({'mode': [adapter, nr, name], 'leg': 'pset', 'k': k})
    finally:
        scr.close()
    return part


# ---------------------------------------------------------------------------
# LINE

def _connected8(S):
    if not S:
        return True
    S = set(S)
    start = next(iter(S))
    seen = {start}
    stack = [start]
    while stack:
        x, y = stack.pop()
        for dx in (-1, 0, 1):
            for dy in (-1, 0, 1):
                q = (x + dx, y + dy)
                if q in S and q not in seen:
                    seen.add(q)
                    stack.append(q)
    return len(seen) == len(S)


def _slope_class(x0, y0, x1, y1):
    dx, dy = x1 - x0, y1 - y0
    if dx == 0 and dy == 0:
        return 'point'
    if dy == 0:
        return 'h+' if dx > 0 else 'h-'
    if dx == 0:
        return 'v+' if dy > 0 else 'v-'
    if abs(dx) == abs(dy):
        return 'd%s%s' % ('+' if dx > 0 else '-', '+' if dy > 0 else '-')
    return '%s%s%s' % ('x' if abs(dx) > abs(dy) else 'y', '+' if dx > 0 else '-', '+' if dy > 0 else '-')


def _line_case(scr, part, x0, y0, x1, y1, c, xlim=None, leg='line'):
    g = scr.g
    case = {'mode': [g.adapter, g.nr, g.mode.name], 'leg': leg, 'bg': scr.bgkind,
            'p': [x0, y0, x1, y1], 'c': c}
    stmt = b'LINE (%d,%d)-(%d,%d),%d' % (x0, y0, x1, y1, c)
    part.n += 1
    if not _run(scr, part, stmt, 'line', case):
        return
    d = scr.diff(xlim)
    S = set(d)
    n_exp = max(abs(x1 - x0), abs(y1 - y0)) + 1
    sc = _slope_class(x0, y0, x1, y1)
    msg = '%s bg=%s: %r' % (scr.tag, scr.bgkind, stmt)
    wrong = [p for p, v in d.items() if v != c]
    if wrong:
        part.violation('line/wrong-attribute/%s' % sc, '%s: pixels %r not in attribute %d' % (msg, wrong[:4], c), case)
    if len(S) != n_exp:
        part.violation('line/pixel-count/%s' % sc,
                       '%s: %d pixels set, expected max(|dx|,|dy|)+1 = %d: %r' % (msg, len(S), n_exp, sorted(S)[:12]), case)
    if (x0, y0) not in S or (x1, y1) not in S:
        part.violation('line/endpoint-missing/%s' % sc, '%s: set %r' % (msg, sorted(S)[:12]), case)
    if not _connected8(S):
        part.violation('line/not-8-connected/%s' % sc, '%s: set %r' % (msg, sorted(S)[:12]), case)
    part.classes.add('%s/%s' % (leg, g.mode.name))
    part.classes.add('%s/%s/%s' % (leg, scr.bgkind, sc))
    part.outcome('line:%s' % sc)


def _long_points(W, Hh):
    return [(0, 0), (W - 1, 0), (0, Hh - 1), (W - 1, Hh - 1), (W // 2, Hh // 3), (17, Hh - 1), (W - 1, 23), (W // 3, 0)]


def work_line(shard):
    (adapter, nr, name), k, part_id = shard
    part = Partial()
    scr = Scr(adapter, nr, name)
    try:
        g = scr.g
        W, Hh = scr.W, scr.H
        if part_id >= 0:
            # all lines starting in column x0 = part_id of the top-left window
            scr.background('clear')
            x0 = part_id
            for y0 in range(k):
                for x1 in range(k):
                    for y1 in range(k):
                        _line_case(scr, part, x0, y0, x1, y1, 1, (0, k))
        else:
            # bottom-right 5x5 window on a patterned background, colour different from the pattern
            if g.nattr > 2:
                scr.background('checker2')
                c = g.maxattr
            else:
                scr.background('full')
                c = 0
            ox, oy = W - 5, Hh - 5
            for x0 in range(5):
                for y0 in range(5):
                    for x1 in range(5):
                        for y1 in range(5):
                            _line_case(scr, part, ox + x0, oy + y0, ox + x1, oy + y1, c, (ox - 1, W - 1))
            scr.background('clear')
            pts = _long_points(W, Hh)
            for p0 in pts:
                for p1 in pts:
                    _line_case(scr, part, p0[0], p0[1], p1[0], p1[1], g.maxattr)
            if not scr.other_pages_clean():
                part.violation('line/other-page-changed', '%s: a page other than 0 changed' % scr.tag,
                               {'mode': [adapter, nr, name], 'leg': 'line-pages'})
        part.sample({'mode': [adapter, nr, name], 'leg': 'line', 'k': k, 'part': part_id})
    finally:
        scr.close()
    return part


def work_line16(shard):
    (adapter, nr, name), x0, y0s = shard
    part = Partial()
    scr = Scr(adapter, nr, name)
    try:
        scr.background('clear')
        for y0 in y0s:
            for x1 in range(16):
                for y1 in range(16):
                    _line_case(scr, part, x0, y0, x1, y1, 1, (0, 16), leg='line16')
        part.sample({'mode': [adapter, nr, name], 'leg': 'line16', 'x0': x0})
    finally:
        scr.close()
    return part


# ---------------------------------------------------------------------------
# LINE ,B  and ,BF

def _box_case(scr, part, x0, y0, x1, y1, c, shape, xlim):
    g = scr.g
    case = {'mode': [g.adapter, g.nr, g.mode.name], 'leg': 'box', 'bg': scr.bgkind,
            'p': [x0, y0, x1, y1], 'c': c, 'shape': shape}
    stmt = b'LINE (%d,%d)-(%d,%d),%d,%s' % (x0, y0, x1, y1, c, shape.encode())
    part.n += 1
    if not _run(scr, part, stmt, 'box', case):
        return
    d = scr.diff(xlim)
    xa, xb = min(x0, x1), max(x0, x1)
    ya, yb = min(y0, y1), max(y0, y1)
    if shape == 'BF':
        exp = {(x, y) for x in range(xa, xb + 1) for y in range(ya, yb + 1)}
    else:
        exp = {(x, y) for x in range(xa, xb + 1) for y in (ya, yb)} | \
              {(x, y) for y in range(ya, yb + 1) for x in (xa, xb)}
    # pixels of the shape that already had the attribute do not show up as changed
    visible = {p for p in exp if scr.tmpl[p[1]][p[0]] != c}
    S = set(d)
    cls = 'degenerate' if (xa == xb or ya == yb) else ('normal' if (x0 <= x1 and y0 <= y1) else 'reversed')
    msg = '%s bg=%s: %r' % (scr.tag, scr.bgkind, stmt)
    if S - exp:
        part.violation('box-%s/extra-pixels/%s' % (shape, cls),
                       '%s: pixels outside the %s set: %r' % (msg, 'rectangle' if shape == 'BF' else 'outline',
                                                               sorted(S - exp)[:8]), case)
    if visible - S:
        part.violation('box-%s/missing-pixels/%s' % (shape, cls), '%s: not set: %r' % (msg, sorted(visible - S)[:8]), case)
    wrong = [p for p, v in d.items() if v != c]
    if wrong:
        part.violation('box-%s/wrong-attribute/%s' % (shape, cls), '%s: pixels %r not %d' % (msg, wrong[:4], c), case)
    part.classes.add('box/%s' % g.mode.name)
    part.classes.add('box/%s/%s/%s' % (shape, cls, scr.bgkind))
    part.outcome('box-%s:%s' % (shape, cls))


def work_box(shard):
    (adapter, nr, name), k = shard
    part = Partial()
    scr = Scr(adapter, nr, name)
    try:
        g = scr.g
        W, Hh = scr.W, scr.H
        for bg, c, (ox, oy) in (('clear', 1, (0, 0)),
                                ('checker2' if g.nattr > 2 else 'checker', g.maxattr, (W - k, Hh - k))):
            scr.background(bg)
            for x0 in range(k):
                for y0 in range(k):
                    for x1 in range(k):
                        for y1 in range(k):
                            for shape in ('B', 'BF'):
                                _box_case(scr, part, ox + x0, oy + y0, ox + x1, oy + y1, c, shape,
                                          (max(0, ox - 1), min(W - 1, ox + k)))
        # a few screen-sized boxes
        scr.background('clear')
        for (x0, y0, x1, y1) in ((0, 0, W - 1, Hh - 1), (W - 1, Hh - 1, 0, 0), (3, Hh - 2, W - 4, 1), (W - 1, 0, W - 1, Hh - 1)):
            for shape in ('B', 'BF'):
                _box_case(scr, part, x0, y0, x1, y1, g.maxattr, shape, None)
        if not scr.other_pages_clean():
            part.violation('box/other-page-changed', '%s: a page other than 0 changed' % scr.tag,
                           {'mode': [adapter, nr, name], 'leg': 'box-pages'})
        part.sample({'mode': [adapter, nr, name], 'leg': 'box', 'k': k})
    finally:
        scr.close()
    return part


# ---------------------------------------------------------------------------
# GET / PUT

def _getput_rects(scr, quick):
    W, Hh = scr.W, scr.H
    f = scr.g.wfactor
    if quick:
        widths, heights, xoffs = (1, 2, 3, 7, 8, 9, 17), (1, 3), (0, 1, 5)
    else:
        widths, heights, xoffs = (1, 2, 3, 4, 5, 6, 7, 8, 9, 16, 17), (1, 2, 3), tuple(range(9))
    rects = []
    for w in widths:
        for h in heights:
            for x in list(xoffs) + [W - w * f]:
                for y in ((0,) if quick else (0, Hh - h)):
                    rects.append((x, y, w, h))
    return rects


def _getput_case(scr, part, x, y, w, h):
    g = scr.g
    f = g.wfactor
    W, Hh = scr.W, scr.H
    case = {'mode': [g.adapter, g.nr, g.mode.name], 'leg': 'getput', 'rect': [x, y, w, h]}
    tag = '%s rect x=%d y=%d w=%d h=%d' % (scr.tag, x, y, w, h)
    rw = w * f
    cls = 'w%d/x%d' % (w % 8 if w < 16 else w, x % 8)
    part.classes.add('getput/%s' % g.mode.name)
    part.classes.add('getput/%s' % cls)
    part.n += 1
    # GET must not change the screen
    # (the two corners in any of the four orders, rotating with the rectangle)
    xa, ya, xb, yb = x, y, x + w - 1, y + h - 1
    order = (x + y + w + h) % 4
    if order & 1:
        xa, xb = xb, xa
    if order & 2:
        ya, yb = yb, ya
    case['corner_order'] = order
    part.classes.add('getput/corner-order-%d' % order)
    if not _run(scr, part, b'GET (%d,%d)-(%d,%d),A%%' % (xa, ya, xb, yb), 'get', case):
        return
    d = scr.diff()
    if d:
        part.violation('get/changed-screen', '%s: GET changed %r' % (tag, sorted(d)[:6]), case)
    # PUT ,PSET at the same place: unchanged
    if not _run(scr, part, b'PUT (%d,%d),A%%,PSET' % (x, y), 'put-pset', case):
        return
    d = scr.diff()
    if d:
        part.violation('getput-pset/screen-changed/%s' % cls,
                       '%s: GET then PUT,PSET at the same place changed %r' % (
                           tag, [(p, v, scr.tmpl[p[1]][p[0]]) for p, v in sorted(d.items())[:6]]), case)
    # the same with the first corner written as a fraction (a literal and a variable holding x.5): GET and PUT resolve
    # the same expression to the same pixel, so putting the block back where it was taken changes nothing
    if w >= 2 and h >= 2 and order == 0:
        if _run(scr, part, b'FY#=%d.5:GET (%d.5,FY#)-(%d,%d),A%%' % (y, x, xb, yb), 'get', case) and \
                _run(scr, part, b'FX!=%d.5:PUT (FX!,%d.5),A%%,PSET' % (x, y), 'put-pset', case):
            d = scr.diff()
            if d:
                part.violation('getput-pset/screen-changed/fractional-corner',
                               '%s: GET (%d.5,FY#)-(%d,%d) then PUT (FX!,%d.5),PSET changed %r' % (
                                   tag, x, xb, yb, y, sorted(d)[:6]), case)
                scr.restore() if hasattr(scr, 'restore') else None
        _run(scr, part, b'GET (%d,%d)-(%d,%d),A%%' % (xa, ya, xb, yb), 'get', case)
    # observation only: PUT,PSET onto the erased region brings the content back?
    rows = g.rows(0)
    for yy in range(y, y + h):
        rows[yy][x:x + rw] = bytes(rw)
    if _run(scr, part, b'PUT (%d,%d),A%%,PSET' % (x, y), 'put-pset', case):
        part.outcome('getput:pset-restores-erased-region' if not scr.diff() else 'getput:pset-does-not-restore-erased')
    # PUT ,XOR twice somewhere else (different bit alignment and different content underneath)
    x2 = x + 3 if x + 3 + rw <= W else x - 3
    y2 = y + 1 if y + 1 + h <= Hh else y - 1
    for verb in (b',XOR', b''):
        st = b'PUT (%d,%d),A%%%s' % (x2, y2, verb)
        if not _run(scr, part, st, 'put-xor', case):
            return
        changed_once = g.rows(0) != scr.tmpl
        if not _run(scr, part, st, 'put-xor', case):
            return
        d = scr.diff()
        if d:
            part.violation('put-xor-twice/not-restored/%s' % cls,
                           '%s: %r applied twice left %r' % (
                               tag, st, [(p, v, scr.tmpl[p[1]][p[0]]) for p, v in sorted(d.items())[:6]]), case)
        part.outcome('getput:xor-first-put-%s' % ('changed' if changed_once else 'nochange'))
        part.n += 1


def work_getput(shard):
    (adapter, nr, name), quick, lo, hi = shard
    part = Partial()
    scr = Scr(adapter, nr, name)
    try:
        g = scr.g
        g.must(b'DIM A%(200)')
        scr.background('pattern')
        rects = _getput_rects(scr, quick)[lo:hi]
        for (x, y, w, h) in rects:
            _getput_case(scr, part, x, y, w, h)
        if not scr.other_pages_clean():
            part.violation('getput/other-page-changed', '%s: a page other than 0 changed' % scr.tag,
                           {'mode': [adapter, nr, name], 'leg': 'getput-pages'})
        part.sample({'mode': [adapter, nr, name], 'leg': 'getput', 'rects': len(rects)})
    finally:
        scr.close()
    return part


# ---------------------------------------------------------------------------
# coordinate forms: STEP and omitted first points must denote the same points as absolute coordinates

FORM_KINDS = ('line', 'box', 'boxf', 'get', 'pset')


def _form_stmts(kind, form, x0, y0, x1, y1, c, cur):
    """-> statement text for (kind, form), given the graphics cursor `cur` before the statement."""
    cx, cy = cur
    p0 = {'abs': b'(%d,%d)' % (x0, y0), 'step': b'STEP(%d,%d)' % (x0 - cx, y0 - cy), 'omit': b''}[form[0]]
    p1 = {'abs': b'(%d,%d)' % (x1, y1), 'step': b'STEP(%d,%d)' % (x1 - x0, y1 - y0), None: None}[form[1]]
    if kind == 'pset':
        return b'PSET %s,%d' % (p0, c)
    if kind == 'get':
        return b'GET %s-%s,A%%' % (p0, p1)
    tail = {'line': b'', 'box': b',B', 'boxf': b',BF'}[kind]
    return b'LINE %s-%s,%d%s' % (p0, p1, c, tail)


def _forms_of(kind):
    if kind == 'pset':
        return [('abs', None), ('step', None)]
    if kind == 'get':
        # GET (x0,y0)-[STEP](x1,y1): the first point is always absolute
        return [('abs', 'abs'), ('abs', 'step')]
    out = [('abs', 'abs'), ('abs', 'step'), ('step', 'abs'), ('step', 'step'), ('omit', 'abs'), ('omit', 'step')]
    return out


def _forms_case(scr, part, kind, x0, y0, x1, y1, cursors):
    g = scr.g
    c = g.maxattr
    results = {}
    for cur, parkby in [(cu, 'pset') for cu in cursors] + [(cursors[1], 'draw')]:
        for form in _forms_of(kind):
            case = {'mode': [g.adapter, g.nr, g.mode.name], 'leg': 'forms', 'kind': kind, 'p': [x0, y0, x1, y1],
                    'cursor': list(cur), 'form': list(form), 'parkby': parkby}
            if kind == 'pset':
                xx0, yy0 = x1, y1
            else:
                xx0, yy0 = x0, y0
            # park the cursor without changing a pixel; an omitted first point *is* the cursor
            park = (xx0, yy0) if form[0] == 'omit' else cur
            if parkby == 'draw':
                # the cursor as DRAW leaves it (a blind move plots nothing)
                if not _run(scr, part, b'DRAW "BM%d,%d"' % (park[0], park[1]), 'forms', case):
                    return
            elif not _run(scr, part, b'PSET (%d,%d),%d' % (park[0], park[1], scr.tmpl[park[1]][park[0]]), 'forms', case):
                return
            stmt = _form_stmts(kind, form, xx0, yy0, x1, y1, c, park)
            part.n += 1
            if not _run(scr, part, stmt, 'forms', case):
                return
            if kind == 'get':
                # what was captured: put it elsewhere
                if not _run(scr, part, b'PUT (30,20),A%,PSET', 'forms', case):
                    return
            d1 = scr.diff()
            # where the cursor is now
            if not _run(scr, part, b'PSET STEP(0,0),%d' % (c - 1), 'forms', case):
                return
            d2 = scr.diff()
            res = (tuple(sorted(d1.items())), tuple(sorted(d2)))
            results[(cur, form, parkby)] = (res, stmt, case)
    base = results[(cursors[0], _forms_of(kind)[0], 'pset')]
    for key, (res, stmt, case) in results.items():
        if res[0] != base[0][0]:
            part.violation('forms/%s/%s-%s/pixels-differ-from-absolute-form' % (kind, key[1][0], key[1][1]),
                           '%s: %r with the cursor put at %r by %s changes %r; %r changes %r' % (
                               scr.tag, stmt, key[0], key[2].upper(), res[0][:6], base[1], base[0][0][:6]), case)
        elif res[1] != base[0][1]:
            part.violation('forms/%s/%s-%s/cursor-differs-from-absolute-form' % (kind, key[1][0], key[1][1]),
                           '%s: after %r the graphics cursor is at %r; after %r at %r' % (
                               scr.tag, stmt, res[1], base[1], base[0][1]), case)
    part.classes.add('forms/%s/%s' % (g.mode.name, kind))
    part.outcome('forms:%s' % kind)


def work_forms(shard):
    (adapter, nr, name), k = shard
    part = Partial()
    scr = Scr(adapter, nr, name)
    try:
        scr.g.must(b'DIM A%(200)')
        scr.background('pattern')
        cursors = [(0, 0), (41, 23), (7, 5)]
        pts = [(5 + i, 4 + j) for i in range(k) for j in range(k)]
        for kind in FORM_KINDS:
            for (x0, y0) in (pts if kind != 'pset' else pts[:1]):
                for (x1, y1) in pts:
                    if kind == 'get' and (x1 < x0 or y1 < y0):
                        continue
                    _forms_case(scr, part, kind, x0, y0, x1, y1, cursors)
        part.sample({'mode': [adapter, nr, name], 'leg': 'forms', 'window': k})
    finally:
        scr.close()
    return part


# ---------------------------------------------------------------------------

def legs(ctx):
    modes = G.graphics_modes()
    q = ctx.quick
    kp, kl, kb = (3, 5, 4) if q else (5, 9, 6)
    out = [
        Leg('pset', [(m, kp) for m in modes], work_pset, exhaustive=True,
            bound='%d modes x 4 corners x %dx%d grid x all attributes (+2 out-of-range) x 3 backgrounds' % (
                len(modes), kp, kp)),
        Leg('line', [(m, kl, pid) for m in modes for pid in list(range(kl)) + [-1]], work_line, exhaustive=True,
            bound='%d modes x (all %d ordered endpoint pairs of a %dx%d window + 625 of a 5x5 window on a '
                  'patterned background + 64 long lines)' % (len(modes), kl ** 4, kl, kl)),
        Leg('box', [(m, kb) for m in modes], work_box, exhaustive=True,
            bound='%d modes x all %d corner pairs of a %dx%d window x {B,BF} x 2 backgrounds + 8 screen-sized' % (
                len(modes), kb ** 4, kb, kb)),
    ]
    shards = []
    nrect = None
    for m in modes:
        # number of rectangles does not depend on the mode
        n = (7 * 2 * 4) if q else (11 * 3 * 10 * 2)
        step = n if q else 110
        for lo in range(0, n, step):
            shards.append((m, q, lo, lo + step))
        nrect = n
    out.append(Leg('getput', shards, work_getput, exhaustive=True,
                   bound='%d modes x %d sprite rectangles (widths %s x heights %s x x-offsets %s + flush right%s) '
                         'x {GET+PUT PSET, PUT XOR twice, PUT default twice}' % (
                             len(modes), nrect, '1,2,3,7,8,9,17' if q else '1..9,16,17', '1,3' if q else '1,2,3',
                             '0,1,5' if q else '0..8', '' if q else ', top and bottom')))
    kf = 2 if q else 3
    out.append(Leg('forms', [(m, kf) for m in modes], work_forms, exhaustive=True,
                   bound='%d modes x {LINE, LINE B, LINE BF, GET, PSET} x all point pairs of a %dx%d window x every '
                         'combination of absolute / STEP / omitted first point and absolute / STEP second point x 3 '
                         'positions of the graphics cursor (left there by PSET, one also by DRAW): same pixels and same resulting cursor as the absolute form' % (
                             len(modes), kf, kf)))
    if not q:
        m = modes[0]
        shards = [(m, x0, list(range(y, y + 4))) for x0 in range(16) for y in range(0, 16, 4)]
        out.append(Leg('line16', shards, work_line16, exhaustive=True,
                       bound='all 65,536 ordered endpoint pairs of a 16x16 window in %s SCREEN %d' % (m[0], m[1])))
    return out


def replay(ctx, leg, case):
    part = Partial()
    adapter, nr, name = case['mode']
    scr = Scr(adapter, nr, name)
    try:
        g = scr.g
        sub = case.get('leg')
        if sub == 'pset':
            scr.background(case['bg'])
            _pset_case(scr, part, case['bg'], case['x'], case['y'], case['c'], case.get('form', 'attr'))
        elif sub in ('line', 'line16'):
            scr.background(case['bg'])
            _line_case(scr, part, *case['p'], case['c'], leg=sub)
        elif sub == 'box':
            scr.background(case['bg'])
            _box_case(scr, part, *case['p'], case['c'], case['shape'], None)
        elif sub == 'forms':
            g.must(b'DIM A%(200)')
            scr.background('pattern')
            _forms_case(scr, part, case['kind'], *case['p'], [(0, 0), (41, 23), (7, 5)])
        elif sub == 'getput':
            g.must(b'DIM A%(200)')
            scr.background('pattern')
            _getput_case(scr, part, *case['rect'])
        else:
            raise CheckError('cannot replay %r' % (case,))
    finally:
        scr.close()
    return part
