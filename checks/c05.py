"""
C05 - arithmetic identities hold for every value; mixed types promote to the wider type.

E1 (domain enumeration on the real values.add/sub/mul/div/neg/abs_/sgn_):

  unary-int / unary-single / unary-double
        for every x of the alphabet (ALL 65536 integers; mantissa alphabet x ALL 256 exponent
        bytes x 2 signs for singles and doubles, i.e. including every non-canonical zero
        encoding): x+0, 0+x, x*1, 1*x, x/1 with 0 and 1 of each of the three types, x-x,
        -(-x), ABS(x), SGN(x)
  commute-single / commute-double
        x+y = y+x and x*y = y*x bit for bit over the C04 pair product (mantissa pairs x
        exponent alignments x signs)
  mixed all 9 type pairings over boundary value sets: commutativity of + and *, and for
        + - * / : result type = wider operand type, result = the operation applied to the
        operands promoted (by the reference model) to that type

Oracle: exact integer arithmetic (models/mbf.py) for the values; the commutativity and the
"promote first" clauses are relative (they compare the implementation with itself).
"""
import struct

from mc.core import Leg, Partial, CheckError, from_pcbasic, chunked
from mc import num
from models import mbf
from checks import c04 as _c04
from pcbasic.basic.values import values as V
from pcbasic.basic.values import numbers as N
from pcbasic.basic.base import error

PROPERTY = 'C05'
ENGINE = 'E1 domain'
LEVEL = 'model_checking'
LEVEL_TEXT = (
    'Bounded exhaustive enumeration on the real operators: the unary identities (x+0, x*1, x/1, x-x, -(-x), ABS, SGN, '
    'with 0 and 1 of every type, both operand orders) for all 65536 integers and for every single/double built from a '
    'fixed mantissa alphabet at every one of the 256 exponent bytes (so every non-canonical zero) and both signs; '
    'commutativity of + and * bit for bit over the full product mantissa pairs x exponent alignments (0..34 / 0..66 '
    'bits) x signs; and type promotion over all 9 type pairings of boundary value sets.')
LEVEL_NOTE = ('Values outside the alphabets are not covered. Commutativity and "promote before computing" are '
              'self-relative oracles (implementation against itself on swapped / reference-promoted operands); the '
              'value identities use the exact integer model models/mbf.py.')
TECHNIQUE = ('bounded exhaustive enumeration of values and value pairs of all three numeric types on the real '
             'operators against exact-value identities and self-consistency')
RULE = ('all integers; mantissa pattern x exponent byte x sign for floats; pair products for the binary identities; '
        'a case class is (identity, operand types, sign/zero class, outcome); non-trivial = everything except '
        'positive canonical operands of one type')
ASSUMPTIONS = [
    'internal seam: values.add/sub/mul/div/neg/abs_/sgn_ on Integer/Single/Double objects built from bytes',
    '"= x" is read as: same exact value and the wider type of the two operands (integer op integer may stay Integer or '
    'become Single: pcbasic always computes in Single); for same-type canonical floats this is bit-for-bit equality',
    'non-canonical zeros (zero exponent byte, any mantissa): identities hold up to "is zero"',
    'if x op y raises an error, y op x must raise the same error (commutativity)',
    'integer*integer and integer/integer: result compared with the operation on the operands promoted to Single '
    '(the statement only says the wider operand type; an exact Integer result is accepted too)',
]

BASICError = error.BASICError
SCALE = mbf.SCALE
CLS = {2: N.Integer, 4: N.Single, 8: N.Double}
RANK = {N.Integer: 0, N.Single: 1, N.Double: 2}
FMT = {4: mbf.SNG, 8: mbf.DBL}
TN = {2: 'i', 4: 's', 8: 'd'}
ADD, SUB, MUL, DIV = V.add, V.sub, V.mul, V.div


def _run(part, key, case, fn, *args):
    try:
        return ('ok', fn(*args))
    except BASICError as e:
        return ('err', e.err)
    except Exception as e:
        if from_pcbasic(e):
            part.violation('%s/host-exception/%s' % (key, type(e).__name__), '%r on %r' % (e, case), case)
            return ('exc', type(e).__name__)
        raise


def _res(got):
    """Comparable form of an outcome: (class name, bytes) / error."""
    if got[0] == 'ok':
        return (type(got[1]).__name__, bytes(got[1]._buffer))
    return got


def _show(got):
    if got[0] == 'ok':
        return '%s:%s' % (type(got[1]).__name__, bytes(got[1]._buffer).hex())
    return 'error %r' % (got[1],)


def _is_zero_bytes(b):
    return (b == b'\0\0') if len(b) == 2 else b[-1] == 0


class Env(object):
    def __init__(self):
        self.vals = vals = num.make_values()
        self.X = {s: c(None, vals) for s, c in CLS.items()}
        self.Y = {s: c(None, vals) for s, c in CLS.items()}
        self.P = {s: c(None, vals) for s, c in CLS.items()}
        self.Q = {s: c(None, vals) for s, c in CLS.items()}
        mk = lambda size, b: CLS[size](None, vals).from_bytes(b)
        self.zeros = [mk(2, b'\0\0'), mk(4, bytes(4)), mk(8, bytes(8))]
        self.ones = [mk(2, b'\1\0'), mk(4, mbf.SNG.bytes(False, 0x81, mbf.SNG.top)),
                     mk(8, mbf.DBL.bytes(False, 0x81, mbf.DBL.top))]
        # non-canonical zeros
        self.odd_zeros = [mk(4, b'\x34\x12\x80\x00'), mk(4, b'\xff\xff\x7f\x00'),
                          mk(8, b'\x01\x00\x00\x00\x00\x00\x80\x00'), mk(8, b'\xff' * 7 + b'\x00')]


def _wider_ok(r, cx, cy):
    """Result class acceptable for operand classes cx, cy."""
    w = max(RANK[cx], RANK[cy])
    if w == 0:
        return type(r) in (N.Integer, N.Single)
    return RANK.get(type(r)) == w


def check_unary(part, env, size, b, rich_zero=False):
    """All unary identities for the value with encoding b (2/4/8 bytes)."""
    X = env.X[size]
    X._buffer[:] = b
    cx = CLS[size]
    xs = mbf.scaled_bytes(b)
    t = TN[size]
    case = {'size': size, 'bytes': b}
    xz = xs == 0
    cls = 'zero' if xz else ('-' if xs < 0 else '+')
    if size != 2 and xz and b != bytes(size):
        cls = 'odd-zero'
    n = 0

    def same_value(name, got, other_cls, want=None, dbl_involved=False):
        want_s = xs if want is None else want
        if got[0] != 'ok':
            part.violation('%s/%s/error' % (name, t), '%s with x=%s:%s -> %s' % (name, t, b.hex(), _show(got)), case)
            return
        r = got[1]
        rb = bytes(r._buffer)
        if not isinstance(r, N.Number) or not _wider_ok(r, cx, other_cls):
            part.violation('%s/%s/wrong-type' % (name, t), '%s with x=%s:%s and %s -> %s' % (
                name, t, b.hex(), other_cls.__name__, _show(got)), case)
        elif mbf.scaled_bytes(rb) != want_s:
            key = '%s/%s/changed' % (name, t)
            if (name in ('x*1', '1*x') and _is_zero_bytes(rb) and type(r) is N.Double
                    and (1 << (SCALE - 128)) <= abs(want_s) < (1 << (SCALE - 96))):
                key = 'mul/double-premature-underflow'
            part.violation(key, '%s with x=%s:%s (other operand %s) -> %s' % (
                name, t, b.hex(), other_cls.__name__, _show(got)), case)
        elif want is None:
            # the identity as a program sees it: (x+0)=x etc. is true (-1) through the = operator as well
            ge = _run(part, name + '=x', case, V.eq, r, X)
            if ge[0] != 'ok' or bytes(ge[1]._buffer) != b'\xff\xff':
                part.violation('%s/%s/not-equal-for-basic' % (name, t), '(%s)=x with x=%s:%s (other operand %s): result %s, the = operator gives %s' % (
                    name, t, b.hex(), other_cls.__name__, _show(got), _show(ge)), case)

    zeros = env.zeros + (env.odd_zeros if rich_zero else [])
    for Z in zeros:
        cz = type(Z)
        same_value('x+0', _run(part, 'x+0', case, ADD, X, Z), cz)
        same_value('0+x', _run(part, '0+x', case, ADD, Z, X), cz)
        n += 2
    for O in env.ones:
        co = type(O)
        same_value('x*1', _run(part, 'x*1', case, MUL, X, O), co)
        same_value('1*x', _run(part, '1*x', case, MUL, O, X), co)
        same_value('x/1', _run(part, 'x/1', case, DIV, X, O), co)
        n += 3
    same_value('x-x', _run(part, 'x-x', case, SUB, X, X), cx, want=0)
    # -(-x)
    g1 = _run(part, 'neg', case, V.neg, X)
    n += 2
    if g1[0] == 'ok':
        same_value('neg', g1, cx, want=-xs)
        g2 = _run(part, 'neg', case, V.neg, g1[1])
        same_value('-(-x)', g2, cx)
        if g2[0] == 'ok' and size != 2 and type(g2[1]) is cx and bytes(g2[1]._buffer) != b:
            part.violation('-(-x)/%s/bits-changed' % t, '-(-x) of %s gave %s' % (b.hex(), _show(g2)), case)
    else:
        part.violation('neg/%s/error' % t, '-x with x=%s -> %s' % (b.hex(), _show(g1)), case)
    # ABS
    ga = _run(part, 'abs', case, V.abs_, [X])
    n += 1
    same_value('abs', ga, cx, want=abs(xs))
    if ga[0] == 'ok' and isinstance(ga[1], N.Float) and not _is_zero_bytes(bytes(ga[1]._buffer)) \
            and bytes(ga[1]._buffer)[-2] & 0x80:
        part.violation('abs/%s/negative' % t, 'ABS(%s) = %s is negative' % (b.hex(), _show(ga)), case)
    # SGN
    gs = _run(part, 'sgn', case, V.sgn_, [X])
    n += 1
    want = (xs > 0) - (xs < 0)
    if gs[0] != 'ok' or type(gs[1]) is not N.Integer or bytes(gs[1]._buffer) != struct.pack('<h', want):
        part.violation('sgn/%s/wrong' % t, 'SGN(%s:%s) -> %s, expected %d' % (t, b.hex(), _show(gs), want), case)
    if bytes(X._buffer) != b:
        part.violation('unary/%s/operand-modified' % t, 'operand %s changed to %s' % (b.hex(), bytes(X._buffer).hex()), case)
    part.classes.add('unary %s %s' % (t, cls))
    part.n += n


def work_unary_int(shard):
    lo, hi = shard
    part = Partial()
    env = Env()
    for i in range(lo, hi):
        check_unary(part, env, 2, struct.pack('<h', i))
    part.traces = part.n
    part.sample({'ints': [lo, hi]})
    return part


def work_unary_float(shard):
    size, level, e_lo, e_hi, rich = shard
    fmt = FMT[size]
    part = Partial()
    env = Env()
    mans = mbf.mant_set(fmt.nbits, level)
    for exp in range(e_lo, e_hi):
        for neg in (False, True):
            for man in mans:
                check_unary(part, env, size, fmt.bytes(neg, exp, man), rich_zero=rich)
    part.traces = part.n
    part.sample({'type': fmt.name, 'exps': [e_lo, e_hi], 'mantissas': len(mans)})
    return part


# ---------------------------------------------------------------------------
# commutativity over the C04 pair product

def commute_mants(fmt, quick):
    m = _c04.addsub_mants(fmt, quick)
    return mbf.pick(m, 44 if fmt is mbf.SNG else 32) if quick else m


def work_commute(shard):
    size, quick, d, e = shard
    fmt = FMT[size]
    part = Partial()
    env = Env()
    X, Y = env.X[size], env.Y[size]
    xbuf, ybuf = X._buffer, Y._buffer
    code, word = fmt.code, fmt.word
    pack = struct.pack_into
    mans = commute_mants(fmt, quick)
    n = 0
    t = fmt.name
    for sa, sb in _c04.SIGNS4:
        lab_add = set()
        for ma in mans:
            pack(code, xbuf, 0, word(sa, e, ma))
            for mb in mans:
                pack(code, ybuf, 0, word(sb, e + d, mb))
                for name, fn in (('add', ADD), ('mul', MUL)):
                    try:
                        r1 = fn(X, Y)
                        o1 = (type(r1), bytes(r1._buffer))
                    except BASICError as ex:
                        o1 = ('err', ex.err)
                    try:
                        r2 = fn(Y, X)
                        o2 = (type(r2), bytes(r2._buffer))
                    except BASICError as ex:
                        o2 = ('err', ex.err)
                    n += 2
                    if o1 != o2:
                        case = {'op': name, 'size': size, 'a': bytes(xbuf), 'b': bytes(ybuf)}
                        part.violation('commute/%s/%s' % (name, t), '%s: x=%s y=%s: x op y = %r but y op x = %r' % (
                            name, case['a'].hex(), case['b'].hex(),
                            o1[1].hex() if o1[0] != 'err' else o1, o2[1].hex() if o2[0] != 'err' else o2), case)
                    lab_add.add('%s %s' % (name, 'err' if o1[0] == 'err' else ('zero' if o1[1][-1] == 0 else 'val')))
        for l in lab_add:
            part.classes.add('commute %s %s%s %s' % (t[0], '-' if sa else '+', '-' if sb else '+', l))
    part.n += n
    part.traces = part.n
    part.sample({'type': t, 'd': d, 'base_exp': e, 'mantissas': len(mans)})
    return part


# ---------------------------------------------------------------------------
# mixed types

def value_sets(quick):
    """Boundary value sets per type: list of (size, bytes)."""
    ints = [num.s16(u) for u in num.int_boundary_set()]
    if quick:
        ints = mbf.pick(sorted(ints), 70)
    for must in (-32768, -32767, -1, 0, 1, 2, 32767):
        if must not in ints:
            ints.append(must)
    out_i = [(2, struct.pack('<h', i)) for i in sorted(ints)]
    exps_s = (1, 0x60, 0x80, 0x81, 0x90, 0x91, 0x98, 0xa1, 0xfe, 0xff) if quick else \
        (1, 2, 0x60, 0x7f, 0x80, 0x81, 0x90, 0x91, 0x98, 0x99, 0xa1, 0xfe, 0xff)
    m24 = mbf.mant_set(24, 0)
    m56 = mbf.mant_set(56, 0)
    if quick:
        m24 = mbf.pick(m24, 7)
        m56 = mbf.pick(m56, 7)
    s = set()
    d = set()
    for neg in (False, True):
        for e in exps_s:
            for m in m24:
                s.add(mbf.SNG.bytes(neg, e, m))
            for m in m56:
                d.add(mbf.DBL.bytes(neg, e, m))
            # widened singles and their double neighbours
            for m in mbf.pick(m24, 5):
                for dd in (-1, 0, 1):
                    m2 = (m << 32) + dd
                    if mbf.DBL.top <= m2 <= mbf.DBL.full:
                        d.add(mbf.DBL.bytes(neg, e, m2))
    # integers as floats
    for i in mbf.pick(sorted(ints), 30):
        s.add(mbf.int_to_fmt(mbf.SNG, i))
        d.add(mbf.int_to_fmt(mbf.DBL, i))
    # zeros, canonical and not
    for z in (bytes(4), b'\x34\x12\x80\x00', b'\xff\xff\x7f\x00'):
        s.add(z)
    for z in (bytes(8), b'\x01\x00\x00\x00\x00\x00\x80\x00', b'\xff' * 7 + b'\x00'):
        d.add(z)
    return out_i + [(4, b) for b in sorted(s)] + [(8, b) for b in sorted(d)]


def _promote(b, size_to):
    """Reference promotion of the encoding b to the float format of size_to (exact)."""
    if len(b) == size_to:
        return b
    x = mbf.scaled_bytes(b)
    if x == 0:
        return bytes(size_to)
    r = mbf.encode_scaled(FMT[size_to], x)
    if r is None:
        raise CheckError('reference promotion of %s to %d bytes is not exact' % (b.hex(), size_to))
    return r


BIN = (('add', ADD), ('sub', SUB), ('mul', MUL), ('div', DIV))


def check_mixed(part, env, sx, bx, sy, by):
    """One ordered pair: commutativity of + and *, type promotion for + - * /."""
    X, Y = env.X[sx], env.Y[sy]
    X._buffer[:] = bx
    Y._buffer[:] = by
    case = {'sx': sx, 'x': bx, 'sy': sy, 'y': by}
    tp = TN[sx] + TN[sy]
    w = max(sx, sy)
    wf = 4 if w == 2 else w
    P, Q = env.P[wf], env.Q[wf]
    P._buffer[:] = _promote(bx, wf)
    Q._buffer[:] = _promote(by, wf)
    n = 0
    for name, fn in BIN:
        g = _run(part, name, case, fn, X, Y)
        n += 1
        r = _res(g)
        if name in ('add', 'mul'):
            g2 = _run(part, name, case, fn, Y, X)
            n += 1
            if _res(g2) != r:
                part.violation('commute/%s/%s' % (name, tp), '%s: x=%s:%s y=%s:%s: x op y = %s but y op x = %s' % (
                    name, TN[sx], bx.hex(), TN[sy], by.hex(), _show(g), _show(g2)), case)
        if g[0] == 'ok' and not _wider_ok(g[1], CLS[sx], CLS[sy]):
            part.violation('promote/%s/%s/wrong-type' % (name, tp), '%s of %s:%s and %s:%s gave %s' % (
                name, TN[sx], bx.hex(), TN[sy], by.hex(), _show(g)), case)
            continue
        if sx == sy and sx != 2:
            continue
        # the operation on the promoted operands
        gp = _run(part, name, case, fn, P, Q)
        n += 1
        rp = _res(gp)
        if r != rp:
            if w == 2 and g[0] == 'ok' and type(g[1]) is N.Integer:
                # exact integer result is fine as well
                xi, yi = struct.unpack('<h', bx)[0], struct.unpack('<h', by)[0]
                exact = {'add': xi + yi, 'sub': xi - yi, 'mul': xi * yi}.get(name)
                if exact is not None and struct.unpack('<h', bytes(g[1]._buffer))[0] == exact:
                    continue
            both_zero = (g[0] == 'ok' and gp[0] == 'ok' and r[0] == rp[0]
                         and _is_zero_bytes(r[1]) and _is_zero_bytes(rp[1]))
            if not both_zero:
                part.violation('promote/%s/%s/differs-from-promoted' % (name, tp),
                               '%s of %s:%s and %s:%s gave %s, on operands promoted to %s it gives %s' % (
                                   name, TN[sx], bx.hex(), TN[sy], by.hex(), _show(g), CLS[wf].__name__, _show(gp)), case)
        part.classes.add('mixed %s %s %s' % (name, tp, 'err' if g[0] != 'ok' else 'ok'))
    if bytes(X._buffer) != bx or bytes(Y._buffer) != by:
        part.violation('mixed/operand-modified', 'operands changed: %r' % (case,), case)
    part.n += n


def work_mixed(shard):
    quick, lo, hi = shard
    part = Partial()
    env = Env()
    vs = value_sets(quick)
    for sx, bx in vs[lo:hi]:
        for sy, by in vs:
            check_mixed(part, env, sx, bx, sy, by)
    part.traces = part.n
    part.sample({'values': [lo, hi], 'of': len(vs)})
    return part


# ---------------------------------------------------------------------------

def legs(ctx):
    q = ctx.quick
    out = []
    out.append(Leg('unary-int', [(lo, lo + 1024) for lo in range(-32768, 32768, 1024)], work_unary_int,
                   exhaustive=True, bound='all 65536 integers x 0/1 of 3 types'))
    ls = 2 if q else 3
    ld = 1 if q else 3
    out.append(Leg('unary-single', [(4, ls, e, e + 2, not q) for e in range(0, 256, 2)], work_unary_float, exhaustive=False,
                   bound='%d mantissa patterns x all 256 exponent bytes x 2 signs; 0/1 of 3 types%s' % (
                       len(mbf.mant_set(24, ls)), '' if q else ' + 4 non-canonical zeros')))
    out.append(Leg('unary-double', [(8, ld, e, e + 1, not q) for e in range(0, 256)], work_unary_float, exhaustive=False,
                   bound='%d mantissa patterns x all 256 exponent bytes x 2 signs; 0/1 of 3 types%s' % (
                       len(mbf.mant_set(56, ld)), '' if q else ' + 4 non-canonical zeros')))
    for fmt in (mbf.SNG, mbf.DBL):
        ds = _c04.addsub_ds(fmt, q)
        shards = [(fmt.size, q, d, e) for d in ds for e in _c04.addsub_bases(d)]
        nm = len(commute_mants(fmt, q))
        out.append(Leg('commute-' + fmt.name, shards, work_commute, exhaustive=False, bound=(
            '%d x %d mantissa pairs x exponent differences %s x base exponent bytes {1,2,80h,254-d,255-d} x 4 sign '
            'combinations x {+,*} in both orders' % (nm, nm, _c04._ranges(ds)))))
    vs = value_sets(q)
    step = 8 if q else 6
    out.append(Leg('mixed', [(q, lo, min(lo + step, len(vs))) for lo in range(0, len(vs), step)], work_mixed,
                   exhaustive=False, bound='complete enumeration of all ordered pairs of %d values (%d integers, %d singles, %d doubles): 9 type '
                   'pairings x {+,-,*,/}' % (len(vs), sum(1 for s, _ in vs if s == 2), sum(1 for s, _ in vs if s == 4),
                                             sum(1 for s, _ in vs if s == 8))))
    return out


def replay(ctx, leg, case):
    part = Partial()
    env = Env()
    if 'sx' in case:
        check_mixed(part, env, case['sx'], bytes(case['x']), case['sy'], bytes(case['y']))
    elif 'op' in case:
        size = case['size']
        check_mixed(part, env, size, bytes(case['a']), size, bytes(case['b']))
    else:
        check_unary(part, env, case['size'], bytes(case['bytes']), rich_zero=True)
    return part
