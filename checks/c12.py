"""
C12 - array subscripts address distinct elements within the declared bounds.

E1 `shapes`   : every array shape of the bounded family x every OPTION BASE setting
                (unset / 0 / 1) x element type: write a unique value to EVERY in-range tuple,
                read ALL back; then every single-subscript excursion (base-1, bound+1, -1,
                32767) and both wrong subscript counts, as a read and as a write: error code
                must be 9 (5 for a negative subscript) and afterwards ALL elements must
                still hold their values.
E1 `firstuse` : undeclared arrays of 1..4 dimensions, first touched by a read or a write at
                every corner subscript, under every OPTION BASE setting and type: bounds must
                be base..10, redimensioning must give Duplicate definition, ERASE + DIM must
                give the new bounds.
E2 `history`  : BFS to the FIXED POINT over DIM / implicit use / ERASE / OPTION BASE 0/1
                histories on two arrays; in every state all elements and all boundary
                excursions are checked.
Oracle: dict keyed by subscript tuple (models/varmem.py gives storage order only for labels).
"""
from itertools import product

from mc.core import Leg, Partial, CheckError, chunked
from mc import bfs

PROPERTY = 'C12'
ENGINE = 'E1 domain + E2 bfs'
LEVEL = 'model_checking'
LEVEL_TEXT = (
    'Bounded exhaustive enumeration on real Sessions: every array shape with 1-3 dimensions and '
    'bounds in {0,1,2,3,10,11} (quick: 3-D restricted to {0,1,2,3}), all 4-D shapes with bounds <= 2 '
    '(quick <= 1), a 30-bound 1-D and 2-D shape, under OPTION BASE unset/0/1; every in-range tuple is '
    'written and read, every single-subscript excursion and wrong subscript count is tried. First '
    'use of undeclared arrays is enumerated over dimensions, types, bases and corner subscripts. '
    'DIM/ERASE/OPTION BASE histories on two arrays are explored breadth-first to the fixed point '
    'of the canonical state space.')
LEVEL_NOTE = (
    'Trusted: Session.execute/evaluate as the way to run BASIC; the dict-of-tuples reference. '
    'Shapes outside the family (bounds 4..9, 12..29, > 3 dimensions with bounds > 2) are not covered.')
TECHNIQUE = ('bounded exhaustive enumeration of array shapes x OPTION BASE x subscript tuples, and BFS '
             'to fixed point over DIM/ERASE/OPTION BASE histories, on real Sessions against a '
             'dict-of-tuples reference')
RULE = ('product of the bound alphabet per dimension x base setting x type; every in-range tuple and '
        'every single-subscript excursion of each shape; a case class is (dimensions, base, type, '
        'excursion kind, outcome); non-trivial = everything except an in-range access of a 1-D base-0 '
        'array')
ASSUMPTIONS = [
    'sessions are created with video=\'cga\' (3x cheaper to build; variable memory does not depend '
    'on the video adapter)',
    'an excursion with several offending subscripts (e.g. one negative and one too large) is not '
    'enumerated: the statement does not say which error wins',
    'after an out-of-range FIRST use the statement does not say whether the array now exists: only '
    'successful first uses are followed up',
    'OPTION BASE: in a fresh session it must succeed; with arrays in existence a different base must '
    'be refused (Duplicate definition) and the same base may be accepted or refused; an explicitly '
    'set base persists over ERASE; whether the implicit base 0 survives the ERASE of the last array '
    'is left open (both outcomes accepted)',
    'DIM with a bound below the OPTION BASE must fail (any of error 9 / 5) and create nothing',
    'first use of a 4-dimensional array whose 0..10 / 1..10 elements need more than 50000 bytes may '
    'answer Out of memory (the data segment is 64K)',
    'internal seam (history leg, state key only): Arrays._dims/_buffers/_base/_base_set_by_dim, '
    'Scalars._vars',
]

E_IFC, E_SUB, E_DUP = 5, 9, 10
TYPES = '%!#$'


def _H():
    from mc import harness
    return harness


# ---------------------------------------------------------------------------
# helpers

def tuples(dims, base):
    return product(*[range(base, d + 1) for d in dims])


def unique_value(t, k):
    """k-th unique value for type t (all exactly representable)."""
    if t == '%':
        return (k + 1) if k % 2 == 0 else -(k + 1)
    if t == '!':
        return k + 1.5
    if t == '#':
        return -(k + 1.25)
    return b'e%d' % k


def lit(v):
    if isinstance(v, bytes):
        return b'"' + v + b'"'
    return repr(v).encode('ascii')


def default(t):
    return b'' if t == '$' else 0


def ref_str(sub):
    return b','.join(b'%d' % i for i in sub)


def elem(name, sub):
    return b'%s(%s)' % (name, ref_str(sub))


def base_label(b):
    return 'unset' if b is None else str(b)


def run_ok(part, s, stmt, key, case):
    """Run a statement that must succeed."""
    H = _H()
    r = H.run(s, stmt)
    part.traces += 1
    if r.exc is not None:
        part.violation('%s/host-exception/%s' % (key, H.exc_key(r.exc)),
                       '%r raised %r' % (stmt, r.exc), case)
        return False
    if r.err is not None:
        part.violation('%s/unexpected-error-%s' % (key, r.err),
                       '%r gave error %s, expected success' % (stmt, r.err), case)
        return False
    return True


def run_err(part, s, stmt, allowed, key, case):
    """Run a statement that must fail with one of the allowed codes."""
    H = _H()
    # LOCATE keeps the error messages from scrolling the emulated screen (a 10x cost)
    r = H.run(s, b'LOCATE 1,1:' + stmt)
    part.traces += 1
    if r.exc is not None:
        part.violation('%s/host-exception/%s' % (key, H.exc_key(r.exc)),
                       '%r raised %r' % (stmt, r.exc), case)
        return False
    if r.err not in allowed:
        part.violation('%s/%s' % (key, 'accepted' if r.err is None else 'error-%s' % r.err),
                       '%r gave %s, expected error %s' % (
                           stmt, 'no error' if r.err is None else 'error %s' % r.err,
                           ' or '.join(str(a) for a in allowed)), case)
        return False
    return True


def read_elem(part, s, name, sub, key, case):
    """Read one element through Session.evaluate -> (ok, value)."""
    expr = elem(name, sub)
    try:
        v = s.evaluate(expr)
    except Exception as e:
        from mc import core
        if not core.from_pcbasic(e):
            raise
        part.violation('%s/host-exception/%s' % (key, _H().exc_key(e)), '%r raised %r' % (expr, e), case)
        return False, None
    part.traces += 1
    if v is None:
        part.violation('%s/read-error' % key, 'reading %r gave a BASIC error' % expr, case)
        return False, None
    return True, v


def verify_all(part, s, name, ref, key, case, limit=3):
    """Every element of the reference dict reads back its value."""
    bad = 0
    for sub, exp in ref.items():
        ok, v = read_elem(part, s, name, sub, key, case)
        part.n += 1
        if not ok:
            bad += 1
        elif v != exp:
            bad += 1
            part.violation(key, '%s reads %r, expected %r' % (elem(name, sub).decode(), v, exp), case)
        if bad >= limit:
            break
    return bad == 0


def excursions(dims, base):
    """(kind, subscript tuple, expected codes) single-subscript excursions + wrong counts."""
    inside = tuple(dims)
    out = []
    for i, d in enumerate(dims):
        for kind, v in (('below-base', base - 1), ('above-bound', d + 1), ('minus-one', -1),
                        ('max-int', 32767)):
            sub = inside[:i] + (v,) + inside[i + 1:]
            out.append(('%s/dim%d' % (kind, i + 1), sub, (E_IFC,) if v < 0 else (E_SUB,)))
    if len(dims) > 1:
        out.append(('one-subscript-too-few', inside[:-1], (E_SUB,)))
    out.append(('one-subscript-too-many', inside + (inside[-1],), (E_SUB,)))
    return out


# ---------------------------------------------------------------------------
# leg: shapes

def shape_family(quick):
    B = (0, 1, 2, 3, 10, 11)
    small = (0, 1, 2, 3)
    shapes = [(b,) for b in B] + [(30,)]
    shapes += list(product(B, B)) + [(30, 30)]
    shapes += list(product(small if quick else B, repeat=3))
    if quick:
        shapes += [(10, 11, 1), (2, 11, 10), (11, 0, 3)]
    shapes += list(product((0, 1) if quick else (0, 1, 2), repeat=4))
    return shapes


def shape_cases(quick):
    cases = []
    for k, dims in enumerate(shape_family(quick)):
        n = 1
        for d in dims:
            n *= d + 1
        for base in (None, 0, 1):
            if quick or n > 64:
                types = TYPES[(k + (base or 0)) % 4]
            else:
                types = TYPES
            for t in types:
                cases.append((dims, base, t))
    return cases


def check_shape(part, case):
    dims, base, t = case
    dims = tuple(dims)
    H = _H()
    name = b'A' + t.encode()
    eff = base or 0
    cls = '%dd/base-%s/%s' % (len(dims), base_label(base), t)
    s = H.new_session(video='cga')
    if base is not None and not run_ok(part, s, b'OPTION BASE %d' % base, 'shape/option-base', case):
        return
    dimstmt = b'DIM %s(%s)' % (name, ref_str(dims))
    if any(d < eff for d in dims):
        # no valid array: DIM must fail, nothing may exist afterwards (a later DIM still works)
        run_err(part, s, dimstmt, (E_SUB, E_IFC), 'shape/dim-bound-below-base', case)
        part.n += 1
        part.classes.add(cls + '/bound-below-base')
        part.outcome('dim-refused')
        return
    if not run_ok(part, s, dimstmt, 'shape/dim', case):
        return
    ref = {}
    stmts = []
    for k, sub in enumerate(tuples(dims, eff)):
        v = unique_value(t, k)
        ref[sub] = v
        stmts.append(b'%s=%s' % (elem(name, sub), lit(v)))
    # write everything first (several assignments per line), then read everything
    line = b''
    for st in stmts:
        if line and len(line) + len(st) + 1 > 230:
            if not run_ok(part, s, line, 'shape/write', case):
                return
            line = b''
        line = st if not line else line + b':' + st
    if line and not run_ok(part, s, line, 'shape/write', case):
        return
    part.n += len(ref)
    if not verify_all(part, s, name, ref, 'shape/%s/element-aliased-or-lost' % cls, case):
        return
    part.classes.add(cls + '/in-range')
    part.outcome('in-range-ok', len(ref))
    # excursions
    xv = lit(unique_value(t, 99999) if t != '%' else 12345)
    target = {'%': b'X%', '!': b'X!', '#': b'X#', '$': b'X$'}[t]
    for kind, sub, codes in excursions(dims, eff):
        k = 'shape/oob/%s' % kind.split('/')[0]
        run_err(part, s, b'%s=%s' % (target, elem(name, sub)), codes, k + '/read', case)
        run_err(part, s, b'%s=%s' % (elem(name, sub), xv), codes, k + '/write', case)
        part.n += 2
        part.classes.add('%s/%s/err%d' % (cls, kind.split('/')[0], codes[0]))
        part.outcome('oob-%d' % codes[0], 2)
    verify_all(part, s, name, ref, 'shape/oob/element-changed', case)


def work_shapes(shard):
    part = Partial()
    for case in shard:
        check_shape(part, case)
    part.sample({'shape': list(shard[0][0]), 'base': shard[0][1], 'type': shard[0][2]})
    return part


# ---------------------------------------------------------------------------
# leg: firstuse

def firstuse_cases(quick):
    cases = []
    for nd in (1, 2, 3, 4):
        for base in (None, 0, 1):
            for t in (TYPES if not quick else TYPES[(nd + (base or 0)) % 4]):
                eff = base or 0
                corners = list(product((eff, 10), repeat=nd))
                for how in ('read', 'write'):
                    for sub in corners:
                        cases.append((nd, base, t, how, sub))
    return cases


def check_firstuse(part, case):
    nd, base, t, how, sub = case
    sub = tuple(sub)
    H = _H()
    name = b'U' + t.encode()
    eff = base or 0
    cls = 'firstuse/%dd/base-%s/%s/%s' % (nd, base_label(base), t, how)
    s = H.new_session(video='cga')
    if base is not None and not run_ok(part, s, b'OPTION BASE %d' % base, 'firstuse/option-base', case):
        return
    target = {'%': b'X%', '!': b'X!', '#': b'X#', '$': b'X$'}[t]
    v = unique_value(t, 7)
    stmt = (b'%s=%s' % (target, elem(name, sub))) if how == 'read' else (
        b'%s=%s' % (elem(name, sub), lit(v)))
    nbytes = (11 - eff) ** nd * {'%': 2, '!': 4, '#': 8, '$': 3}[t]
    if nbytes > 50000:
        # a 0..10 array of this type and rank does not (or only just) fit the 64K data segment:
        # Out of memory is then the expected answer; only a successful first use is followed up
        r = H.run(s, stmt)
        part.n += 1
        if r.exc is not None:
            part.violation('firstuse/host-exception/%s' % H.exc_key(r.exc), '%r raised %r' % (stmt, r.exc), case)
            return
        if r.err is not None:
            if r.err != 7:
                part.violation('firstuse/too-big/error-%s' % r.err,
                               '%r gave error %s, expected success or Out of memory' % (stmt, r.err), case)
            part.classes.add(cls + '/out-of-memory')
            part.outcome('firstuse-out-of-memory')
            return
        ok = True
    else:
        ok = run_ok(part, s, stmt, 'firstuse/in-range-refused', case)
        part.n += 1
    if not ok:
        return
    dims = (10,) * nd
    # all elements (1-D, 2-D) or all corners + neighbours of corners (3-D, 4-D)
    if nd <= 2:
        subs = list(tuples(dims, eff))
    else:
        subs = list(product(sorted(set((eff, eff + 1, 5, 9, 10))), repeat=nd))
    ref = {x: default(t) for x in subs}
    if how == 'write':
        ref[sub] = v
    if not verify_all(part, s, name, ref, 'firstuse/element-wrong', case):
        return
    for kind, xs, codes in excursions(dims, eff):
        k = 'firstuse/oob/%s' % kind.split('/')[0]
        run_err(part, s, b'%s=%s' % (target, elem(name, xs)), codes, k, case)
        part.n += 1
    # redimensioning
    run_err(part, s, b'DIM %s(%s)' % (name, ref_str((5,) * nd)), (E_DUP,), 'firstuse/redim', case)
    # ERASE, then it can be dimensioned again, with the new bounds
    if run_ok(part, s, b'ERASE %s' % name, 'firstuse/erase', case):
        if run_ok(part, s, b'DIM %s(%s)' % (name, ref_str((3,) * nd)), 'firstuse/dim-after-erase', case):
            ref2 = {x: default(t) for x in tuples((3,) * nd, eff)}
            verify_all(part, s, name, ref2, 'firstuse/after-erase/element-wrong', case)
            for kind, xs, codes in excursions((3,) * nd, eff):
                run_err(part, s, b'%s=%s' % (target, elem(name, xs)), codes,
                        'firstuse/after-erase/oob/%s' % kind.split('/')[0], case)
                part.n += 1
    part.n += 3
    part.classes.add(cls)
    part.outcome('firstuse-ok')


def work_firstuse(shard):
    part = Partial()
    for case in shard:
        check_firstuse(part, case)
    part.sample({'firstuse': list(shard[0][:4]) + [list(shard[0][4])]})
    return part


# ---------------------------------------------------------------------------
# leg: history (E2)

HOPS = [
    ('dim', b'A%', (3,)),
    ('dim', b'A%', (2, 2)),
    ('read', b'A%', (1,)),
    ('write', b'A%', (2,), 5),
    ('write', b'A%', (0,), 7),
    ('erase', b'A%'),
    ('base', 0),
    ('base', 1),
    ('dim', b'B%', (1,)),
    ('erase', b'B%'),
    ('write', b'A%', (1, 2), 9),
    ('write', b'B%', (1,), 3),
    ('dim', b'A%', (0,)),
    # everything is forgotten, also the array base: an array of a shape seen before is laid out afresh
    ('clear',),
    # ... also when the array comes back at once (the state right after a bare CLEAR equals the initial one and is merged with it)
    ('clearwrite', b'A%', (1, 2), 9),
    ('clearwrite', b'A%', (2,), 5),
]


def render_hop(op):
    k = op[0]
    if k == 'dim':
        return b'DIM %s(%s)' % (op[1], ref_str(op[2]))
    if k == 'read':
        return b'X%%=%s' % elem(op[1], op[2])
    if k == 'write':
        return b'%s=%d' % (elem(op[1], op[2]), op[3])
    if k == 'erase':
        return b'ERASE %s' % op[1]
    if k == 'base':
        return b'OPTION BASE %d' % op[1]
    if k == 'clear':
        return b'CLEAR'
    if k == 'clearwrite':
        return b'CLEAR:%s=%d' % (elem(op[1], op[2]), op[3])
    raise CheckError(repr(op))


class HRef(object):
    """Reference for the history leg.  base state: U unset, ZI implicit 0 (arrays exist),
    ZE explicit 0, ZX 0 explicit-or-implicit (arrays exist), ZU no arrays: 0-or-unset, ONE."""

    def __init__(self):
        self.arrays = {}    # name -> (dims, {sub: value})
        self.base = 'U'
        self.x = None       # X% exists with value

    def eff(self):
        return 1 if self.base == 'ONE' else 0

    def _create(self, name, dims):
        self.arrays[name] = (tuple(dims), {t: 0 for t in tuples(dims, self.eff())})
        self.base = {'U': 'ZI', 'ZU': 'ZX'}.get(self.base, self.base)

    def _access(self, name, sub):
        """-> error code or None (auto-dimensions)."""
        if name not in self.arrays:
            self._create(name, (10,) * len(sub))
        dims, _ = self.arrays[name]
        if len(sub) != len(dims):
            return E_SUB
        for s_, d in zip(sub, dims):
            if s_ < 0:
                return E_IFC
            if s_ < self.eff() or s_ > d:
                return E_SUB
        return None

    def expected(self, op):
        """Set of acceptable outcomes (None = success) *before* applying."""
        k = op[0]
        if k == 'base':
            n = op[1]
            have = bool(self.arrays)
            b = self.base
            if b == 'U':
                return {None}
            if have:
                return {None, E_DUP} if n == self.eff() else {E_DUP}
            # no arrays left: the statement does not say when OPTION BASE may be repeated; either answer is
            # taken and the reference follows the base the interpreter adopted
            return {None, E_DUP}
        if k == 'dim':
            if op[1] in self.arrays:
                return {E_DUP}
            if any(d < self.eff() for d in op[2]):
                return {E_SUB, E_IFC}
            return {None}
        if k == 'erase':
            return {None} if op[1] in self.arrays else {E_IFC}
        if k == 'clear':
            return {None}
        if k == 'clearwrite':
            c = HRef()
            return {c._access(op[1], op[2])}
        if k in ('read', 'write'):
            # auto-dimension happens even when the access then fails: predict on a copy
            c = self.copy()
            return {c._access(op[1], op[2])}
        raise CheckError(repr(op))

    def apply(self, op, outcome):
        k = op[0]
        if k == 'base':
            if outcome is None:
                self.base = 'ONE' if op[1] == 1 else (
                    'ZX' if (self.arrays and self.base in ('ZI', 'ZX')) else 'ZE')
            return
        if k == 'dim':
            if outcome is None:
                self._create(op[1], op[2])
            return
        if k in ('clear', 'clearwrite'):
            self.arrays = {}
            self.base = 'U'
            self.x = None
            if k == 'clearwrite' and self._access(op[1], op[2]) is None:
                self.arrays[op[1]][1][op[2]] = op[3]
            return
        if k == 'erase':
            if outcome is None:
                del self.arrays[op[1]]
                if not self.arrays:
                    self.base = {'ZI': 'ZU', 'ZX': 'ZU'}.get(self.base, self.base)
            return
        if k in ('read', 'write'):
            err = self._access(op[1], op[2])
            if err is None:
                if k == 'write':
                    self.arrays[op[1]][1][op[2]] = op[3]
                else:
                    self.x = self.arrays[op[1]][1][op[2]]
            return

    def copy(self):
        c = HRef()
        c.arrays = {n: (d, dict(e)) for n, (d, e) in self.arrays.items()}
        c.base = self.base
        c.x = self.x
        return c


def hist_key(s):
    try:
        m = s._impl.memory
        ar = m.arrays
        return (
            tuple(sorted((n, tuple(d)) for n, d in ar._dims.items())),
            tuple(sorted((n, bytes(b)) for n, b in ar._buffers.items())),
            tuple(ar._dims), ar._base, ar._base_set_by_dim,
            tuple(sorted((n, bytes(v)) for n, v in m.scalars._vars.items())),
        )
    except AttributeError as e:
        raise CheckError('internal seam missing: %r' % (e,))


def hist_step(s, ref, op, viols):
    """Run op on both; -> (ok, label)."""
    H = _H()
    exp = ref.expected(op)
    r = H.run(s, b'LOCATE 1,1:' + render_hop(op))
    if r.exc is not None:
        viols.append(('history/host-exception/%s' % H.exc_key(r.exc),
                      '%r raised %r' % (render_hop(op), r.exc)))
        return False, 'host-exception'
    if r.err not in exp:
        what = {'dim': 'dim', 'erase': 'erase', 'clear': 'clear', 'clearwrite': 'access', 'base': 'option-base', 'read': 'access',
                'write': 'access'}[op[0]]
        detail = 'accepted' if r.err is None else 'error-%s' % r.err
        viols.append(('history/%s/%s-expected-%s' % (what, detail, '-or-'.join(
            'ok' if e is None else str(e) for e in sorted(exp, key=lambda e: -1 if e is None else e))),
            '%r gave %s; reference allows %s (base state %s, arrays %s)' % (
                render_hop(op), 'success' if r.err is None else 'error %s' % r.err,
                sorted(exp, key=lambda e: -1 if e is None else e), ref.base,
                {n.decode(): d for n, (d, _) in ref.arrays.items()})))
        return False, 'diverged'
    ref.apply(op, r.err)
    return True, '%s:%s' % (op[0], 'ok' if r.err is None else r.err)


def hist_check_state(s, ref, viols):
    part = Partial()
    n = 0
    for name, (dims, elems) in sorted(ref.arrays.items()):
        for sub, exp in elems.items():
            ok, v = read_elem(part, s, name, sub, 'history/element', None)
            n += 1
            if ok and v != exp:
                viols.append(('history/element-wrong',
                              '%s reads %r, expected %r' % (elem(name, sub).decode(), v, exp)))
        for kind, xs, codes in excursions(dims, ref.eff()):
            n += 1
            if n % 8 == 0:
                # keep the error messages from scrolling the emulated screen (a 10x cost)
                _H().run(s, b'LOCATE 1,1')
            try:
                v = s.evaluate(elem(name, xs))
            except Exception as e:
                from mc import core
                if not core.from_pcbasic(e):
                    raise
                viols.append(('history/host-exception/%s' % _H().exc_key(e), repr(e)))
                continue
            if v is not None:
                viols.append(('history/oob/%s/accepted' % kind.split('/')[0],
                              '%s is readable (=%r) although bounds are %s base %d' % (
                                  elem(name, xs).decode(), v, dims, ref.eff())))
    if ref.x is not None:
        v = s.get_variable('X%')
        if v != ref.x:
            viols.append(('history/read-value-wrong', 'X%%=%r expected %r' % (v, ref.x)))
    for k, w, _ in part.viol:
        viols.append((k, w))
    return n


def hist_rebuild(hist):
    H = _H()
    s = H.new_session(video='cga')
    ref = HRef()
    junk = []
    for i in hist:
        ok, _ = hist_step(s, ref, HOPS[i], junk)
        if not ok:
            raise CheckError('history %r no longer replays: %r' % (hist, junk))
    return s, ref


def hist_expand(hist):
    out = []
    for i, op in enumerate(HOPS):
        s, ref = hist_rebuild(hist)
        viols = []
        ok, label = hist_step(s, ref, op, viols)
        key = None
        if ok:
            # (the reference's arrays are part of the key: whether an array exists cannot be observed without creating
            # it, so a state where implementation and reference disagree about that must still be expanded)
            key = (hist_key(s), ref.base, tuple(sorted((n, d) for n, (d, _) in ref.arrays.items())))
            hist_check_state(s, ref, viols)
        out.append((i, key, viols, label + '/' + ref.base))
    return out


def work_history(shard):
    part = Partial()
    res = bfs.explore(hist_expand, [()], shard, part, label='history')
    if not res['fixed_point']:
        part.add('history_not_fixed_point', 1)
    return part


# ---------------------------------------------------------------------------

# ---------------------------------------------------------------------------
# leg fractional (E1): subscripts and bounds given as fractions are rounded to the nearest whole number, halves away
# from zero, before anything else is decided

FRAC_SUBS = ['.4', '.5', '1.5', '2.4', '2.5', '2.6', '3.5', '4.4', '4.5', '-.4', '-.5', '2.5#', '2.4999999999#', 'H!', 'D#']


def _cint(text):
    import math
    from fractions import Fraction
    v = Fraction({'H!': '2.5', 'D#': '0.5'}.get(text, text.rstrip('#')))
    r = int(math.floor(abs(v) + Fraction(1, 2)))
    return -r if v < 0 else r


def work_fractional(shard):
    H = _H()
    part = Partial()
    for base in shard:
        for dimtext, top in (('4', 4), ('3.5', 4), ('4.5', 5), ('2.5', 3)):
            for sub in FRAC_SUBS:
                s = H.new_session()
                try:
                    case = {'base': base, 'dim': dimtext, 'sub': sub}
                    pre = b'OPTION BASE %d:' % base if base is not None else b''
                    r = H.run(s, pre + b'H!=2.5:D#=.5:DIM A%%(%s):FOR I%%=%d TO %d:A%%(I%%)=100+I%%:NEXT' % (
                        dimtext.encode(), base or 0, top))
                    part.n += 1
                    part.traces += 1
                    if r.exc is not None or r.err is not None:
                        part.violation('fractional/dim-bound', 'DIM A%%(%s) then filling 0..%d (base %r): %r' % (dimtext, top, base, r), case)
                        continue
                    want = _cint(sub)
                    r = H.run(s, b'X%%=A%%(%s)' % sub.encode())
                    if r.exc is not None:
                        part.violation('fractional/host-exception/%s' % H.exc_key(r.exc), 'A%%(%s): %r' % (sub, r.exc), case)
                        continue
                    if want < 0:
                        exp = ('err', 5)
                    elif want < (base or 0) or want > top:
                        exp = ('err', 9)
                    else:
                        exp = ('ok', 100 + want)
                    got = ('err', r.err) if r.err is not None else ('ok', s.get_variable('X%'))
                    if got != exp:
                        part.violation('fractional/subscript/%s' % ('half' if sub.rstrip('#').endswith('.5') or sub in ('H!', 'D#') else 'other'),
                                       'DIM A%%(%s), OPTION BASE %r: A%%(%s) gives %r, expected %r (subscript %d)' % (dimtext, base, sub, got, exp, want), case)
                    # assignment through the same subscript changes that element and no other
                    if exp[0] == 'ok':
                        r = H.run(s, b'A%%(%s)=7' % sub.encode())
                        arr = list(s.get_variable('A%()'))
                        exp_arr = [0] * (top + 1)
                        for i in range(base or 0, top + 1):
                            exp_arr[i] = 100 + i
                        exp_arr[want] = 7
                        lo = base or 0
                        if r.err is not None or arr[:top + 1 - lo] != exp_arr[lo:]:
                            part.violation('fractional/assignment', 'A%%(%s)=7 (DIM A%%(%s), base %r): array %r, expected %r' % (
                                sub, dimtext, base, arr[:top + 1 - lo], exp_arr[lo:]), case)
                    part.classes.add('fractional/%s/%s' % ('b%s' % base, exp[0] if exp[0] == 'ok' else 'err%d' % exp[1]))
                finally:
                    s.close()
    part.sample({'base': shard[0]})
    return part


def legs(ctx):
    sc = shape_cases(ctx.quick)
    fam = shape_family(ctx.quick)
    out = [
        Leg('fractional', [[None], [0], [1]], work_fractional, exhaustive=True,
            bound='%d subscripts written as fractions (below, at and above .5; negative; double; single and double variables) x 4 '
                  'fractional DIM bounds x OPTION BASE unset/0/1: the element read and the element assigned' % len(FRAC_SUBS)),
        Leg('shapes', list(chunked(sorted(sc, key=lambda c: (hash_shape(c))), 6 if ctx.quick else 4)),
            work_shapes, exhaustive=True,
            bound='%d shapes (1-3 dims over bounds {0,1,2,3,10,11}%s, 4 dims over bounds <= %d, (30) and '
                  '(30,30)) x OPTION BASE unset/0/1 x type (all four types for shapes of <= 64 elements%s): '
                  '%d arrays, every in-range tuple written+read, every single excursion' % (
                      len(fam), ' (3-D: {0,1,2,3} + 3 mixed)' if ctx.quick else '',
                      1 if ctx.quick else 2, ' - quick: one type per shape' if ctx.quick else '', len(sc))),
    ]
    fc = firstuse_cases(ctx.quick)
    out.append(Leg('firstuse', list(chunked(fc, 12)), work_firstuse, exhaustive=True,
                   bound='first use of an undeclared array: 1-4 dims x base unset/0/1 x %s x read/write x '
                         'every corner subscript in {base,10}^n: %d cases' % (
                             'one type per (dims, base)' if ctx.quick else 'all four types', len(fc))))
    out.append(Leg('history', [40], work_history, exhaustive=True, serial=True,
                   bound='BFS to the fixed point over %d statements (DIM 1-D/2-D/(0), implicit read/write, '
                         'ERASE, OPTION BASE 0/1, second array)' % len(HOPS)))
    return out


def hash_shape(c):
    # deterministic interleaving of big and small shapes over shards
    dims, base, t = c
    n = 1
    for d in dims:
        n *= d + 1
    return (n * 7919 + len(dims) * 31 + (base or 0) * 3 + TYPES.index(t)) % 1013, dims, base or -1, t


def _replay_fractional(case):
    part = work_fractional([case['base']])
    part.viol = [v for v in part.viol if v[2].get('dim') == case['dim'] and v[2].get('sub') == case['sub']]
    return part


def replay(ctx, leg, case):
    if leg == 'fractional':
        return _replay_fractional(case)
    part = Partial()
    if leg == 'shapes':
        check_shape(part, (tuple(case[0]), case[1], case[2]))
    elif leg == 'firstuse':
        check_firstuse(part, (case[0], case[1], case[2], case[3], tuple(case[4])))
    elif leg == 'history':
        hist = tuple(case['history'])
        s, ref = hist_rebuild(hist[:-1])
        viols = []
        ok, _ = hist_step(s, ref, HOPS[hist[-1]], viols)
        if ok:
            hist_check_state(s, ref, viols)
        for k, w in viols:
            part.violation(k, w, case)
    return part
