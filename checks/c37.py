"""
C37 - the keyboard buffer is a 15-key FIFO mirrored in BIOS memory at 0:041A..0:043D.

E2: breadth-first search over histories of {key press, INKEY$, INPUT$(1), Enter+LINE INPUT,
POKE 1050,PEEK(1052)} on a real Session, run to the FIXED POINT of the canonical
key (ring phase, number waiting, relabelled ring window), so that head/tail
wrap-around is covered at every ring offset.  A FIFO list of capacity 15 is
stepped in lock-step; after every operation the BIOS view (PEEK 1050/1052 and
the 16 slots 1054..1085) is compared with the model.
"""
from mc.core import Leg, Partial, CheckError
from mc import bfs
from mc import harness as H

PROPERTY = 'C37'
ENGINE = 'E2 bfs'
LEVEL = 'model_checking'
LEVEL_TEXT = (
    'Explicit-state BFS on the real Session/keyboard objects over all histories of key presses, '
    'INKEY$, INPUT$(1), Enter+LINE INPUT and the buffer-clearing POKE, de-duplicated on the complete '
    'hidden ring state and run to a fixed point (every head/tail phase of the 16-slot ring up to five times round it, 0..15 keys '
    'waiting, buffer-full drops); a 15-key FIFO reference model and the PEEK view are checked in every state.')
LEVEL_NOTE = ('Key labels are data-independent (fresh letter per press, relabelled in the canonical key); '
              'between operations the harness snapshots/restores KeyboardBuffer._buffer/_start instead of '
              'replaying the history again for every successor. POKEs of arbitrary values to 1050/1052 are '
              'not in the statement and not explored (except the tail poked onto the head).')
TECHNIQUE = 'explicit-state BFS to a fixed point over key/read/clear histories on the real keyboard ring buffer vs. a FIFO reference model'
RULE = ('all operation histories (BFS with exact canonical-state dedup) until no new state appears; a case class '
        'is (operation, number waiting before, outcome); non-trivial = every class')
ASSUMPTIONS = [
    'internal seam: KeyboardBuffer._buffer/_start (canonical key and snapshot/restore), scripted input queue',
    'slots outside head..tail are unspecified by the statement and not compared',
]

# ('cleartail': the tail pointer is moved onto the head instead of the head onto the tail: nothing is left between them)
OPS = ('press', 'inkey', 'clear', 'input1', 'lineinput', 'cleartail')
CAP = 15
QUICK_DEPTH = 400


def _label(npress):
    return chr(97 + npress % 26)


def _press(s, ch):
    s.verif_inputs._pending.append(H.key_event(ch))
    r = H.run(s, b'X=X')
    if r.exc is not None:
        raise r.exc


def _apply(s, op, model, npress, viols):
    """Apply op to real session and to the model; append (key, what) to viols."""
    before = len(model)
    outcome = 'ok'
    if op == 'press':
        ch = _label(npress)
        _press(s, ch)
        if len(model) < CAP:
            model.append(ch)
        else:
            outcome = 'dropped'
        npress += 1
    elif op == 'inkey':
        r = H.run(s, b'A$=INKEY$')
        if r.exc is not None or r.err is not None:
            viols.append(('inkey/error', 'INKEY$ failed: %r' % (r,)))
        got = s.get_variable('A$')
        exp = model.pop(0).encode() if model else b''
        if not exp:
            outcome = 'empty'
        if got != exp:
            viols.append((
                'inkey/%s' % ('returned-key-from-empty' if not exp else 'wrong-key'),
                'INKEY$ returned %r, FIFO model says %r (waiting before: %d)' % (got, exp, before)))
    elif op == 'input1':
        r = H.run(s, b'A$=INPUT$(1)')
        got = s.get_variable('A$')
        exp = model.pop(0).encode()
        if r.exc is not None or r.err is not None or got != exp:
            viols.append(('input1/wrong-key', 'INPUT$(1) returned %r (%r), model %r' % (got, r, exp)))
    elif op == 'lineinput':
        _press(s, '\r')
        r = H.run(s, b'LINE INPUT A$')
        got = s.get_variable('A$')
        exp = ''.join(model).encode()
        del model[:]
        if r.exc is not None or r.err is not None or r.exit or got != exp:
            viols.append(('lineinput/wrong-text', 'LINE INPUT returned %r (%r), model %r' % (got, r, exp)))
    elif op == 'clear':
        r = H.run(s, b'POKE 1050,PEEK(1052)')
        if r.exc is not None or r.err is not None:
            viols.append(('clear/error', 'clear POKE failed: %r' % (r,)))
        del model[:]
    elif op == 'cleartail':
        head = s.evaluate('PEEK(1050)')
        r = H.run(s, b'POKE 1052,PEEK(1050)')
        if r.exc is not None or r.err is not None:
            viols.append(('cleartail/error', 'POKE 1052,PEEK(1050) failed: %r' % (r,)))
        elif (s.evaluate('PEEK(1050)'), s.evaluate('PEEK(1052)')) != (head, head):
            viols.append(('cleartail/pointers', 'after POKE 1052,PEEK(1050) with the head at %d: head %d, tail %d' % (
                head, s.evaluate('PEEK(1050)'), s.evaluate('PEEK(1052)'))))
        del model[:]
    else:
        raise CheckError('unknown op %r' % (op,))
    return npress, '%s/%d/%s' % (op, before, outcome)


def _bios_view(s):
    ev = s.evaluate
    head = ev('PEEK(1050)') + 256 * ev('PEEK(1051)')
    tail = ev('PEEK(1052)') + 256 * ev('PEEK(1053)')
    slots = [ev('PEEK(%d)' % (1054 + 2 * i)) for i in range(16)]
    return head, tail, slots


def _check_view(s, model, viols, op):
    head, tail, slots = _bios_view(s)
    ok_ptr = (30 <= head <= 60 and 30 <= tail <= 60 and head % 2 == 0 and tail % 2 == 0)
    if not ok_ptr:
        viols.append(('bios/pointer-out-of-range', 'after %s: head=%d tail=%d' % (op, head, tail)))
        return
    h, t = (head - 30) // 2, (tail - 30) // 2
    if (t - h) % 16 != len(model):
        viols.append((
            'bios/count-mismatch-after-%s' % op,
            'after %s: head=%d tail=%d => %d waiting, model has %d' % (op, head, tail, (t - h) % 16, len(model))))
        return
    for i, ch in enumerate(model):
        if slots[(h + i) % 16] != ord(ch):
            viols.append((
                'bios/slot-mismatch-after-%s' % op,
                'after %s: slot %d holds %d, model key %r (head=%d tail=%d slots=%r)' % (
                    op, (h + i) % 16, slots[(h + i) % 16], ch, head, tail, slots)))
            return


def _canon(s, model):
    buf = s._impl.keyboard.buf
    b = buf._buffer
    n = len(b)
    # waiting keys relabelled in order; slots outside head..tail are abstracted to '*':
    # no code path branches on the content of a consumed slot (getc reads _buffer[_start],
    # append appends, the full-marker and ring_set_boundaries only move entries), so states
    # that differ only there have the same futures for everything this check observes.
    waiting = b[buf._start:] if buf._start <= n else []
    relabel = {}
    out = []
    for c, scan in waiting[:17]:
        if len(c) == 1 and c.isalpha():
            if c not in relabel:
                relabel[c] = len(relabel)
            out.append(relabel[c])
        else:
            out.append((bytes(c), scan))
    kb = s._impl.keyboard
    if kb._expansion_vessel or kb._stream_buffer:
        raise CheckError('unexpected keyboard side state')
    # (the absolute length of the keystroke list is kept up to 5 times round the ring: nothing in the statement
    # depends on how many keys have gone through the buffer, but an implementation might)
    return (n % 16, n - buf._start, min(n, 80), tuple(out), len(model))


def _fresh():
    s = H.new_session(horizon=60)
    r = H.run(s, b'DEF SEG=0')
    if r.exc is not None or r.err is not None:
        raise CheckError('DEF SEG failed')
    return s


def _replay_history(hist):
    s = _fresh()
    model = []
    npress = 0
    viols = []
    for op in hist:
        npress, _ = _apply(s, op, model, npress, viols)
    return s, model, npress


def expand(hist):
    s, model, npress = _replay_history(hist)
    buf = s._impl.keyboard.buf
    snap = (list(buf._buffer), buf._start)
    out = []
    for op in OPS:
        if op == 'input1' and not model:
            continue          # would block
        if op == 'lineinput' and len(model) >= CAP:
            continue          # the Enter key would be dropped and LINE INPUT would block
        buf._buffer = list(snap[0])
        buf._start = snap[1]
        m = list(model)
        viols = []
        try:
            np2, info = _apply(s, op, m, npress, viols)
            _check_view(s, m, viols, op)
        except H.Horizon:
            viols.append(('blocked/%s' % op, 'operation %s blocked (poll horizon) with %d keys waiting' % (op, len(model))))
            # session is unusable now; rebuild
            s, _, _ = _replay_history(hist)
            buf = s._impl.keyboard.buf
            out.append((op, None, viols, '%s/blocked' % op))
            continue
        key = None if viols else _canon(s, m)
        out.append((op, key, viols, info))
    return out


def work_bfs(depth):
    part = Partial()
    s = _fresh()
    root = _canon(s, [])
    res = bfs.explore(expand, [()], depth, part, root_key=root)
    part.add('max_depth_allowed', depth)
    part.sample({'levels': res['levels'][:6], 'fixed_point': res['fixed_point']})
    return part


# ---------------------------------------------------------------------------
# keys inserted through Session.press_keys are not limited to 15; typed keys are refused while 15 or more wait.
# Whatever is delivered comes in order, none lost, none repeated, none replaced.

def paste_cases(quick):
    out = []
    for n in (list(range(13, 19)) + [31, 32, 33, 34]) if quick else range(0, 50):
        for reads in (0, 1, 3):
            for typed2 in (0, 1, 2):
                out.append((n, reads, typed2))
    return out


def work_paste(shard):
    part = Partial()
    for n, reads, typed2 in shard:
        case = {'pasted': n, 'reads': reads, 'typed_after': typed2}
        s = _fresh()
        model = []
        text = ''.join(chr(65 + i % 26) for i in range(n))
        if n:
            s.press_keys(text)
            model.extend(text)
        labels = iter('zyxwv')
        viols = []

        def typed():
            ch = next(labels)
            _press(s, ch)
            if len(model) < CAP:
                model.append(ch)

        typed()
        for _ in range(reads):
            _apply(s, 'inkey', model, 0, viols)
        for _ in range(typed2):
            typed()
        # read everything that waits, and two more
        for _ in range(len(model) + 2):
            _apply(s, 'inkey', model, 0, viols)
        part.n += 1
        part.traces += 1
        for k, w in viols[:1]:
            part.violation('paste/' + k, 'pasted %d keys, typed one, read %d, typed %d: %s' % (n, reads, typed2, w), case)
        part.classes.add('paste/%s/%s' % ('over15' if n >= CAP else 'under15', 'over31' if n > 31 else ''))
        s.close()
    part.sample({'pasted': shard[0][0], 'reads': shard[0][1], 'typed_after': shard[0][2]})
    return part


def legs(ctx):
    from mc.core import chunked
    pc = paste_cases(ctx.quick)
    return _legs_ring(ctx) + [
        Leg('paste', list(chunked(pc, 15)), work_paste, exhaustive=True,
            bound='%d scenarios: n keys inserted with Session.press_keys (n = %s), a typed key, 0/1/3 reads, 0..2 more typed keys, then '
                  'everything is read: keys come out in order, typed keys are refused only while 15 or more wait, no waiting key is '
                  'replaced' % (len(pc), '13..18, 31..34' if ctx.quick else '0..49'))]


def _legs_ring(ctx):
    depth = QUICK_DEPTH if ctx.quick else 400
    return [Leg('ring-bfs', [depth], work_bfs, exhaustive=True, serial=True,
                bound='all histories over %r up to depth %d with exact state dedup%s' % (
                    OPS, depth, ' (run to fixed point)'))]


def replay(ctx, leg, case):
    part = Partial()
    if leg == 'paste':
        return work_paste([(case['pasted'], case['reads'], case['typed_after'])])
    hist = tuple(case['history'])
    for op, key, viols, info in expand(hist[:-1]):
        if op == hist[-1]:
            for vkey, what in viols:
                part.violation(vkey, what, case)
    return part
