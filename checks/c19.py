"""
C19 - structured control flow follows its reference semantics.

E1 over a bounded program grammar: every program derivable with at most N
statement productions (nesting depth <= D) from a statement alphabet ("profile"),
laid out one-statement-per-line and packed into multi-statement lines, RUN on the
real interpreter and compared (full PRINT trace + final error code / line) with
models/minibasic.py, an independent statement-pointer interpreter.
"""
import os
from fractions import Fraction as Fr

from mc.core import Leg, Partial, CheckError, chunked
from mc import harness as H
from mc.progrun import Runner, judge, split_output
from models import minibasic as MB

PROPERTY = 'C19'
ENGINE = 'E1 domain (bounded program grammar)'
LEVEL = 'model_checking'
LEVEL_TEXT = (
    'Every program of a bounded structured-BASIC grammar (all derivations with at most N '
    'statement productions and nesting depth <= D over FOR/NEXT, WHILE/WEND, GOSUB/RETURN, '
    'GOTO out of a construct, IF/THEN/ELSE in statement and line-number form, ON n GOTO/GOSUB, '
    'stray NEXT/WEND/RETURN) is run on the real interpreter in two layouts and its complete '
    'output trace and final error are compared with an independent reference interpreter. '
    'Plus the full product of boundary start/end/step triples for integer and single loops.')
LEVEL_NOTE = ('Trusted: models/minibasic.py (written from the statement), the lowering of the AST to '
              'text, PRINT of small numbers, NEW between programs (re-validated on fresh sessions).')
TECHNIQUE = ('bounded exhaustive enumeration of structured programs on Session.execute(RUN) against an '
             'independent AST/statement-pointer reference interpreter')
RULE = ('all ASTs with <= N productions from the profile alphabet, each in layouts A (one statement per '
        'line) and B (packed lines, NEXT v / NEXT J,I forms, bare THEN line numbers); a case class is '
        '(profile, multiset of constructs used, final outcome kind); trivial = straight-line programs')
ASSUMPTIONS = [
    'observation through the public Session (program entry, RUN, captured output)',
    'unspecified, accepted either way: FOR ... STEP 0 (only crash freedom / termination of the guarded program checked)',
    'unspecified: value of the loop counter after the loop (never printed outside its loop)',
    'unspecified: ON n with n<0 or n>255 (Illegal function call or fall-through both accepted)',
    'unspecified: a NEXT/WEND that has no lexical partner executed while some loop is still active '
    '(only the empty-stack case must raise NEXT without FOR / WEND without WHILE)',
    'FOR I% stepping past 32767 raises Overflow at the NEXT (consistent with C02)',
    'loop parameters are exactly representable (integers and binary fractions): no rounding model needed',
]

MARKS = 'abcdefghijklmnopqrstuvwxyzABCDEFGHIJKLMNOPQRSTUVWXYZ0123456789'

###############################################################################
# profiles: the statement alphabets

# FOR parameter sets: (start, end, step or None, sigil)
FP = {
    'up': (1, 2, None, ''),
    'down%': (2, 1, -1, '%'),
    'empty!': (2, 1, None, '!'),
    'emptydown': (1, 2, -1, ''),
    'half!': (1, 2, Fr(1, 2), '!'),
    'one%': (3, 3, 1, '%'),
    'ovf%': (32766, 32767, 1, '%'),
    'neg%': (-32767, -32768, -1, '%'),
    'up3': (1, 3, 2, ''),
}


def profile(name, tier):
    q = tier == 'quick'
    if name == 'nest':
        return dict(
            name=name, N=3 if q else 4, depth=3, maxlen=3,
            forp=['up', 'down%', 'empty!'], whilek=['count', 'false'],
            conds=['T', 'F', 'V'], stray='NWR', on_n=[0, 1, 2, 3], on_kinds=['goto', 'gosub'], on_nt=[2],
            gosub=True, gotox=True, pv=True, if_max=3 if q else 4, empty_body=True)
    if name == 'for':
        return dict(
            name=name, N=3 if q else 4, depth=3, maxlen=2,
            forp=['up', 'down%', 'empty!', 'emptydown', 'half!', 'one%', 'ovf%', 'neg%', 'up3'], whilek=[],
            conds=['V'], stray='N', on_n=[], on_kinds=[], on_nt=[],
            gosub=False, gotox=True, pv=True, if_max=2, empty_body=True)
    if name == 'on':
        return dict(
            name=name, N=3, depth=2, maxlen=3,
            forp=['up'], whilek=[],
            conds=['T', 'F'], stray='',
            on_n=[-1, 0, 1, 2, 3, 256] if q else [-1, 0, 1, 2, 3, 4, 255, 256], on_kinds=['goto', 'gosub'],
            on_nt=[2] if q else [1, 2, 3], gosub=True, gotox=False, pv=False, if_max=2, empty_body=False)
    if name == 'gosub':
        return dict(
            name=name, N=4 if q else 5, depth=3, maxlen=3,
            forp=['up'], whilek=['count'],
            conds=['T', 'F'], stray='R', on_n=[1, 2], on_kinds=['gosub'], on_nt=[1],
            gosub=True, gotox=True, pv=False, if_max=3, empty_body=False)
    raise CheckError('unknown profile ' + name)


###############################################################################
# enumeration of ASTs
#
# nodes: ('P',) marker | ('PV',) print innermost loop variable | ('X',) GOTO the exit of the
# innermost enclosing construct | ('S', k) stray NEXT/WEND/RETURN | ('ON', n, kind, ntargets)
# | ('G', block) GOSUB to an own subroutine | ('F', param, block) | ('W', kind, block)
# | ('IF', cond, thenlist, elselist or None)

NOLOOP = (None, False, False)    # (innermost loop kind, lexically inside FOR, inside WHILE)


class Gen(object):

    def __init__(self, prof):
        self.p = prof
        self.memo_s = {}
        self.memo_b = {}
        self.memo_l = {}

    def atoms(self, loop):
        p = self.p
        out = [('P',)]
        if p['pv'] and loop[0] in ('F', 'Wc'):
            out.append(('PV',))
        if p['gotox']:
            out.append(('X',))
        for k in p['stray']:
            # a NEXT (WEND) with no partner must not sit lexically inside a FOR (WHILE) body:
            # there it would *be* the textual partner of that FOR (WHILE)
            if (k == 'N' and loop[1]) or (k == 'W' and loop[2]):
                continue
            out.append(('S', k))
        for n in p['on_n']:
            for kind in p['on_kinds']:
                for nt in p['on_nt']:
                    out.append(('ON', n, kind, nt))
        return out

    def stmts(self, n, depth, loop):
        """All statements with exactly n productions; depth = nesting levels still allowed."""
        key = (n, depth, loop)
        if key in self.memo_s:
            return self.memo_s[key]
        p = self.p
        out = []
        if n == 1:
            out.extend(self.atoms(loop))
        if depth > 0 and n >= 1:
            lo = 0 if p['empty_body'] else 1
            if n - 1 >= lo:
                for fp in p['forp']:
                    for b in self.block(n - 1, depth - 1, ('F', True, loop[2]), p['maxlen']):
                        out.append(('F', fp, b))
                for wk in p['whilek']:
                    for b in self.block(n - 1, depth - 1, ('Wc' if wk == 'count' else 'Wf', loop[1], True),
                                        p['maxlen']):
                        out.append(('W', wk, b))
            if p['gosub'] and n - 1 >= 1:
                # the subroutine body is its own construct: X inside means "GOTO the RETURN"
                for b in self.block(n - 1, depth - 1, NOLOOP, p['maxlen']):
                    out.append(('G', b))
        if n >= 2 and n <= p['if_max'] + 1:
            out.extend(self.ifs(n, depth, loop))
        self.memo_s[key] = out
        return out

    def ifs(self, n, depth, loop):
        out = []
        conds = [c for c in self.p['conds'] if c != 'V' or loop[0] in ('F', 'Wc')]
        for nthen in range(1, n):
            nelse = n - 1 - nthen
            thens = self.simple_list(nthen, depth, loop)
            elses = self.simple_list(nelse, depth, loop) if nelse else [None]
            for c in conds:
                for t in thens:
                    for e in elses:
                        out.append(('IF', c, t, e))
        return out

    def simple_list(self, n, depth, loop):
        """Statement lists allowed in an IF branch (one line): at most 2 statements, no loops;
        X, stray statements and a nested IF only in last position."""
        key = (n, depth, loop)
        if key in self.memo_l:
            return self.memo_l[key]
        out = []

        def simple(k, last):
            r = []
            for s in self.stmts(k, depth, loop):
                if s[0] in ('F', 'W'):
                    continue
                if s[0] == 'ON' and s[2] == 'goto':
                    continue        # the ON GOTO switch spans several lines
                if s[0] in ('X', 'S', 'IF') and not last:
                    continue
                r.append(s)
            return r
        for s in simple(n, True):
            out.append((s,))
        for k in range(1, n):
            for a in simple(k, False):
                for b in simple(n - k, True):
                    out.append((a, b))
        self.memo_l[key] = out
        return out

    def block(self, n, depth, loop, maxlen):
        key = (n, depth, loop, maxlen)
        if key in self.memo_b:
            return self.memo_b[key]
        out = []
        if n == 0:
            out.append(())
        elif maxlen >= 1:
            for k in range(1, n + 1):
                firsts = self.stmts(k, depth, loop)
                if not firsts:
                    continue
                rests = self.block(n - k, depth, loop, maxlen - 1)
                for a in firsts:
                    for r in rests:
                        out.append((a,) + r)
        self.memo_b[key] = out
        return out

    def programs(self):
        out = []
        for n in range(1, self.p['N'] + 1):
            out.extend(self.block(n, self.p['depth'], NOLOOP, self.p['maxlen']))
        return out


###############################################################################
# lowering: AST -> flat statements with symbolic labels -> laid-out lines

class Label(object):
    __slots__ = ('n', 'refs')

    def __init__(self):
        self.n = None
        self.refs = 0


class Lower(object):
    """variant 'A': bare NEXT, GOTO in IF branches; 'B': NEXT v, NEXT J,I where possible,
    bare line numbers after THEN/ELSE."""

    def __init__(self, variant):
        self.variant = variant
        self.units = []         # [labels, [stmts], ends_line]
        self.pending = []
        self.nmark = 0
        self.nid = 0
        self.subs = []          # queued (label, block, subdepth)
        self.used = set()

    def mark(self):
        i = self.nmark
        self.nmark += 1
        return MARKS[i] if i < len(MARKS) else 'z%d.' % i

    def newid(self):
        self.nid += 1
        return self.nid

    def emit(self, stmts, ends_line=False):
        self.units.append([self.pending, list(stmts), ends_line])
        self.pending = []

    def place(self, label):
        self.pending.append(label)

    def lower_program(self, block):
        end = Label()
        self.block(block, dict(sd=0, fd=0, wd=0, exit=end, loopvar=None, loopstart=None))
        self.place(end)
        self.emit([('end',)])
        while self.subs:
            lab, body, sd = self.subs.pop(0)
            ret = Label()
            self.place(lab)
            self.block(body, dict(sd=sd, fd=0, wd=0, exit=ret, loopvar=None, loopstart=None))
            self.place(ret)
            self.emit([('return',)])

    def block(self, block, cx):
        i = 0
        while i < len(block):
            self.stmt(block[i], cx)
            i += 1

    def forvar(self, cx, sigil):
        return 'IJKLMNOPQRSTUV'[cx['sd'] * 3 + cx['fd']] + sigil

    def cond(self, c, cx):
        if c == 'T':
            return ('c', 1)
        if c == 'F':
            return ('c', 0)
        return ('rel', '<>', ('v', cx['loopvar']), ('c', cx['loopstart']))

    def simple(self, s, cx, first_in_branch=False):
        """Flat statements for a one-statement construct."""
        k = s[0]
        self.used.add(k if k != 'S' else 'S' + s[1])
        if k == 'P':
            return [('print', self.mark())]
        if k == 'PV':
            return [('printv', cx['loopvar'])]
        if k == 'X':
            cx['exit'].refs += 1
            return [('goto', cx['exit'])]
        if k == 'S':
            if s[1] == 'N':
                return [('next', [None], None)]
            if s[1] == 'W':
                return [('wend', None)]
            return [('return',)]
        if k == 'G':
            lab = Label()
            self.subs.append((lab, s[1], cx['sd'] + 1))
            return [('gosub', lab)]
        if k == 'ON' and s[2] == 'gosub':
            labs = []
            for _ in range(s[3]):
                lab = Label()
                self.subs.append((lab, (('P',),), cx['sd'] + 1))
                labs.append(lab)
            return [('on', ('c', s[1]), 'gosub', labs)]
        if k == 'IF':
            return self.if_group(s, cx)
        raise CheckError('not a simple statement %r' % (s,))

    def if_group(self, s, cx):
        _, c, thens, elses = s
        bare = self.variant == 'B'
        out = []
        head = ['if', self.cond(c, cx), None]
        body = []
        for j, t in enumerate(thens):
            if j == 0 and t[0] == 'X' and bare:
                head[2] = cx['exit']
                cx['exit'].refs += 1
                self.used.add('X')
            else:
                body.extend(self.simple(t, cx))
        out.append(tuple(head))
        out.extend(body)
        if elses is not None:
            em = ['else', None]
            ebody = []
            for j, t in enumerate(elses):
                if j == 0 and t[0] == 'X' and bare:
                    em[1] = cx['exit']
                    cx['exit'].refs += 1
                    self.used.add('X')
                else:
                    ebody.extend(self.simple(t, cx))
            out.append(tuple(em))
            out.extend(ebody)
        return out

    def stmt(self, s, cx):
        k = s[0]
        if k == 'IF':
            self.used.add('IF')
            self.emit(self.if_group(s, cx), ends_line=True)
        elif k == 'F':
            self.used.add('F:' + s[1])
            a, b, st, sigil = FP[s[1]]
            var = self.forvar(cx, sigil)
            fid = self.newid()
            after = Label()
            self.emit([('for', fid, var, ('c', a), ('c', b), None if st is None else ('c', st))])
            inner = dict(cx, fd=cx['fd'] + 1, exit=after, loopvar=var, loopstart=a)
            self.block(s[2], inner)
            # NEXT forms
            if self.variant == 'B':
                last = self.units[-1]
                if (len(last[1]) == 1 and last[1][0][0] == 'next' and last[1][0][2]
                        and last[1][0][1][0] is not None
                        and not any(l.refs for l in self.pending)):
                    # body ended with an inner loop's NEXT v: merge into NEXT J,I
                    nx = last[1][0]
                    last[1][0] = ('next', nx[1] + [fid], nx[2] + [var])
                    self.used.add('NEXT,')
                else:
                    self.emit([('next', [fid], [var])])
            else:
                self.emit([('next', [fid], None)])
            self.place(after)
        elif k == 'W':
            self.used.add('W:' + s[1])
            wid = self.newid()
            after = Label()
            if s[1] == 'count':
                var = 'W' + 'ABCDEFGHIJKL'[cx['sd'] * 3 + cx['wd']]
                self.emit([('let', var, ('c', 0))])
                self.emit([('while', wid, ('rel', '<', ('v', var), ('c', 2)))])
                self.emit([('let', var, ('+', ('v', var), ('c', 1)))])
                inner = dict(cx, wd=cx['wd'] + 1, exit=after, loopvar=var, loopstart=1)
            else:
                self.emit([('while', wid, ('c', 0))])
                inner = dict(cx, wd=cx['wd'] + 1, exit=after, loopvar=None, loopstart=None)
            self.block(s[2], inner)
            self.emit([('wend', wid)])
            self.place(after)
        elif k == 'ON' and s[2] == 'goto':
            self.used.add('ONGOTO')
            labs = [Label() for _ in range(s[3])]
            end = Label()
            self.emit([('on', ('c', s[1]), 'goto', labs)])
            self.emit([('print', self.mark())])
            self.emit([('goto', end)])
            for j, lab in enumerate(labs):
                self.place(lab)
                self.emit([('print', self.mark())])
                if j + 1 < len(labs):
                    self.emit([('goto', end)])
            self.place(end)
        else:
            for f in self.simple(s, cx):
                self.emit([f])

    def layout(self):
        """-> list of (number, [stmts]) with labels resolved."""
        lines = []
        cur = None
        closed = True
        cap = 1 if self.variant == 'A' else 4
        for labels, stmts, ends in self.units:
            if closed or labels or cur is None or len(cur[1]) + len(stmts) > max(cap, len(stmts)):
                cur = [[], []]
                lines.append(cur)
            cur[0].extend(labels)
            cur[1].extend(stmts)
            closed = ends
        if self.pending:
            raise CheckError('dangling labels')
        out = []
        for i, (labels, stmts) in enumerate(lines):
            num = 10 * (i + 1)
            for lab in labels:
                lab.n = num
        for i, (labels, stmts) in enumerate(lines):
            out.append((10 * (i + 1), [resolve(s) for s in stmts]))
        return out


def _ln(x):
    if isinstance(x, Label):
        if x.n is None:
            raise CheckError('unresolved label')
        return x.n
    return x


def resolve(s):
    k = s[0]
    if k in ('goto', 'gosub'):
        return (k, _ln(s[1]))
    if k == 'if':
        return ('if', s[1], _ln(s[2]))
    if k == 'else':
        return ('else', _ln(s[1]))
    if k == 'on':
        return ('on', s[1], s[2], [_ln(x) for x in s[3]])
    return s


def build(ast, variant):
    lo = Lower(variant)
    lo.lower_program(ast)
    return lo.layout(), lo.used


def final_kind(o):
    f = o.final
    if f[0] == 'err':
        return 'E%d' % f[1]
    return f[0]


###############################################################################
# legs

_PROGS = {}


def get_programs(pname, tier):
    key = (pname, tier)
    if key not in _PROGS:
        _PROGS[key] = Gen(profile(pname, tier)).programs()
    return _PROGS[key]


def _constructs(used):
    return '+'.join(sorted(set(u.split(':')[0] for u in used if u != 'P')))


def _culprit(ast_used, outcomes, res=None):
    """Violation key component: the constructs of the program + expected outcome."""
    if (res is not None and 'zero-trip-for-into-next-list' in outcomes[0].notes
            and res['final'] is not None and res['final'][:2] == ('err', MB.SYNTAX)):
        return '=zero-trip-for-matching-NEXT-with-variable-list/syntax-error'
    if (res is not None and 'zero-trip-for-start-plus-step-overflows' in outcomes[0].notes
            and res['final'] is not None and res['final'][:2] == ('err', MB.OVERFLOW)
            and outcomes[0].final[:2] != ('err', MB.OVERFLOW)):
        return '=zero-trip-for-integer-start-plus-step-out-of-range/overflow'
    return '%s/exp-%s' % (_constructs(ast_used) or 'P', final_kind(outcomes[0]))


def _key(pname, culprit):
    return culprit if culprit.startswith('=') else '%s/%s' % (pname, culprit)


def work_grammar(shard):
    pname, tier, lo, hi = shard
    progs = get_programs(pname, tier)
    part = Partial()
    runner = Runner()
    for idx in range(lo, hi):
        ast = progs[idx]
        traces = {}
        for variant in 'ABC':
            # 'C': the lowering of 'B' written with a blank before every list comma and statement separator
            lines, used = build(ast, 'B' if variant == 'C' else variant)
            MB.LAYOUT = 'spaced' if variant == 'C' else 'tight'
            try:
                case = {'profile': pname, 'tier': tier, 'index': idx, 'variant': variant,
                        'program': [t.decode('latin-1') for t in MB.program_text(lines)]}
                outcomes, res = judge(part, runner, lines, case,
                                      lambda oc, rs, used=used: _key(pname, _culprit(used, oc, rs)))
            finally:
                MB.LAYOUT = 'tight'
            part.n += 1
            traces[variant] = [(o.trace, o.final[:2]) for o in outcomes]
            cls = '%s/%s/%s' % (variant, _constructs(used) or '-', final_kind(outcomes[0]))
            part.classes.add(cls)
            part.outcome(final_kind(outcomes[0]))
            if idx == lo and variant == 'B':
                part.sample(case)
        if traces['A'] != traces['B'] or traces['C'] != traces['B']:
            raise CheckError('model gives different results for the two layouts of AST %r' % (ast,))
    return part


# value-rich single/double loops -------------------------------------------------

INT_V = [-32768, -32767, -2, -1, 0, 1, 2, 3, 32766, 32767]
INT_S = [1, -1, 2, -2, 3, 32767, -32768, 16384]
SNG_V = [Fr(-2), Fr(-1), Fr(-1, 2), Fr(0), Fr(1, 2), Fr(1), Fr(3, 2), Fr(2), Fr(3)]
SNG_S = [Fr(1, 2), Fr(-1, 2), Fr(1), Fr(-1), Fr(3, 2), Fr(-3, 2), Fr(2), Fr(1, 4)]
MAX_TRIPS = 8


def _trips(a, b, s):
    if s > 0:
        return 0 if a > b else int((b - a) // s) + 1
    return 0 if a < b else int((a - b) // (-s)) + 1


def forparam_cases():
    cases = []
    for sig, V, S in (('%', INT_V, INT_S), ('!', SNG_V, SNG_S), ('', SNG_V, SNG_S)):
        for a in V:
            for b in V:
                for s in S + [None]:
                    if _trips(Fr(a), Fr(b), Fr(1 if s is None else s)) > MAX_TRIPS:
                        continue
                    for shape in ('single', 'inner', 'outer'):
                        cases.append((sig, a, b, s, shape))
                    if abs(1 if s is None else s) <= 3:
                        # limit and step given as variables of the counter's type that the body reassigns:
                        # the loop runs over the values fixed at entry
                        cases.append((sig, a, b, s, 'varbound'))
                        # the loop is left from its body and its FOR is executed again with another step: the second
                        # FOR replaces the first (its NEXT works with the new step and limit)
                        cases.append((sig, a, b, s, 'reenter'))
    return cases


def forparam_lines(case, variant):
    sig, a, b, s, shape = case
    v = 'I' + sig
    st = None if s is None else ('c', s)
    named = variant == 'B'
    f = ('for', 1, v, ('c', a), ('c', b), st)
    if shape == 'varbound':
        lim, stp = 'N' + sig, 'S' + sig
        sv = 1 if s is None else s
        f = ('for', 1, v, ('c', a), ('v', lim), ('v', stp))
        stmts = [('let', lim, ('c', b)), ('let', stp, ('c', sv)), f, ('printv', v),
                 ('let', lim, ('c', a)), ('let', stp, ('-', ('c', 0), ('v', stp))),
                 ('next', [1], [v] if named else None), ('print', 'e')]
    elif shape == 'reenter':
        stp = 'S' + sig
        sv = 1 if s is None else s
        f = ('for', 1, v, ('c', a), ('c', b), ('v', stp))
        lines = [(10, [('let', stp, ('c', sv)), ('let', 'R', ('c', 0))]),
                 (20, [f]),
                 (30, [('printv', v)]),
                 (40, [('if', ('rel', '=', ('v', 'R'), ('c', 0)), None), ('let', 'R', ('c', 1)),
                       ('let', stp, ('c', 2 * sv)), ('goto', 20)]),
                 (50, [('next', [1], [v] if named else None), ('print', 'e')])]
        return lines
    elif shape == 'single':
        stmts = [f, ('printv', v), ('next', [1], [v] if named else None), ('print', 'e')]
    elif shape == 'inner':
        # the tested loop inside a two-trip loop
        stmts = [('for', 2, 'J', ('c', 1), ('c', 2), None), ('print', 'o'), f, ('printv', v)]
        if named:
            stmts += [('next', [1, 2], [v, 'J'])]
        else:
            stmts += [('next', [1], None), ('next', [2], None)]
        stmts += [('print', 'e')]
    else:
        # the tested loop around a two-trip loop
        stmts = [f, ('printv', v), ('for', 2, 'J', ('c', 1), ('c', 2), None), ('print', 'i'),
                 ('next', [2], ['J'] if named else None), ('next', [1], [v] if named else None),
                 ('print', 'e')]
    if variant == 'A':
        return [(10 * (i + 1), [x]) for i, x in enumerate(stmts)]
    return [(10, stmts)]


def work_forparam(shard):
    part = Partial()
    runner = Runner()
    for case in shard:
        sig, a, b, s, shape = case
        for variant in 'AB':
            lines = forparam_lines(case, variant)
            c = {'forparam': [sig, str(a), str(b), None if s is None else str(s), shape],
                 'variant': variant,
                 'program': [t.decode('latin-1') for t in MB.program_text(lines)]}
            sg = 0 if s is None else (1 if s > 0 else -1)
            rel = '<' if a < b else ('=' if a == b else '>')
            cls = 'type%s/step%s/start%send/%s' % (sig or 'dflt', {0: 'dflt', 1: '+', -1: '-'}[sg], rel, shape)
            outcomes, res = judge(part, runner, lines, c,
                                  lambda oc, rs, cls=cls: _key('forparam', _culprit([cls], oc, rs)))
            part.n += 1
            part.classes.add(cls + '/' + variant + '/' + final_kind(outcomes[0]))
            part.outcome(final_kind(outcomes[0]))
    part.sample(c)
    return part


# STEP 0: unspecified, crash freedom and termination of the self-limiting program only ------

def step0_cases():
    out = []
    for sig in ('%', '!', ''):
        for a, b in ((1, 3), (3, 1), (1, 1), (0, 0), (-1, 1)):
            for body in ('plain', 'inner', 'gosub'):
                out.append((sig, a, b, body))
    return out


def step0_lines(case):
    sig, a, b, body = case
    v = 'I' + sig
    lines = [
        (10, [('let', 'C', ('c', 0))]),
        (20, [('for', 1, v, ('c', a), ('c', b), ('c', 0))]),
        (30, [('let', 'C', ('+', ('v', 'C'), ('c', 1)))]),
        (40, [('if', ('rel', '>', ('v', 'C'), ('c', 3)), 90)]),
    ]
    if body == 'inner':
        lines.append((50, [('for', 2, 'J', ('c', 1), ('c', 2), None), ('print', 'j'), ('next', [2], None)]))
    elif body == 'gosub':
        lines.append((50, [('gosub', 100)]))
    else:
        lines.append((50, [('print', 'b')]))
    lines.append((60, [('next', [1], None)]))
    lines.append((90, [('print', 'e'), ('end',)]))
    lines.append((100, [('print', 's'), ('return',)]))
    return lines


def work_step0(shard):
    part = Partial()
    runner = Runner(horizon=2000)
    for case in shard:
        lines = step0_lines(case)
        c = {'step0': list(case), 'program': [t.decode('latin-1') for t in MB.program_text(lines)]}
        outcomes, res = judge(part, runner, lines, c, lambda oc, rs: 'step0')
        if outcomes[0].final[0] != 'unspec':
            raise CheckError('STEP 0 case is expected to be unspecified in the model')
        part.n += 1
        part.classes.add('step0/%s/%s' % (case[0] or 'dflt', case[3]))
        part.outcome('unspec')
        # the guarded program must end by itself (its own counter exit) or loop harmlessly:
        # both accepted; only host exceptions are violations (handled in judge)
    part.sample(c)
    return part


# failing jumps under an error trap --------------------------------------------------

TJ_MAIN = [('print', 'm'), ('gosub', 100), ('gosub', 777), ('on', ('c', 1), 'gosub', [777]),
           ('on', ('c', 2), 'gosub', [200, 777]), ('on', ('c', 1), 'gosub', [100]), ('return',),
           ('goto', 777), ('if', ('c', 1), 777), ('on', ('c', 1), 'goto', [777])]
TJ_SUB = [('print', 'u'), ('gosub', 777), ('on', ('c', 1), 'gosub', [777]), ('gosub', 200), ('goto', 777),
          ('return',), ('on', ('c', 2), 'gosub', [200, 777])]


def trapjump_cases(quick):
    import itertools
    n = 2 if quick else 3
    out = []
    for main in itertools.product(range(len(TJ_MAIN)), repeat=n):
        for sub in range(len(TJ_SUB)):
            for resume in ('next', None):
                if resume is None and sub not in (1, 2):
                    continue    # RESUME (retry) variant only with a failing GOSUB in the subroutine
                out.append((main, sub, resume))
    return out


def trapjump_lines(case):
    main, sub, resume = case
    lines = [(10, [('onerror', 900)])]
    for i, m in enumerate(main):
        lines.append((20 + 10 * i, [TJ_MAIN[m], ('print', 'abc'[i])]))
    lines.append((90, [('end',)]))
    lines.append((100, [('print', 's'), TJ_SUB[sub], ('print', 'v'), ('return',)]))
    lines.append((200, [('print', 't'), ('return',)]))
    if resume == 'next':
        lines.append((900, [('printerr',), ('resume', 'next')]))
    else:
        # retry once with the trap off: the same error then ends the program
        lines.append((900, [('printerr',), ('onerror', 0), ('resume', None)]))
    return lines


def work_trapjump(shard):
    part = Partial()
    runner = Runner()
    for case in shard:
        lines = trapjump_lines(case)
        c = {'trapjump': [list(case[0]), case[1], case[2]], 'program': [t.decode('latin-1') for t in MB.program_text(lines)]}
        outcomes, res = judge(part, runner, lines, c, lambda oc, rs: 'trapjump/exp-%s' % final_kind(oc[0]))
        part.n += 1
        part.classes.add('trapjump/%s/%s/%s' % ('+'.join(sorted({TJ_MAIN[m][0] + ('-missing' if 777 in (TJ_MAIN[m][-1] if isinstance(TJ_MAIN[m][-1], list) else [TJ_MAIN[m][-1]]) else '') for m in case[0]})),
                                              TJ_SUB[case[1]][0], final_kind(outcomes[0])))
        part.outcome(final_kind(outcomes[0]))
    part.sample(c)
    return part


# ---------------------------------------------------------------------------
# ON n GOTO / GOSUB with a selector that is not a whole number: rounded to the nearest whole number (halves away from
# zero) in the precision it has

ON_SELECTORS = ['1', '1.4', '1.5', '2.5', '.5', '.4', '3.4', '3.5', '255.4', '255.5', '-.4', '-.5', '2.5#', '1.49999999#',
                '2.4999999999#', '.49999999999#', '-.49999999999#', '255.49999999#', 'A#', 'B!', 'C#-1D-10']
ON_VARS = 'A#=2.4999999999#:B!=1.5:C#=2.5#'


def _on_expected(sel):
    import math
    from fractions import Fraction
    text = {'A#': '2.4999999999', 'B!': '1.5', 'C#-1D-10': '2.4999999999'}.get(sel, sel.rstrip('#'))
    v = Fraction(text)
    n = int(math.floor(abs(v) + Fraction(1, 2))) * (-1 if v < 0 else 1)
    if n < 0 or n > 255:
        return 'E5'
    return {1: 'a', 2: 'b', 3: 'c'}.get(n, 'f')


def work_onselector(shard):
    part = Partial()
    for sel, kind in shard:
        s = H.new_session(horizon=400)
        try:
            case = {'selector': sel, 'kind': kind}
            lines = ['10 ON ERROR GOTO 900', '20 ' + ON_VARS, '30 ON %s %s 100,200,300' % (sel, kind), '40 PRINT "f";', '50 END',
                     '100 PRINT "a";:%s' % ('RETURN 50' if kind == 'GOSUB' else 'END'),
                     '200 PRINT "b";:%s' % ('RETURN 50' if kind == 'GOSUB' else 'END'),
                     '300 PRINT "c";:%s' % ('RETURN 50' if kind == 'GOSUB' else 'END'),
                     '900 PRINT "E";ERR;:END']
            for l in lines:
                r = H.run(s, l.encode('ascii'))
                if r.exc is not None or r.out.strip():
                    raise CheckError('line not accepted: %r -> %r' % (l, r))
            r = H.run(s, b'RUN')
            part.n += 1
            part.traces += 1
            if r.exc is not None:
                part.violation('on-selector/host-exception/%s' % H.exc_key(r.exc), 'ON %s %s: %r' % (sel, kind, r.exc), case)
                continue
            got = r.out.decode('latin-1').replace(' ', '').strip()
            want = _on_expected(sel)
            if got != want:
                part.violation('on-selector/wrong-target/%s' % ('double' if '#' in sel else 'single'),
                               'ON %s %s 100,200,300 printed %r, expected %r' % (sel, kind, got, want), case)
            part.classes.add('on-selector/%s/%s' % (kind, want))
        finally:
            s.close()
    part.sample({'selector': shard[0][0]})
    return part


# ---------------------------------------------------------------------------
# loops that start (or lie entirely) in a THEN or ELSE branch of an IF line, inside and outside an outer loop whose
# own search for its NEXT / WEND passes over them

BL_OUTER = ('none', 'for', 'for0', 'while')
BL_COND = ('T', 'F', 'var')
BL_PART = ('print', 'for', 'while', 'for-open', 'while-open')


def branchloop_cases():
    out = []
    for outer in BL_OUTER:
        for cond in BL_COND:
            if cond == 'var' and outer in ('none', 'for0'):
                continue
            for thenp in BL_PART[:3]:
                for elsep in (None,) + BL_PART:
                    for named in (True, False):
                        if 'for' not in (thenp, elsep or '') and elsep != 'for-open' and outer not in ('for', 'for0') and not named:
                            continue
                        out.append((outer, cond, thenp, elsep, named))
    return out


def branchloop_lines(case):
    outer, cond, thenp, elsep, named = case
    ids = iter(range(1, 20))

    def part(kind, var, mark):
        """-> (statements in the branch, lines after the IF line that close an opener)"""
        if kind == 'print':
            return [('print', mark)], []
        if kind in ('for', 'for-open'):
            fid = next(ids)
            head = [('for', fid, var, ('c', 1), ('c', 2), None)]
            body = [('printv', var)]
            close = [('next', [fid], [var] if named else None)]
            return (head + body + close, []) if kind == 'for' else (head, [body, close])
        wid = next(ids)
        wv = 'W' + var
        head = [('let', wv, ('c', 0)), ('while', wid, ('rel', '<', ('v', wv), ('c', 2)))]
        body = [('let', wv, ('+', ('v', wv), ('c', 1))), ('print', mark)]
        close = [('wend', wid)]
        return (head + body + close, []) if kind == 'while' else (head, [body, close])

    lines = []
    closer = None
    if outer in ('for', 'for0'):
        fid = next(ids)
        lines.append((10, [('for', fid, 'I', ('c', 1), ('c', 2 if outer == 'for' else 0), None)]))
        closer = [('next', [fid], ['I'] if named else None)]
    elif outer == 'while':
        wid = next(ids)
        lines.append((5, [('let', 'I', ('c', 0))]))
        lines.append((10, [('while', wid, ('rel', '<', ('v', 'I'), ('c', 2))), ('let', 'I', ('+', ('v', 'I'), ('c', 1)))]))
        closer = [('wend', wid)]
    c = {'T': ('c', 1), 'F': ('c', 0), 'var': ('rel', '=', ('v', 'I'), ('c', 2))}[cond]
    tst, tafter = part(thenp, 'J', 't')
    ifline = [('if', c, None)] + tst
    after = list(tafter)
    if elsep is not None:
        est, eafter = part(elsep, 'K', 'e')
        ifline += [('else', None)] + est
        after += eafter
    lines.append((20, ifline))
    n = 30
    for st in after:
        lines.append((n, st))
        n += 5
    lines.append((60, [('print', 'z')]))
    if closer:
        lines.append((70, closer))
    lines.append((80, [('end',)]))
    return lines


def work_branchloops(shard):
    part = Partial()
    runner = Runner()
    c = None
    for case in shard:
        case = tuple(case)
        lines = branchloop_lines(case)
        for layout in ('tight', 'spaced'):
            MB.LAYOUT = layout
            try:
                c = {'branchloop': list(case), 'layout': layout, 'program': [t.decode('latin-1') for t in MB.program_text(lines)]}
                outcomes, res = judge(part, runner, lines, c, lambda oc, rs: 'branchloop/%s/%s/exp-%s' % (
                    case[0], 'else-' + case[3] if case[3] else 'then-' + case[2], final_kind(oc[0])))
            finally:
                MB.LAYOUT = 'tight'
            part.n += 1
            part.classes.add('branchloop/%s/%s/%s/%s/%s' % (case[0], case[1], case[2], case[3], final_kind(outcomes[0])))
            part.outcome(final_kind(outcomes[0]))
    if c:
        part.sample(c)
    return part


# ---------------------------------------------------------------------------
# loops typed in direct mode, one after the other in the same session: each behaves as it does in a fresh session

DIRECT_LINES = [
    b'FOR I=1 TO 3:PRINT "a";I;:NEXT',
    b'FOR I=1 TO 3:PRINT "b";I;:PRINT "c";:NEXT',
    b'FOR I=1 TO 3:PRINT "d";:NEXT:PRINT "e";',
    b'FOR I=5 TO 3:PRINT "x";:NEXT:PRINT "g";',
    b'FOR I=5 TO 3:PRINT "y";:PRINT "z";:NEXT:PRINT "h";',
    b'Q=0:FOR I=1 TO 2:PRINT "q";:NEXT',
    b'FOR I=1 TO 2:FOR J=1 TO 2:PRINT I;J;:NEXT:NEXT',
    b'FOR I=1 TO 2:FOR J=1 TO 2:PRINT "n";:NEXT J,I:PRINT "m";',
    b'W=0:WHILE W<2:W=W+1:PRINT "w";:WEND',
    b'W=0:WHILE W<2:W=W+1:PRINT "v";:PRINT "u";:WEND:PRINT "t";',
    b'GOTO 20',        # a stored program with a loop at the same place
]
DIRECT_PROGRAM = [b'10 END', b'20 FOR I=1 TO 3:PRINT "p";I;:NEXT:PRINT "r";:END']


def _direct_session():
    s = H.new_session(horizon=4000)
    for l in DIRECT_PROGRAM:
        r = H.run(s, l)
        if r.exc is not None or r.out.strip():
            raise CheckError('line not accepted: %r' % (l,))
    return s


def work_direct(shard):
    part = Partial()
    alone = {}
    for i, l in enumerate(DIRECT_LINES):
        s = _direct_session()
        r = H.run(s, l)
        alone[i] = (r.out, r.err, repr(r.exc) if r.exc is not None else None)
        s.close()
    for seq in shard:
        s = _direct_session()
        case = {'direct_lines': [DIRECT_LINES[i].decode('ascii') for i in seq], 'seq': list(seq)}
        for pos, i in enumerate(seq):
            r = H.run(s, DIRECT_LINES[i])
            part.n += 1
            got = (r.out, r.err, repr(r.exc) if r.exc is not None else None)
            if r.exc is not None:
                part.violation('direct-reuse/host-exception/%s' % H.exc_key(r.exc), '%r raised %r' % (DIRECT_LINES[i], r.exc), case)
                break
            if got != alone[i]:
                part.violation('direct-reuse/%s/differs-from-fresh-session' % ('first' if pos == 0 else 'later'),
                               'after %r the direct line %r prints %r (error %r); in a fresh session %r (error %r)' % (
                                   [DIRECT_LINES[j] for j in seq[:pos]], DIRECT_LINES[i], got[0], got[1], alone[i][0], alone[i][1]), case)
                break
        part.traces += 1
        part.classes.add('direct-reuse/len%d' % len(seq))
        s.close()
    part.sample({'seq': list(shard[0])})
    return part


def legs(ctx):
    import itertools
    n = len(DIRECT_LINES)
    seqs = list(itertools.permutations(range(n), 2)) + ([] if ctx.quick else list(itertools.permutations(range(n), 3)))
    return _legs_programs(ctx) + [
        Leg('direct-reuse', list(chunked(seqs, 40)), work_direct, exhaustive=True,
            bound='all %d ordered sequences of %s of %d direct-mode lines with FOR / WHILE loops (same headers, different bodies, '
                  'empty loops, nested loops, a stored program entered with GOTO) in one session: each line prints what it prints '
                  'in a fresh session' % (len(seqs), '2' if ctx.quick else '2..3', n))]


def _legs_programs(ctx):
    out = []
    tier = ctx.tier
    for pname in ('nest', 'for', 'on', 'gosub'):
        progs = get_programs(pname, tier)
        p = profile(pname, tier)
        n = len(progs)
        size = 60 if ctx.quick else 150
        shards = [(pname, tier, lo, min(lo + size, n)) for lo in range(0, n, size)]
        out.append(Leg(
            'grammar-' + pname, shards, work_grammar, exhaustive=True,
            bound='all %d programs with <= %d productions, depth <= %d, blocks <= %d statements over profile %s '
                  '(FOR %s; WHILE %s; IF conds %s; ON n %s x %s x %s targets; stray %s), 2 layouts each' % (
                      n, p['N'], p['depth'], p['maxlen'], pname, p['forp'], p['whilek'], p['conds'],
                      p['on_n'], p['on_kinds'], p['on_nt'], p['stray'] or '-')))
    cases = forparam_cases()
    if ctx.quick:
        cases = [c for c in cases if c[4] != 'outer' and (c[3] is None or abs(c[3]) != 3)]
    out.append(Leg('forparam', list(chunked(cases, 80)), work_forparam, exhaustive=True,
                   bound='%d loops: start x end x step over %d integer / %d single boundary values and %d/%d '
                         'steps (+default), I%% I! I, trip count <= %d, alone / inside / around a second loop, '
                         '2 layouts' % (len(cases), len(INT_V), len(SNG_V), len(INT_S), len(SNG_S), MAX_TRIPS)))
    tj = trapjump_cases(ctx.quick)
    out.append(Leg('trapjump', list(chunked(tj, 60)), work_trapjump, exhaustive=True,
                   bound='all %d programs: %d-statement sequences over %d main-line statements (GOSUB / ON GOSUB / GOTO / '
                         'IF THEN to existing and missing lines, stray RETURN) x %d subroutine bodies under ON ERROR '
                         'GOTO with RESUME NEXT or one retry' % (len(tj), 2 if ctx.quick else 3, len(TJ_MAIN), len(TJ_SUB))))
    osel = [(sel, kind) for sel in ON_SELECTORS for kind in ('GOTO', 'GOSUB')]
    out.append(Leg('on-selector', list(chunked(osel, 6)), work_onselector, exhaustive=True,
                   bound='%d selectors that are not whole numbers (singles, doubles closer to a half than a single can tell, variables, '
                         'an expression; below 0 and above 255) x ON GOTO / ON GOSUB with three targets' % len(ON_SELECTORS)))
    bl = branchloop_cases()
    out.append(Leg('branch-loops', list(chunked(bl, 40)), work_branchloops, exhaustive=True,
                   bound='all %d programs: an IF line whose THEN / ELSE branch holds a PRINT, a complete FOR or WHILE loop, or only '
                         'the opening of one (body and NEXT / WEND on the following lines) x condition true / false / on the outer counter '
                         'x no outer loop / FOR / zero-trip FOR / WHILE around it x NEXT with and without variable, 2 layouts' % len(bl)))
    out.append(Leg('step0', list(chunked(step0_cases(), 8)), work_step0, exhaustive=True,
                   bound='45 STEP 0 loops (crash freedom only; unspecified)'))
    return out


def replay(ctx, leg, case):
    if leg == 'direct-reuse':
        return work_direct([tuple(case['seq'])])
    part = Partial()
    runner = Runner()
    if leg.startswith('grammar-'):
        progs = get_programs(case['profile'], case['tier'])
        ast = progs[case['index']]
        lines, used = build(ast, 'B' if case['variant'] == 'C' else case['variant'])
        MB.LAYOUT = 'spaced' if case['variant'] == 'C' else 'tight'
        try:
            judge(part, runner, lines, case,
                  lambda oc, rs: _key(case['profile'], _culprit(used, oc, rs)))
        finally:
            MB.LAYOUT = 'tight'
    elif leg == 'forparam':
        sig, a, b, s, shape = case['forparam']
        cs = (sig, Fr(a), Fr(b), None if s is None else Fr(s), shape)
        if sig == '%':
            cs = (sig, int(Fr(a)), int(Fr(b)), None if s is None else int(Fr(s)), shape)
        lines = forparam_lines(cs, case['variant'])
        judge(part, runner, lines, case, lambda oc, rs: _key('forparam', _culprit(['replay'], oc, rs)))
    elif leg == 'on-selector':
        return work_onselector([(case['selector'], case['kind'])])
    elif leg == 'branch-loops':
        part = work_branchloops([case['branchloop']])
        part.viol = [v for v in part.viol if v[2].get('layout') == case.get('layout')]
        return part
    elif leg == 'trapjump':
        m, sub, res = case['trapjump']
        lines = trapjump_lines((tuple(m), sub, res))
        judge(part, runner, lines, case, lambda oc, rs: 'trapjump/exp-%s' % final_kind(oc[0]))
    elif leg == 'step0':
        lines = step0_lines(tuple(case['step0']))
        judge(part, runner, lines, case, lambda oc, rs: 'step0')
    return part
