"""
C32 - a solid PAINT fills exactly the enclosed 4-connected region.

E1 over ALL small bitmaps, through Session.execute('PAINT (x,y),fill,border'):

  grid   : every border/background bitmap of a k x k window (k=4: 65,536 bitmaps thorough; k=3: 512 quick)
           x every seed of the window (border seeds: once) x {fill != border, fill == border},
           window = the whole viewport (VIEW SCREEN / VIEW) or un-viewed at a screen corner closed by
           two border-coloured lines
  ring   : the 512 3x3 bitmaps x all 25 seeds of the surrounding 5x5 (seeds outside the viewport / on the
           closing lines) in every placement and 4 modes (packed 2bpp, 1bpp, planar, Tandy SCREEN 6)
  tern   : every 3-valued bitmap {background, border, X} of a 3x3 (thorough) / 3x2 (quick) window,
           X = the fill attribute (region already contains fill-coloured pixels: only the 'changes nothing
           outside the region' half applies) and X = a second background attribute
  shapes : 40 generated larger regions (spirals, combs, thin diagonal walls, nested rings with gaps,
           letter shapes with concavities, arithmetic patterns, regions open to the viewport edge)
           x EVERY seed of the canvas x two fills, in 4 modes

Oracle: breadth-first 4-connected reference fill written from the statement.
  changed pixels  must lie in  R = 4-connected component of non-border pixels of the viewport containing
  the seed (empty if the seed is a border pixel or outside the viewport), and must now hold the fill
  attribute; if R held no fill-attribute pixel before, every pixel of R must now hold it.
  The whole page is compared, so a leak anywhere is seen.
"""
from mc.core import Leg, Partial, CheckError
from mc import harness as H
from mc import gfxlib as G

PROPERTY = 'C32'
ENGINE = 'E1 domain'
LEVEL = 'model_checking'
LEVEL_TEXT = (
    'Exhaustive over all 65,536 border bitmaps of a 4x4 window (every seed, fill == border and fill != '
    'border) in two mode/viewport placements, all 512 3x3 bitmaps with every seed of the surrounding 5x5 '
    'in 4 modes x 3 placements, all 19,683 three-valued 3x3 bitmaps (pre-existing fill-coloured or second '
    'background pixels), and 40 generated 24x16 region shapes with every one of the 384 seeds, each compared '
    'with a breadth-first 4-connected reference fill on the full page. Within these bounds no scan-line '
    'flood-fill defect (leak, missed pocket, fill through a diagonal wall, fill outside the viewport) can exist.'
)
LEVEL_NOTE = (
    'Trusted: page pixel matrix read/poked at display.pages[0]._pixels._rows (bitmaps are poked, not drawn '
    'with PSET - C31 decides PSET); the reference BFS. Regions larger than the bounds are not covered.'
)
TECHNIQUE = ('bounded exhaustive enumeration of (bitmap x seed x fill/border attributes x viewport placement) on '
             'the real interpreter (PAINT statement) against a BFS 4-connected reference fill')
RULE = ('all bitmaps of the window x all seeds; a case class is (leg, placement, number of 4-connected '
        'background components of the bitmap, seed kind in {background, border, outside}, fill variant); '
        'non-trivial = bitmaps with >= 2 components or a seed on the border/outside, and every ternary case')
ASSUMPTIONS = [
    'internal seam: display.pages[0]._pixels._rows (read; written to lay the bitmaps)',
    'bitmaps are laid by poking the page rows, not by PSET statements (PSET is decided by C31)',
    'when the region already contains a pixel in the fill attribute the statement only forbids changes '
    'outside the region; partial fills are accepted there (GW-BASIC stops at scan lines already in the fill colour)',
    'in 2-attribute modes the variant fill != border is PAINT ...,0,1 (fills background with background)',
]

MODES4 = [('cga', 1), ('cga', 2), ('vga', 7), ('tandy', 6)]


def _mode_tuple(adapter, nr):
    for m in G.graphics_modes():
        if m[0] == adapter and m[1] == nr:
            return m
    raise CheckError('mode %s SCREEN %d not in modes._MODES' % (adapter, nr))


def _frac_attr(v):
    if v == 0:
        return b'.4'
    if v % 2:
        return b'%d.5' % (v - 1)
    return b'%d.6' % (v - 1)


class Scene(object):
    """A session with a cw x ch canvas placed on the page.

    placement 'view'   : VIEW SCREEN (8,8)-(8+cw-1,8+ch-1), canvas = viewport, absolute coordinates
              'viewrel': VIEW (8,8)-(...), canvas = viewport, viewport-relative coordinates
              'tl'     : no viewport, canvas at (0,0), closed by a border line at x=cw and at y=ch
              'br'     : no viewport, canvas flush with the bottom-right corner, closed at left and top
    """

    def __init__(self, adapter, nr, placement, cw, ch):
        # placement may carry options: 'tl:ws' = WINDOW SCREEN (translated logical coordinates),
        # 'tl:wc' = WINDOW (translated, y upwards), ':draw' = painted through DRAW "BMx,y Pf,b",
        # 'view:rv' = a refused VIEW statement after the viewport was set
        self.full_placement = placement
        opts = placement.split(':')[1:]
        placement = placement.split(':')[0]
        self.window = 'ws' if 'ws' in opts else ('wc' if 'wc' in opts else None)
        self.form = 'draw' if 'draw' in opts else 'paint'
        m = _mode_tuple(adapter, nr)
        g = self.g = G.Gfx(adapter, nr)
        if g.mode.name != m[2]:
            raise CheckError('mode name mismatch')
        g.assert_seam()
        self.B, self.F, self.O = _attrs(g)
        border = self.B
        W, Hh = g.w, g.h
        self.placement, self.cw, self.ch, self.border = placement, cw, ch, border
        base = [bytearray(W) for _ in range(Hh)]
        if placement in ('view', 'viewrel'):
            self.wx, self.wy = 8, 8
            g.must(b'VIEW %s(8,8)-(%d,%d)' % (b'SCREEN ' if placement == 'view' else b'', 8 + cw - 1, 8 + ch - 1))
            self.vp = (8, 8, 8 + cw - 1, 8 + ch - 1)
            self.ox, self.oy = (0, 0) if placement == 'view' else (8, 8)
            if 'rv' in opts:
                # a later VIEW that is refused (fill attribute out of range): the viewport above stays in force
                r = H.run(g.s, b'VIEW (2,2)-(%d,%d),300' % (W - 3, Hh - 3))
                if r.exc is not None or r.err is None:
                    raise CheckError('VIEW with fill 300 was not refused: %r' % (r,))
                g.must(b'LOCATE 1,1')
        elif placement == 'tl':
            self.wx, self.wy = 0, 0
            for y in range(ch + 1):
                base[y][cw] = border
            for x in range(cw + 1):
                base[ch][x] = border
            self.vp = (0, 0, W - 1, Hh - 1)
            self.ox = self.oy = 0
        elif placement == 'br':
            self.wx, self.wy = W - cw, Hh - ch
            for y in range(self.wy - 1, Hh):
                base[y][self.wx - 1] = border
            for x in range(self.wx - 1, W):
                base[self.wy - 1][x] = border
            self.vp = (0, 0, W - 1, Hh - 1)
            self.ox = self.oy = 0
        else:
            raise CheckError('unknown placement')
        self.base = [bytes(r) for r in base]
        self.tmpl = list(self.base)
        if self.window:
            if placement not in ('tl', 'br'):
                raise CheckError('WINDOW options are used without a viewport only')
            g.must(b'WINDOW %s(100,100)-(%d,%d)' % (b'SCREEN ' if self.window == 'ws' else b'', 100 + W - 1, 100 + Hh - 1))
        g.poke(0, self.tmpl)
        self.tag = '%s/%d/%s' % (adapter, nr, self.full_placement)

    def lay(self, cells):
        """cells: list of ch rows of cw values -> installs the picture."""
        g = self.g
        rows = g.rows(0)
        wx, wy, cw = self.wx, self.wy, self.cw
        for j, vals in enumerate(cells):
            b = self.base[wy + j]
            t = b[:wx] + bytes(vals) + b[wx + cw:]
            self.tmpl[wy + j] = t
            rows[wy + j][:] = t

    def paint(self, part, sx, sy, fill, border, case, leg):
        """PAINT at canvas coordinates (sx,sy) (may lie outside the canvas); apply the oracle."""
        g = self.g
        ax, ay = self.wx + sx, self.wy + sy          # absolute seed
        lx, ly = ax - self.ox, ay - self.oy
        if self.form == 'draw':
            # DRAW moves in physical (viewport-relative) pixels whatever WINDOW says
            stmt = b'DRAW "BM%d,%d P%d,%d"' % (lx, ly, fill, border)
            if lx < 0 or ly < 0:
                stmt = b'DRAW "BM=%d;,=%d; P%d,%d"' % (lx, ly, fill, border)
        else:
            if self.window == 'ws':
                lx, ly = lx + 100, ly + 100
            elif self.window == 'wc':
                lx, ly = lx + 100, 100 + (g.h - 1 - ly)
            stmt = b'PAINT (%d,%d),%d,%d' % (lx, ly, fill, border)
            if (sx + sy) % 2 == 0:
                # the attributes written as fractions that round to them (halves away from zero: 2.5 is attribute 3)
                stmt = b'PAINT (%d,%d),%s,%s' % (lx, ly, _frac_attr(fill), _frac_attr(border))
        case = dict(case, seed=[sx, sy], fill=fill, border=border, stmt=stmt)
        r = G.run_timed(g.s, stmt, 30)
        part.n += 1
        part.traces += 1
        if r.exc is not None:
            kind = 'hang' if isinstance(r.exc, G.Watchdog) else 'host-exception/' + H.exc_key(r.exc)
            part.violation('%s/%s' % (leg, kind), '%s: %r: %r' % (self.tag, stmt, r.exc), case)
            g.poke(0, self.tmpl)
            return None
        if r.err is not None:
            part.violation('%s/basic-error-%d' % (leg, r.err), '%s: %r gave error %d' % (self.tag, stmt, r.err), case)
            g.must(b'CLS')
            g.poke(0, self.tmpl)
            return None
        # changed pixels on the whole page
        rows = g.rows(0)
        tmpl = self.tmpl
        changed = {}
        if rows != tmpl:
            for y, row in enumerate(rows):
                t = tmpl[y]
                if row != t:
                    for x in range(g.w):
                        if row[x] != t[x]:
                            changed[(x, y)] = row[x]
                    row[:] = t
        # reference region
        vx0, vy0, vx1, vy1 = self.vp
        region = set()
        if vx0 <= ax <= vx1 and vy0 <= ay <= vy1 and tmpl[ay][ax] != border:
            region = _bfs(tmpl, self.vp, ax, ay, border, limit=(self.cw + 2) * (self.ch + 2))
            if region is None:
                raise CheckError('reference region escaped the closed canvas: harness bug')
        outside = [p for p in changed if p not in region]
        seedkind = 'region' if region else ('border' if (vx0 <= ax <= vx1 and vy0 <= ay <= vy1) else 'outside-viewport')
        what = _What(self, stmt)
        if outside:
            where = 'outside-viewport' if any(not (vx0 <= p[0] <= vx1 and vy0 <= p[1] <= vy1) for p in outside) \
                else ('seed-on-border-or-outside' if not region else 'outside-region')
            part.violation('%s/changed-%s/fill%sborder' % (leg, where, '==' if fill == border else '!='),
                           '%s changed %r outside the region' % (what, sorted(outside)[:8]), case)
        wrong = [p for p, v in changed.items() if v != fill]
        if wrong:
            part.violation('%s/wrong-attribute' % leg, '%s set %r to %r, fill is %d' % (
                what, wrong[:4], [changed[p] for p in wrong[:4]], fill), case)
        had_fill = any(tmpl[y][x] == fill for (x, y) in region)
        if region and not had_fill:
            missed = [p for p in region if p not in changed]
            if missed:
                part.violation('%s/region-not-filled/fill%sborder' % (leg, '==' if fill == border else '!='),
                               '%s left %r of the region (size %d) unfilled' % (what, sorted(missed)[:8], len(region)), case)
        part.outcome('%s:%s' % (seedkind, 'nochange' if not changed else
                                ('full' if len(changed) == len(region) else 'partial')))
        return seedkind, len(region), had_fill


class _What(object):
    """Lazily formatted description of the case (only needed on a violation)."""

    def __init__(self, sc, stmt):
        self.sc, self.stmt = sc, stmt

    def __str__(self):
        return '%s: %r on %s' % (self.sc.tag, self.stmt, _show(self.sc.tmpl, self.sc))


def _bfs(rows, vp, sx, sy, border, limit):
    """4-connected component of pixels != border inside vp containing (sx,sy)."""
    vx0, vy0, vx1, vy1 = vp
    seen = {(sx, sy)}
    todo = [(sx, sy)]
    while todo:
        nxt = []
        for (x, y) in todo:
            for q in ((x + 1, y), (x - 1, y), (x, y + 1), (x, y - 1)):
                if q in seen:
                    continue
                if not (vx0 <= q[0] <= vx1 and vy0 <= q[1] <= vy1):
                    continue
                if rows[q[1]][q[0]] == border:
                    continue
                seen.add(q)
                nxt.append(q)
        if len(seen) > limit:
            return None
        todo = nxt
    return seen


def _show(tmpl, sc):
    out = []
    for j in range(sc.ch):
        row = tmpl[sc.wy + j][sc.wx:sc.wx + sc.cw]
        out.append(''.join('.' if v == 0 else ('#' if v == sc.border else chr(ord('a') + v % 26)) for v in row))
    return '/'.join(out)


def _components(cells, border):
    """number of 4-connected non-border components of a small bitmap"""
    h, w = len(cells), len(cells[0])
    seen = set()
    n = 0
    for y in range(h):
        for x in range(w):
            if cells[y][x] != border and (x, y) not in seen:
                n += 1
                st = [(x, y)]
                seen.add((x, y))
                while st:
                    a, b = st.pop()
                    for q in ((a + 1, b), (a - 1, b), (a, b + 1), (a, b - 1)):
                        if 0 <= q[0] < w and 0 <= q[1] < h and q not in seen and cells[q[1]][q[0]] != border:
                            seen.add(q)
                            st.append(q)
    return n


def _attrs(g):
    """(border, fill != border, other background)"""
    if g.nattr > 2:
        return 2, 3, 1
    return 1, 0, 0


def _decode(idx, k_w, k_h, values):
    base = len(values)
    cells = []
    for j in range(k_h):
        row = []
        for i in range(k_w):
            row.append(values[idx % base])
            idx //= base
        cells.append(row)
    return cells


# ---------------------------------------------------------------------------
# legs

def work_grid(shard):
    """All seeds of the window for a range of binary bitmaps."""
    adapter, nr, placement, k, lo, hi, ring = shard
    part = Partial()
    sc = Scene(adapter, nr, placement, k, k)
    B, F, O = sc.B, sc.F, sc.O
    try:
        seeds_in = [(x, y) for y in range(k) for x in range(k)]
        seeds_ring = [(x, y) for y in range(-1, k + 1) for x in range(-1, k + 1)
                      if not (0 <= x < k and 0 <= y < k)] if ring else []
        leg = 'ring' if ring else 'grid'
        for idx in range(lo, hi):
            cells = _decode(idx, k, k, (0, B))
            sc.lay(cells)
            nc = _components(cells, B)
            case = {'leg': leg, 'mode': [adapter, nr], 'placement': placement, 'k': [k, k], 'values': [0, B], 'idx': idx}
            for (sx, sy) in seeds_in:
                if cells[sy][sx] == B:
                    sc.paint(part, sx, sy, F, B, case, leg)
                    part.classes.add('%s/%s/seed-border' % (leg, placement))
                else:
                    sc.paint(part, sx, sy, F, B, case, leg)
                    sc.paint(part, sx, sy, B, B, case, leg)
                    part.classes.add('%s/%s/comp%d' % (leg, placement, min(nc, 5)))
            for (sx, sy) in seeds_ring:
                sc.paint(part, sx, sy, F, B, case, leg)
                sc.paint(part, sx, sy, B, B, case, leg)
                part.classes.add('%s/%s/seed-ring' % (leg, placement))
        part.sample({'leg': leg, 'mode': [adapter, nr], 'placement': placement, 'k': k, 'range': [lo, hi]})
    finally:
        sc.g.close()
    return part


def work_tern(shard):
    adapter, nr, placement, kw, kh, flavour, lo, hi = shard
    part = Partial()
    sc = Scene(adapter, nr, placement, kw, kh)
    B, F, O = sc.B, sc.F, sc.O
    X = F if flavour == 'fill' else O
    try:
        for idx in range(lo, hi):
            cells = _decode(idx, kw, kh, (0, B, X))
            sc.lay(cells)
            case = {'leg': 'tern', 'mode': [adapter, nr], 'placement': placement, 'k': [kw, kh],
                    'values': [0, B, X], 'idx': idx}
            for sy in range(kh):
                for sx in range(kw):
                    if cells[sy][sx] == B:
                        continue
                    res = sc.paint(part, sx, sy, F, B, case, 'tern')
                    if res:
                        part.classes.add('tern/%s/%s/%s' % (placement, flavour, 'had-fill' if res[2] else 'no-fill'))
        part.sample({'leg': 'tern', 'mode': [adapter, nr], 'flavour': flavour, 'range': [lo, hi]})
    finally:
        sc.g.close()
    return part


# generated shapes ----------------------------------------------------------

def _shape_list(cw, ch):
    """-> list of (name, predicate(x,y) -> is border)"""
    S = []

    def spiral(pitch, mirror):
        cells = [[False] * cw for _ in range(ch)]
        x0, y0, x1, y1 = 0, 0, cw - 1, ch - 1
        # rectangular spiral wall with a gap at each turn
        while x1 - x0 >= pitch and y1 - y0 >= pitch:
            for x in range(x0, x1 + 1):
                cells[y0][x] = True
            for y in range(y0, y1 + 1):
                cells[y][x1] = True
            for x in range(x0 + pitch, x1 + 1):
                cells[y1][x] = True
            for y in range(y0 + pitch, y1 + 1):
                cells[y][x0 + pitch] = True
            x0, y0, x1, y1 = x0 + pitch, y0 + pitch, x1 - pitch, y1 - pitch
            if x0 < cw and y0 < ch:
                cells[y0][x0] = False
        return lambda x, y: cells[y][cw - 1 - x if mirror else x]

    for pitch in (2, 3):
        for mirror in (0, 1):
            S.append(('spiral%d%s' % (pitch, 'm' if mirror else ''), spiral(pitch, mirror)))
    for sp in (2, 3):
        S.append(('comb-down%d' % sp, lambda x, y, sp=sp: (y == 1) or (x % sp == 0 and 1 <= y < ch - 2)))
        S.append(('comb-up%d' % sp, lambda x, y, sp=sp: (y == ch - 2) or (x % sp == 0 and 2 <= y)))
        S.append(('comb-right%d' % sp, lambda x, y, sp=sp: (x == 1) or (y % sp == 0 and 1 <= x < cw - 2)))
        S.append(('comb-left%d' % sp, lambda x, y, sp=sp: (x == cw - 2) or (y % sp == 0 and 2 <= x)))
    S.append(('diag-thin', lambda x, y: x - y == 3))
    S.append(('antidiag-thin', lambda x, y: x + y == ch + 2))
    S.append(('diag-cross', lambda x, y: x - y == 3 or x + y == ch + 2))
    S.append(('diag-gap', lambda x, y: (x - y == 3 and y != ch // 2) or (x - 2 * y == 1)))
    S.append(('zigzag', lambda x, y: (x + (y if (y // 4) % 2 == 0 else -y)) % 6 == 0))
    for sp in (2, 3):
        def rings(x, y, sp=sp):
            d = min(x, y, cw - 1 - x, ch - 1 - y)
            if d % sp != 0:
                return False
            # a gap in each ring, alternating sides
            if (d // sp) % 2 == 0:
                return not (y == d and x == cw // 2)
            return not (y == ch - 1 - d and x == cw // 2 - 1)
        S.append(('rings%d' % sp, rings))
    S.append(('checker', lambda x, y: (x + y) % 2 == 0))
    S.append(('dots3', lambda x, y: x % 3 == 0 and y % 3 == 0))
    S.append(('brick', lambda x, y: y % 3 == 0 or (x + 3 * (y // 3)) % 6 == 0))
    for kq in (5, 7, 11):
        S.append(('quad%d' % kq, lambda x, y, kq=kq: (x * x + 3 * y * y + x * y) % kq == 0))
    S.append(('lin7', lambda x, y: (3 * x + 5 * y + x * y) % 7 < 2))
    S.append(('lin5', lambda x, y: (x * 2 + y * 3) % 5 == 0))
    S.append(('xor3', lambda x, y: ((x ^ y) % 3) == 0))
    S.append(('and-sierpinski', lambda x, y: (x & y) == 0))
    # letter-like shapes with concavities, in a box
    def letter(rows):
        hh, ww = len(rows), len(rows[0])
        return lambda x, y: rows[y * hh // ch][x * ww // cw] == '#'
    S.append(('E', letter(['######', '#.....', '####..', '#.....', '######', '......'])))
    S.append(('S', letter(['.#####', '.#....', '.####.', '....#.', '#####.', '......'])))
    S.append(('U', letter(['#....#', '#....#', '#....#', '######', '......', '.####.'])))
    S.append(('n', letter(['......', '######', '#....#', '#.##.#', '#.##.#', '#....#'])))
    S.append(('OO', letter(['######', '#..#.#', '#..#.#', '######', '......', '.#..#.'])))
    S.append(('H', letter(['#....#', '#....#', '######', '#....#', '#....#', '......'])))
    S.append(('C-in-C', letter(['######', '#.....', '#.###.', '#.#...', '#.####', '#.....'])))
    S.append(('open-right', lambda x, y: (y in (2, ch - 3) and x < cw - 4) or (x == 2 and 2 <= y <= ch - 3)))
    S.append(('open-bottom', lambda x, y: (x in (3, cw - 4) and y >= 3) or (y == 3 and 3 <= x <= cw - 4)))
    S.append(('empty', lambda x, y: False))
    S.append(('frame', lambda x, y: x in (0, cw - 1) or y in (0, ch - 1)))
    return S


def work_shapes(shard):
    adapter, nr, placement, cw, ch, names = shard
    part = Partial()
    sc = Scene(adapter, nr, placement, cw, ch)
    B, F, O = sc.B, sc.F, sc.O
    try:
        shapes = dict(_shape_list(cw, ch))
        for name in names:
            pred = shapes[name]
            cells = [[B if pred(x, y) else 0 for x in range(cw)] for y in range(ch)]
            sc.lay(cells)
            case = {'leg': 'shapes', 'mode': [adapter, nr], 'placement': placement, 'k': [cw, ch], 'shape': name}
            nseed = 0
            for sy in range(ch):
                for sx in range(cw):
                    if cells[sy][sx] == B:
                        if (sx + sy) % 7 == 0:
                            sc.paint(part, sx, sy, F, B, case, 'shapes')
                        continue
                    sc.paint(part, sx, sy, F, B, case, 'shapes')
                    sc.paint(part, sx, sy, B, B, case, 'shapes')
                    nseed += 1
            part.classes.add('shapes/%s/%s' % (placement, name))
        part.sample({'leg': 'shapes', 'mode': [adapter, nr], 'placement': placement, 'shapes': names[:3]})
    finally:
        sc.g.close()
    return part


# ---------------------------------------------------------------------------

SPELLINGS = ['tl:ws', 'tl:wc', 'tl:draw', 'tl:ws:draw', 'tl:wc:draw', 'view:draw', 'viewrel:draw', 'br:ws', 'br:wc:draw']


def legs(ctx):
    out = _legs(ctx)
    modes = [('cga', 1)] if ctx.quick else [('cga', 1), ('vga', 7), ('tandy', 6)]
    out.append(Leg('spelling', [(a, n, p, 3, lo, lo + 64, False) for (a, n) in modes for p in SPELLINGS for lo in range(0, 512, 64)],
                   work_grid, exhaustive=True,
                   bound='all 512 border bitmaps of a 3x3 window x all 9 seeds x 2 fills, painted under WINDOW SCREEN / WINDOW '
                         '(translated logical coordinates) and through DRAW "BMx,y Pf,b" with and without a window or viewport: '
                         '%d spellings x %d modes' % (len(SPELLINGS), len(modes))))
    return out


def _legs(ctx):
    out = []
    q = ctx.quick
    shape_names = [n for n, _ in _shape_list(24, 16)]
    if q:
        # 3x3: 512 bitmaps, every window seed, one placement per mode (rotating) + all placements in one mode
        cfgs = [('cga', 1, 'view'), ('cga', 2, 'tl'), ('vga', 7, 'br'), ('tandy', 6, 'viewrel'),
                ('cga', 1, 'tl'), ('cga', 1, 'br')]
        out.append(Leg('grid', [(a, n, p, 3, lo, lo + 64, False) for (a, n, p) in cfgs for lo in range(0, 512, 64)],
                       work_grid, exhaustive=True,
                       bound='all 512 border bitmaps of a 3x3 window x all 9 seeds x {fill!=border, fill==border} '
                             'in 6 (mode, placement) configurations'))
        out.append(Leg('ring', [('cga', 1, p, 2, 0, 16, True) for p in ('view', 'viewrel', 'tl', 'br', 'view:rv', 'viewrel:rv')] +
                       [('vga', 7, 'viewrel', 3, lo, lo + 64, True) for lo in range(0, 512, 64)],
                       work_grid, exhaustive=True,
                       bound='all 16 bitmaps of a 2x2 window x all 16 seeds of the surrounding 4x4 x 2 fills, 4 placements (+ both viewports after a refused VIEW); '
                             'all 512 bitmaps of a 3x3 window x all 25 seeds of the surrounding 5x5 x 2 fills in vga SCREEN 7'))
        out.append(Leg('tern', [('cga', 1, 'view', 3, 2, fl, lo, lo + 243) for fl in ('fill', 'other')
                                for lo in range(0, 729, 243)], work_tern, exhaustive=True,
                       bound='all 729 three-valued bitmaps of a 3x2 window x every non-border seed x 2 flavours'))
        shards = [(a, n, 'viewrel', 12, 8, shape_names[i:i + 5]) for (a, n) in (MODES4[0], MODES4[3])
                  for i in range(0, len(shape_names), 5)]
        out.append(Leg('shapes', shards, work_shapes, exhaustive=True,
                       bound='%d generated shapes on a 12x8 canvas x every seed x 2 fills in 2 modes' % len(shape_names)))
    else:
        big = [('cga', 1, 'view'), ('tandy', 6, 'tl')]
        out.append(Leg('grid', [(a, n, p, 4, lo, lo + 128, False) for (a, n, p) in big for lo in range(0, 65536, 128)],
                       work_grid, exhaustive=True,
                       bound='all 65,536 border bitmaps of a 4x4 window x all 16 seeds x {fill!=border, fill==border} '
                             'in %s' % ', '.join('%s SCREEN %d placement %s' % c for c in big)))
        out.append(Leg('ring', [(a, n, p, 3, lo, lo + 32, True) for (a, n) in MODES4
                                for p in ('view', 'viewrel', 'tl', 'br') for lo in range(0, 512, 32)],
                       work_grid, exhaustive=True,
                       bound='all 512 bitmaps of a 3x3 window x all 25 seeds of the surrounding 5x5 x 2 fills, '
                             '4 modes x 4 placements'))
        out.append(Leg('tern', [(a, n, 'view', 3, 3, fl, lo, lo + 243) for (a, n) in (MODES4[0], MODES4[2])
                                for fl in ('fill', 'other') for lo in range(0, 19683, 243)], work_tern, exhaustive=True,
                       bound='all 19,683 three-valued bitmaps of a 3x3 window x every non-border seed x 2 flavours x 2 modes'))
        shards = [(a, n, p, 24, 16, shape_names[i:i + 2]) for (a, n) in MODES4 for p in ('viewrel', 'br')
                  for i in range(0, len(shape_names), 2)]
        out.append(Leg('shapes', shards, work_shapes, exhaustive=True,
                       bound='%d generated shapes on a 24x16 canvas x every one of the 384 seeds x 2 fills, '
                             '4 modes x 2 placements' % len(shape_names)))
    return out


def replay(ctx, leg, case):
    part = Partial()
    adapter, nr = case['mode']
    kw, kh = case['k']
    sc = Scene(adapter, nr, case['placement'], kw, kh)
    B, F, O = sc.B, sc.F, sc.O
    try:
        if case['leg'] == 'shapes':
            pred = dict(_shape_list(kw, kh))[case['shape']]
            cells = [[B if pred(x, y) else 0 for x in range(kw)] for y in range(kh)]
        else:
            cells = _decode(case['idx'], kw, kh, tuple(case['values']))
        sc.lay(cells)
        sc.paint(part, case['seed'][0], case['seed'][1], case['fill'], case['border'], case, case['leg'])
    finally:
        sc.g.close()
    return part
