"""
C11 - VARPTR / PEEK expose variable storage faithfully; variables are never aliased.

E2 (history BFS on real Sessions): every history up to a depth over an alphabet of
statements that create / assign / SWAP / ERASE scalars of all four types (one with a
40-character name) and arrays of 1..3 dimensions (one with a 40-character name), reassign
strings and force garbage collection.  In EVERY reached state, for EVERY live scalar and
EVERY array element of the reference model:

  * PEEK(VARPTR(v)+i) is the i-th byte of the MKI$/MKS$/MKD$ form of the reference value
    (strings: length, address lo/hi and PEEK(address+j) are the characters);
  * VARPTR$(v) is the type byte followed by the same address;
  * the [VARPTR, VARPTR+size) ranges are pairwise disjoint and inside the variable area;
  * the value read back through BASIC equals the reference value (so an assignment to one
    variable never changed another).

The reference (models/varmem.py + the tiny interpreter below) does not import pcbasic.
"""
import struct
from fractions import Fraction as F

from mc.core import Leg, Partial, CheckError
from mc import bfs
from models import varmem as VM

PROPERTY = 'C11'
ENGINE = 'E2 bfs'
LEVEL = 'model_checking'
LEVEL_TEXT = (
    'Explicit-state breadth-first exploration of every statement history up to the stated depth '
    '(quick: depth 3 from the empty session, depth 2 from two populated roots; thorough: depth 4 from the empty session plus depth 3 '
    'from four populated roots incl. OPTION BASE 1) over a 26-statement alphabet, executed on real '
    'pcbasic Sessions, de-duplicated on the complete variable/array/string-space state. In every '
    'reached state every live scalar and every array element is checked through VARPTR, VARPTR$ and '
    'PEEK against an independent reference of values and byte encodings.')
LEVEL_NOTE = (
    'Trusted: the reference encoders in models/varmem.py, Session.evaluate as the way to run '
    'VARPTR/PEEK. Bounded: histories longer than the depth, names/shapes outside the alphabet and '
    'memory exhaustion are not covered.')
TECHNIQUE = ('bounded exhaustive enumeration (BFS with exact state de-duplication) of statement '
             'histories on real Sessions against a reference dict of values + MBF/two\'s-complement '
             'encoders')
RULE = ('all histories over the op alphabet up to the depth, merged on the canonical hidden state; '
        'a case class is (operation, outcome) and (variable kind, position of its array among the '
        'arrays); non-trivial = anything but an assignment to a fresh scalar')
ASSUMPTIONS = [
    'sessions are created with video=\'cga\' (3x cheaper to build; variable memory does not depend '
    'on the video adapter)',
    'internal seam (state key and variable-area bounds only): DataSegment.var_start/var_current, '
    'Arrays.current/_array_memory/_dims/_buffers/_base, Scalars._vars/_var_memory, '
    'StringSpace._strings/current/_temp',
    'the "variable area" is taken as [start of scalars, end of arrays)',
    'reference semantics used to follow the history: DIM of an existing array -> Duplicate definition, '
    'ERASE of a missing array -> Illegal function call, first use of an undimensioned array dimensions '
    'it 0..10, subscript below OPTION BASE -> Subscript out of range; a statement line stops at its '
    'first error',
    'SWAP statements are only enabled in states where both operands exist (SWAP with a missing '
    'operand is outside this property)',
    'string literals of direct statements live in string space, those of program lines in program '
    'memory: both are exercised (GOTO 10 / GOTO 20 run stored lines); PEEK must return the '
    'characters in either place',
]

LONG = 'LONGNAMEVARIABLEABCDEFGHIJKLMNOPQRSTUVWX'     # 40 characters
assert len(LONG) == 40
LS = LONG + '%'            # scalar with a 40-character name
LA = LONG[::-1] + '%'      # array with a (different) 40-character name

PROGRAM = [b'10 D$="pqrs":END', b'20 S$(1)="tu":END']

# primitives:
#   ('let', target, value)          target = (name,) or (name, (subscripts))
#   ('cat', target, source, bytes)  target$ = source$ + "bytes"
#   ('dim', name, dims) ('erase', name) ('swap', t1, t2) ('gc',) ('base', n)
#   ('goto', line, primitive)       run a stored program line whose effect is `primitive`
OPS = [
    [('let', ('A%',), 257)],
    [('let', ('BCD!',), F(3, 2))],
    [('let', ('C#',), F(-9, 4))],
    [('let', ('D$',), b'abc')],
    [('cat', ('D$',), ('D$',), b'xy')],
    [('let', (LS,), 7)],
    [('dim', 'P%', (2,)), ('let', ('P%', (0,)), 257), ('let', ('P%', (1,)), -2),
     ('let', ('P%', (2,)), 770)],
    [('dim', 'Q!', (1, 2)), ('let', ('Q!', (1, 2)), F(-3, 4)), ('let', ('Q!', (1, 1)), 3),
     ('let', ('Q!', (0, 0)), F(3, 2))],
    [('dim', 'R#', (1, 1, 1)), ('let', ('R#', (1, 1, 1)), F(5, 2)), ('let', ('R#', (0, 1, 0)), -1)],
    [('dim', 'S$', (2,)), ('let', ('S$', (2,)), b'lmn'), ('let', ('S$', (0,)), b'k')],
    [('dim', LA, (1,)), ('let', (LA, (1,)), -513)],
    [('erase', 'P%')],
    [('erase', 'Q!')],
    [('erase', 'R#')],
    [('erase', 'S$')],
    # the array whose header record (40-character name) is larger than a small array above it
    [('erase', LA)],
    # a statement that is refused (part-way): nothing changes
    [('refused', 'CLEAR ,20000,0', 5)],
    [('refused', 'CLEAR ,,4000 X', 2)],
    [('erasem', ('R#', 'P%'))],
    [('erasem', ('Q!', 'S$'))],
    [('swap', ('A%',), ('P%', (1,)))],
    [('swap', ('D$',), ('S$', (2,)))],
    [('gc',)],
    [('cat', ('S$', (1,)), ('D$',), b'!')],
    [('let', ('P%', (2,)), -32768)],
    [('goto', 10, ('let', ('D$',), b'pqrs'))],
    [('goto', 20, ('let', ('S$', (1,)), b'tu'))],
]

# root prefixes (lists of ops given as primitive lists, executed before the explored history)
ROOTS = {
    0: [],
    1: [OPS[6], OPS[7], OPS[9], OPS[10]],                    # arrays first
    2: [OPS[3], OPS[9], OPS[0], OPS[8], OPS[6], OPS[4]],     # mixed, with string garbage
    3: [[('base', 1)], OPS[6], OPS[9], OPS[7]],              # OPTION BASE 1 (x(0) -> error 9)
    4: [OPS[5], OPS[10], OPS[8], OPS[1]],                    # long names first
}

E_IFC, E_SUBSCRIPT, E_DUPDEF = 5, 9, 10


# ---------------------------------------------------------------------------
# reference model

class Ref(object):
    def __init__(self):
        self.scalars = {}       # name -> value
        self.arrays = {}        # name -> (dims, {sub: value})
        self.base = None        # explicit OPTION BASE or None
        self.order = []         # array names in creation order (for class labels only)

    def eff_base(self):
        return self.base or 0

    @staticmethod
    def default(name):
        return b'' if name[-1] == '$' else 0

    def read(self, target):
        """Value of a variable without creating it (used on the right-hand side)."""
        if len(target) == 1:
            return self.scalars.get(target[0], self.default(target[0]))
        name, sub = target
        return self.arrays[name][1][sub]

    def _touch(self, name, sub):
        """First use of an array element: auto-dimension; returns error code or None."""
        if name not in self.arrays:
            self._dim(name, (10,) * len(sub))
        dims, _ = self.arrays[name]
        if len(sub) != len(dims):
            return E_SUBSCRIPT
        for s, d in zip(sub, dims):
            if s < 0:
                return E_IFC
            if s < self.eff_base() or s > d:
                return E_SUBSCRIPT
        return None

    def _dim(self, name, dims):
        b = self.eff_base()
        self.arrays[name] = (tuple(dims), {t: self.default(name) for t in VM.subscripts(dims, b)})
        self.order.append(name)

    def step(self, prim):
        """Apply one primitive; returns expected error code or None."""
        kind = prim[0]
        if kind == 'goto':
            return self.step(prim[2])
        if kind == 'base':
            self.base = prim[1]
            return None
        if kind == 'gc':
            return None
        if kind == 'dim':
            _, name, dims = prim
            if name in self.arrays:
                return E_DUPDEF
            if any(d < self.eff_base() for d in dims):
                return E_SUBSCRIPT
            self._dim(name, dims)
            return None
        if kind == 'erase':
            name = prim[1]
            if name not in self.arrays:
                return E_IFC
            del self.arrays[name]
            self.order.remove(name)
            return None
        if kind == 'refused':
            return prim[2]
        if kind == 'erasem':
            # one ERASE statement with a list: erased left to right, stops at the first missing array
            for name in prim[1]:
                if name not in self.arrays:
                    return E_IFC
                del self.arrays[name]
                self.order.remove(name)
            return None
        if kind in ('let', 'cat'):
            target = prim[1]
            if len(target) == 2:
                # pcbasic/GW allocate and bounds-check the target before evaluating the value
                err = self._touch(*target)
                if err:
                    return err
            value = prim[2] if kind == 'let' else self.read(prim[2]) + prim[3]
            if len(target) == 1:
                self.scalars[target[0]] = value
            else:
                self.arrays[target[0]][1][target[1]] = value
            return None
        if kind == 'swap':
            _, t1, t2 = prim
            v1, v2 = self.read(t1), self.read(t2)
            self._write(t1, v2)
            self._write(t2, v1)
            return None
        raise CheckError('unknown primitive %r' % (prim,))

    def _write(self, target, value):
        if len(target) == 1:
            self.scalars[target[0]] = value
        else:
            self.arrays[target[0]][1][target[1]] = value

    def exists(self, target):
        if len(target) == 1:
            return target[0] in self.scalars
        return target[0] in self.arrays and target[1] in self.arrays[target[0]][1]

    def enabled(self, op):
        for prim in op:
            if prim[0] == 'swap' and not (self.exists(prim[1]) and self.exists(prim[2])):
                return False
        return True

    def apply(self, op):
        """Apply a statement line (list of primitives): stops at the first error."""
        for prim in op:
            err = self.step(prim)
            if err:
                return err
        return None


# ---------------------------------------------------------------------------
# rendering to BASIC

def _num(v):
    if isinstance(v, int):
        return str(v)
    f = float(v)
    assert F(f) == v
    return repr(f)


def _tgt(t):
    if len(t) == 1:
        return t[0]
    return '%s(%s)' % (t[0], ','.join(str(i) for i in t[1]))


def _lit(v):
    if isinstance(v, bytes):
        return '"%s"' % v.decode('ascii')
    return _num(v)


def render_prim(prim):
    k = prim[0]
    if k == 'let':
        return '%s=%s' % (_tgt(prim[1]), _lit(prim[2]))
    if k == 'cat':
        return '%s=%s+%s' % (_tgt(prim[1]), _tgt(prim[2]), _lit(prim[3]))
    if k == 'dim':
        return 'DIM %s(%s)' % (prim[1], ','.join(str(d) for d in prim[2]))
    if k == 'erase':
        return 'ERASE %s' % prim[1]
    if k == 'refused':
        return prim[1]
    if k == 'erasem':
        return 'ERASE %s' % ','.join(prim[1])
    if k == 'swap':
        return 'SWAP %s,%s' % (_tgt(prim[1]), _tgt(prim[2]))
    if k == 'gc':
        return 'IF FRE("")=-1 THEN STOP'
    if k == 'base':
        return 'OPTION BASE %d' % prim[1]
    if k == 'goto':
        return 'GOTO %d' % prim[1]
    raise CheckError('unknown primitive %r' % (prim,))


def render(op):
    return ':'.join(render_prim(p) for p in op).encode('ascii')


# ---------------------------------------------------------------------------
# the real thing

def _H():
    from mc import harness
    return harness


def new_session():
    H = _H()
    s = H.new_session(video='cga', peek_values={})
    for line in PROGRAM:
        r = H.run(s, line)
        if r.exc is not None or r.err is not None:
            raise CheckError('cannot enter program line %r: %r' % (line, r))
    return s


def hidden_key(s):
    """Complete hidden state of variable memory (canonical, hashable)."""
    try:
        m = s._impl.memory
        sc, ar, st = m.scalars, m.arrays, m.strings
        return (
            tuple(sorted((n, bytes(v)) for n, v in sc._vars.items())),
            tuple(sorted(sc._var_memory.items())),
            tuple(sorted((n, tuple(d)) for n, d in ar._dims.items())),
            tuple(sorted(ar._array_memory.items())),
            tuple(sorted((n, bytes(b)) for n, b in ar._buffers.items())),
            ar._base, ar._base_set_by_dim, sc.current, ar.current,
            tuple(sorted((a, bytes(v)) for a, v in st._strings.items())),
            st.current, st._temp,
        )
    except AttributeError as e:
        raise CheckError('internal seam missing: %r' % (e,))


def area(s):
    try:
        m = s._impl.memory
        return m.var_start(), m.var_current() + m.arrays.current
    except AttributeError as e:
        raise CheckError('internal seam missing: %r' % (e,))


def _ev(s, expr, viols, label):
    """Session.evaluate; host exception -> violation."""
    try:
        return True, s.evaluate(expr.encode('ascii'))
    except Exception as e:
        from mc import core
        if not core.from_pcbasic(e):
            raise
        viols.append(('%s/host-exception/%s' % (label, _H().exc_key(e)),
                      '%s raised %r' % (expr, e)))
        return False, None


def check_var(s, ref, name, sub, value, viols, occupied, pos):
    """All invariants of one scalar (sub None) or array element."""
    ident = name if sub is None else '%s(%s)' % (name, ','.join(str(i) for i in sub))
    kind = ('scalar' if sub is None else 'elem-of-%s-array' % pos) + '/' + name[-1]
    if len(name) > 10:
        kind += '/longname'
    size = VM.value_size(name)
    ok, p = _ev(s, 'VARPTR(%s)' % ident, viols, 'varptr/' + kind)
    if not ok:
        return
    if p is None:
        viols.append(('varptr/%s/basic-error' % kind, 'VARPTR(%s) raised a BASIC error' % ident))
        return
    p &= 0xffff
    occupied.append((p, p + size, ident))
    ok, vps = _ev(s, 'VARPTR$(%s)' % ident, viols, 'varptr$/' + kind)
    if ok:
        exp = bytes([VM.TYPE_BYTE[name[-1]]]) + struct.pack('<H', p)
        if vps != exp:
            viols.append(('varptr$/%s/mismatch' % kind,
                          'VARPTR$(%s)=%r, expected %r (type byte + VARPTR)' % (ident, vps, exp)))
    stored = []
    for i in range(size):
        ok, b = _ev(s, 'PEEK(%d)' % (p + i), viols, 'peek/' + kind)
        if not ok:
            return
        stored.append(-1 if b is None else b)
    stored_b = bytes(x & 0xff for x in stored) if all(0 <= x <= 255 for x in stored) else None
    if name[-1] != '$':
        exp = VM.number_bytes(name, value)
        if stored_b != exp:
            viols.append(('peek/%s/value-bytes' % kind,
                          'PEEK over VARPTR(%s)=%d gives %r, stored value %r encodes as %r' % (
                              ident, p, stored, _show(value), list(exp))))
    else:
        if stored_b is None or stored_b[0] != len(value):
            viols.append(('peek/%s/string-length' % kind,
                          'PEEK(VARPTR(%s))=%r, LEN is %d' % (ident, stored[:1], len(value))))
        elif value:
            addr = stored_b[1] | (stored_b[2] << 8)
            chars = []
            for j in range(len(value)):
                ok, b = _ev(s, 'PEEK(%d)' % ((addr + j) & 0xffff), viols, 'peek/' + kind)
                if not ok:
                    return
                chars.append(b)
            if chars != list(value):
                viols.append(('peek/%s/string-chars' % kind,
                              '%s=%r but PEEK at its address %d gives %r' % (ident, value, addr, chars)))
    # value read back through BASIC
    ok, got = _ev(s, ident, viols, 'value/' + kind)
    if ok:
        same = (got == value) if isinstance(value, (bytes, int)) else (
            isinstance(got, float) and F(got) == value)
        if isinstance(value, int) and name[-1] in '!#':
            same = isinstance(got, (int, float)) and got == value
        if not same:
            viols.append(('value/%s/changed' % kind,
                          '%s reads %r, reference value %r' % (ident, got, _show(value))))


def _show(v):
    return float(v) if isinstance(v, F) else v


def check_state(s, ref, viols, classes):
    occupied = []
    for name, value in sorted(ref.scalars.items()):
        check_var(s, ref, name, None, value, viols, occupied, None)
        classes.add('scalar%s%s' % (name[-1], '/long' if len(name) > 10 else ''))
    n_arr = len(ref.order)
    for k, name in enumerate(ref.order):
        pos = 'only' if n_arr == 1 else ('first' if k == 0 else 'later')
        dims, elems = ref.arrays[name]
        for sub in sorted(elems):
            check_var(s, ref, name, sub, elems[sub], viols, occupied, pos)
        classes.add('array%s/%dd/%s%s' % (name[-1], len(dims), pos, '/long' if len(name) > 10 else ''))
    lo, hi = area(s)
    occupied.sort()
    for i, (a, b, ident) in enumerate(occupied):
        if a < lo or b > hi:
            viols.append(('layout/outside-variable-area',
                          '%s occupies [%d,%d) outside the variable area [%d,%d)' % (ident, a, b, lo, hi)))
        if i and occupied[i - 1][1] > a:
            viols.append(('layout/overlap',
                          '%s [%d,%d) overlaps %s [%d,%d)' % (
                              ident, a, b, occupied[i - 1][2], occupied[i - 1][0], occupied[i - 1][1])))
    return len(occupied)


def run_op(s, ref, op, viols, label):
    """Execute one op on session and reference; returns (ok_to_continue, outcome_label)."""
    H = _H()
    exp = ref.apply(op)
    r = H.run(s, render(op))
    if r.exc is not None:
        viols.append(('%s/host-exception/%s' % (label, H.exc_key(r.exc)),
                      '%s raised %r' % (render(op), r.exc)))
        return False, 'host-exception'
    if r.err != exp:
        viols.append(('semantics/%s/got-%s-expected-%s' % (label, r.err, exp),
                      '%s: error %r, reference semantics expect %r' % (render(op), r.err, exp)))
        return False, 'diverged'
    return True, ('ok' if exp is None else 'err%d' % exp)


def op_label(op):
    p = op[0]
    if p[0] == 'goto':
        return 'prog-' + p[2][0]
    if p[0] in ('let', 'cat'):
        return p[0] + ('-elem' if len(p[1]) == 2 else '-scalar') + p[1][0][-1]
    if p[0] == 'refused':
        return 'refused-' + p[1].split(' ')[0]
    if p[0] == 'erasem':
        return 'erase-list-' + ''.join(n[-1] for n in p[1])
    if p[0] in ('dim', 'erase'):
        return p[0] + p[1][-1] + ('-long' if len(p[1]) > 10 else '')
    return p[0]


def rebuild(hist):
    """Fresh session + reference in the state after history (root id, op indices...)."""
    s = new_session()
    ref = Ref()
    junk = []
    for op in ROOTS[hist[0]]:
        ok, _ = run_op(s, ref, op, junk, 'root')
        if not ok:
            raise CheckError('root prefix failed: %r' % (junk,))
    for i in hist[1:]:
        ok, _ = run_op(s, ref, OPS[i], junk, 'replay')
        if not ok:
            return None, None
    return s, ref


def ref_after(hist):
    ref = Ref()
    for op in ROOTS[hist[0]]:
        ref.apply(op)
    for i in hist[1:]:
        ref.apply(OPS[i])
    return ref


def expand(hist):
    out = []
    base_ref = ref_after(hist)
    for i, op in enumerate(OPS):
        if not base_ref.enabled(op):
            continue
        s, ref = rebuild(hist)
        if s is None:
            # the parent was reached without divergence before, so this cannot happen
            raise CheckError('history %r no longer replays' % (hist,))
        viols = []
        classes = set()
        label = op_label(op)
        # look at every variable through VARPTR/PEEK *before* the operation as well, in the same
        # session: a fault may need an observation, then a change, then another observation
        # (anything wrong here was already reported when this state was first reached)
        check_state(s, ref, [], set())
        ok, outcome = run_op(s, ref, op, viols, label)
        key = None
        nvars = 0
        if ok:
            key = hidden_key(s)
            nvars = check_state(s, ref, viols, classes)
        info = '%s:%s' % (label, outcome)
        out.append((i, key, viols, info))
        # extra class labels ride along in info of zero-cost pseudo entries
        for c in classes:
            out.append((i, None, [], 'state:' + c))
    return out


def work_bfs(shard):
    root, depth = shard
    part = Partial()
    res = bfs.explore(expand, [(root,)], depth, part, label='root%d' % root)
    # pseudo entries were counted as transitions: correct the counters
    pseudo = sum(v for k, v in part.outcomes.items() if k.startswith('state:'))
    part.transitions -= pseudo
    part.traces -= pseudo
    part.n -= pseudo
    for k in [k for k in part.outcomes if k.startswith('state:')]:
        del part.outcomes[k]
    part.add('root%d_states' % root, res['states'])
    return part


def legs(ctx):
    if ctx.quick:
        plan = [(0, 3), (1, 2), (3, 2)]
        bound = ('all histories of <= 3 statements over %d ops from the empty session, of <= 2 statements '
                 'from the arrays-first root and from the OPTION BASE 1 root' % len(OPS))
    else:
        plan = [(0, 4), (1, 3), (2, 3), (3, 3), (4, 3)]
        bound = ('all histories of <= 4 statements over %d ops from the empty session and of <= 3 '
                 'statements from 4 populated roots (arrays first / mixed with garbage / OPTION BASE 1 '
                 '/ long names first)' % len(OPS))
    return [Leg('bfs', plan, work_bfs, exhaustive=True, bound=bound, serial=True)]


def replay(ctx, leg, case):
    part = Partial()
    hist = tuple(case['history'])
    parent, op = hist[:-1], hist[-1]
    s, ref = rebuild(parent)
    if s is None:
        raise CheckError('history does not replay')
    viols = []
    ok, _ = run_op(s, ref, OPS[op], viols, op_label(OPS[op]))
    if ok:
        check_state(s, ref, viols, set())
    for k, w in viols:
        part.violation(k, w, case)
    part.n = 1
    return part
