"""
C15 - saved programs load back identically in every file format.

E1:
  cipher    : protect/unprotect on streams - every (position mod 143, byte) cell, i.e.
              256 strings of length 2*143+5 whose byte at position i is (7i+k) mod 256
              (each position sees all 256 bytes; two periods + wrap), all strings of
              length 0..3 over {00,1A,FF,41}, lengths 142,143,144,286,287:
              unprotect(protect(s) + EOF) == s, and protect is injective per position
  roundtrip : program family (C14 grammar programs, edge programs, hand-assembled
              tokenised-only programs, three recorded GW-BASIC corpus programs) x formats
              {B, P, A} x devices {disk C:, internal @: stream, cassette CAS1:}:
              SAVE, NEW, LOAD; program memory byte-identical (B, P); same listing (A, also
              through MERGE) whenever the listing re-enters as the same program
  convert   : pcbasic.main('--convert=M', in, out) in-process for inputs in each format x
              M in {A,B,P}: output file byte-identical to LOAD + SAVE ,M in a Session
"""
import io
import os

from mc.core import Leg, Partial, CheckError, chunked
from mc import harness as H
from mc import progstore as R
from models.renummodel import listing

import pcbasic
from pcbasic.basic import converter

PROPERTY = 'C15'
ENGINE = 'E1 domain'
LEVEL = 'model_checking'
LEVEL_TEXT = (
    'The protection cipher is enumerated over its whole cell space (143 key positions x 256 bytes, two '
    'full periods plus wrap-around) and over all short strings of the EOF/NUL/FF alphabet; SAVE/LOAD is '
    'enumerated over a fixed program family (every 1-reference program of the C14 grammar, 14 edge '
    'programs with long lines, EOF/high/control bytes, every number token class and line numbers '
    'containing 1A, 4 hand-assembled tokenised-only programs incl. lines 65530-65535, 3 recorded '
    'GW-BASIC files) x 3 formats x 3 devices; the command-line converter is run in-process on a fixed '
    'sub-family for all 9 (input format, output format) pairs.')
LEVEL_NOTE = (
    'Trusted: the typed-entry path as the definition of "the listing re-enters as the same program"; '
    'program memory is read from Program.bytecode up to Program.code_size.')
TECHNIQUE = ('bounded exhaustive enumeration of cipher cells and of (program, format, device) triples on '
             'the real protect/unprotect functions, Session SAVE/LOAD/MERGE and pcbasic.main --convert')
RULE = ('cipher: every (position, byte) cell and every string of the stated sets; programs: fixed family x '
        'formats x devices; a case class is (program group, format, device, outcome); everything except '
        '(grammar program, B, disk) is non-trivial')
ASSUMPTIONS = [
    'files written by two SAVEs are compared up to trailing end-of-file markers 1A (a tokenised LOAD keeps the marker it '
    'read behind the end of the program, which the source documents as "keep, but ignore, anything after")',
    'internal seam: converter.protect / unprotect (anchored), Program.bytecode / code_size / line_numbers '
    '(read-only, to compare program memory byte for byte)',
    '"program memory" is the bytes up to Program.code_size (what PEEK attributes to the program); bytes '
    'that LOAD keeps beyond the terminator (the file\'s EOF byte) are not program memory',
    '"the listing re-enters as the same program" is decided by typing every listed line (<= 255 '
    'characters each) into a fresh Session and comparing program memory; if it does not, the ASCII '
    'round trip is only required not to raise a host exception',
    'cassette: the three formats are written to one fresh tape per program; the writing Session is closed '
    '(which completes the tape image) and the files are read back in a second Session in tape order',
    'the converter runs in-process with an open, empty stdin (the worker pool closes stdin; a closed stdin '
    'makes config.Settings raise ValueError, which is outside this property)',
    'the converter is compared with a default Session that LOADs/SAVEs through a disk mount',
]

REPO = os.path.dirname(os.path.dirname(os.path.abspath(pcbasic.__file__)))
CORPUS = [
    ('corpus-tokens', 'tests/basic/gwbasic/tokens/TEST.BAS'),
    ('corpus-protected', 'tests/basic/unsorted/SAVE/model/P.BAS'),
    ('corpus-ascii', 'tests/basic/unsorted/IF/TEST.BAS'),
]

# ---------------------------------------------------------------------------
# cipher


def _enc(s):
    out = io.BytesIO()
    converter.protect(io.BytesIO(s), out)
    return out.getvalue()


def _dec(s):
    out = io.BytesIO()
    converter.unprotect(io.BytesIO(s), out)
    return out.getvalue()


def _cipher_string(part, s, label):
    case = {'plain': s}
    part.n += 1
    try:
        e = _enc(s)
        d = _dec(e + b'\x1a')
    except Exception as ex:
        part.violation('cipher/host-exception/%s/%s' % (type(ex).__name__, label),
                       'protect/unprotect of %d bytes raised %r' % (len(s), ex), case)
        return None
    if len(e) != len(s):
        part.violation('cipher/length-changed/' + label,
                       'protect maps %d bytes to %d bytes' % (len(s), len(e)), case)
    if d != s:
        bad = [i for i in range(min(len(d), len(s))) if d[i] != s[i]]
        where = ('position-%d-mod-143' % (bad[0] % 143)) if bad else 'length'
        part.violation('cipher/not-inverse/%s' % label,
                       'unprotect(protect(s)+EOF) != s (first difference at %s): s=%r' % (where, s[:16]), case)
    return e


PERIOD = 143
CELL_LEN = 2 * PERIOD + 5


def work_cipher_cells(shard):
    """shard: range of k.  String k has byte (7i+k) mod 256 at position i."""
    part = Partial()
    lo, hi = shard
    encs = {}
    for k in range(lo, hi):
        s = bytes((7 * i + k) & 255 for i in range(CELL_LEN))
        e = _cipher_string(part, s, 'cells')
        part.n += CELL_LEN - 1
        if e is not None:
            encs[k] = e
    part.classes.add('cells')
    # per-position injectivity needs all 256 strings: done in the 'bijection' shard
    part.sample({'k_range': [lo, hi]})
    part.traces = part.n
    return part


def work_cipher_bijection(shard):
    part = Partial()
    table = []
    for k in range(256):
        s = bytes((7 * i + k) & 255 for i in range(CELL_LEN))
        try:
            table.append(_enc(s))
        except Exception as ex:
            part.violation('cipher/host-exception/%s/bijection' % type(ex).__name__, repr(ex), {'k': k})
            return part
    for i in range(CELL_LEN):
        part.n += 256
        # plain byte at position i of string k is (7i+k)&255: all 256 values; images must be distinct
        images = set(t[i] for t in table if len(t) > i)
        if len(images) != 256:
            part.violation('cipher/not-injective/position-%d-mod-143' % (i % PERIOD),
                           'position %d: 256 plain bytes map to %d cipher bytes' % (i, len(images)),
                           {'position': i})
    # periodicity is NOT required by the statement; only recorded
    part.classes.add('bijection')
    part.traces = part.n
    return part


def work_cipher_small(shard):
    part = Partial()
    alpha = (0x00, 0x1a, 0xff, 0x41)
    strings = []
    for n in (0, 1, 2, 3):
        def rec(prefix):
            if len(prefix) == n:
                strings.append(bytes(prefix))
                return
            for a in alpha:
                rec(prefix + [a])
        rec([])
    for s in strings:
        _cipher_string(part, s, 'short')
    for n in (142, 143, 144, 286, 287):
        for fill in (None, 0x00, 0x1a, 0xff):
            s = bytes(((i * 11 + 3) & 255) if fill is None else fill for i in range(n))
            _cipher_string(part, s, 'period-boundary')
    part.classes.add('short')
    part.classes.add('period-boundary')
    part.traces = part.n
    return part


# ---------------------------------------------------------------------------
# program family


def _tok(lines, **kw):
    return R.tokenised_file(lines, **kw)


EDGE = {
    'top-line': [b'65529 PRINT "top"'],
    # an ASCII listing of 69 kB (more than the 65534 bytes of BASIC memory) whose tokenised form is 25 kB
    'listing-larger-than-memory': [b'%d ' % (10 * k) + b':'.join([b'PRINT'] * 40) for k in range(1, 291)],
    'long-rem': [b'10 REM ' + b'x' * 248, b'20 PRINT "' + b'y' * 240 + b'"'],
    'high-bytes': [b'10 PRINT "\x80\xfe\xff\xe9":REM \xff\x81\x9b', b"20 ' \xfd\x01\x02"],
    'eof-byte-in-text': [b'10 PRINT "a\x1ab"', b'20 REM a\x1ab'],
    'number-classes': [b'10 A=9:B=10:C=255:D=256:E=32767:F=&H1A:G=&O32:H=1.5:I=1.5#:J=26:K=6656:L=.5',
                       b'26 GOTO 26', b'6656 GOSUB 6656:PRINT 9;9;9'],
    'control-chars': [b'10 PRINT "\x01\x07\x09\x0b\x0c\x1b\x1c\x1f"'],
    'empty': [],
    'line-zero': [b'0PRINT "z"', b'1 GOTO 0'],
    'special-tokens': [b'10 IF A THEN PRINT 1 ELSE PRINT 2', b"20 WHILE A<1:WEND ' c", b'30 DATA 1,"a:b",c ,d',
                       b'40 ON ERROR GOTO 0:ON A GOSUB 10,20,30'],
    'sixty-lines': [b'%d PRINT %d;"line";%d' % (i * 10, i, i * 9) for i in range(1, 61)],
    'one-char': [b'1 A'],
    'period-143': [b'10 REM ' + b'p' * 130, b'20 REM ' + b'q' * 131, b'30 REM ' + b'r' * 132],
    'spaces': [b'10   PRINT   1 ;  2', b'20 A = 1 :  B = 2'],
    'lowercase-strings': [b'10 PRINT "MiXed case":REM Mixed Case', b'20 A$="don\'t"'],
}

# programs whose tokenised image length sweeps across the 256-byte cassette block size
# (two REM lines of k1+k2 filler bytes: image = k1 + k2 + 16 bytes, give or take the format's EOF byte)
for _n in list(range(250, 263)) + list(range(506, 519)):
    _k1 = (_n - 16) // 2
    _k2 = _n - 16 - _k1
    EDGE['size-%03d' % _n] = [b'10 REM ' + b's' * _k1, b'20 REM ' + b't' * _k2]

TOKENISED = {
    'beyond-65529': _tok([(65529, b'\x91 "a"'), (65530, b'\x91 "b"'), (65535, b'\x91 "c"')]),
    'out-of-order': _tok([(30, b'\x91 "c"'), (10, b'\x91 "a"'), (20, b'\x89 \x0e\x1e\x00')]),
    'embedded-nul-eof': _tok([(10, b'\x89 \x0e\x00\x01'), (256, b'\x91 \x1a;\x0f\x1a;\x1c\x1a\x00;\x1c\x00\x1a'),
                              (6682, b'\x8f \x1a')]),
    'no-eof-byte': _tok([(10, b'\x91 "a"'), (20, b'\x81')], eof=b''),
}


def grammar_programs(nsids):
    from checks import c14
    out = []
    for nsid in nsids:
        for spec in c14.enum_single(nsid):
            prog = c14.build(nsid, spec)
            lines = listing(prog)
            # line 0: no blank after the number (see C13/C14)
            lines = [l.replace(b'0 ', b'0', 1) if l.startswith(b'0 ') else l for l in lines]
            out.append(('grammar', '%s:%d:%s:%s' % (nsid, spec[0][0], spec[0][1], '-'.join(map(str, spec[0][2]))),
                        'typed', lines))
    return out


def edge_programs():
    out = [('edge', name, 'typed', lines) for name, lines in sorted(EDGE.items())]
    out += [('tokenised', name, 'tokfile', data) for name, data in sorted(TOKENISED.items())]
    out += [('corpus', name, 'corpus', path) for name, path in CORPUS]
    return out


FORMATS = (b'B', b'P', b'A')
DEVICES = ('disk', 'internal', 'cassette')


class KeepBytesIO(io.BytesIO):
    """Stream that survives close() so that what SAVE wrote can be read afterwards."""

    def close(self):
        pass


class Bench(object):
    """One scratch directory: a disk mount and a tape per program."""

    def __init__(self, root):
        self.root = root
        self.count = 0

    def new_session(self):
        self.count += 1
        self.dir = os.path.join(self.root, 'p%d' % self.count)
        os.makedirs(os.path.join(self.dir, 'c'))
        self.tape = os.path.join(self.dir, 'tape.cas')
        return self.session()

    def session(self):
        return H.new_session(devices={'C:': os.path.join(self.dir, 'c'), 'CAS1:': 'CAS:' + self.tape},
                             current_device='C:')

    def disk_path(self, name):
        return os.path.join(self.dir, 'c', name)


def snapshot(s):
    p = s._impl.program
    try:
        code = p.bytecode.getvalue()[:p.code_size]
        index = dict(p.line_numbers)
    except AttributeError as e:
        raise CheckError('internal seam changed: %s' % e)
    return code, index


def build_program(bench, s, kind, payload):
    """Put the program into session s. Returns None or (key, what) if that failed with a host exception."""
    if kind == 'typed':
        for l in payload:
            r = H.run(s, l)
            if r.exc is not None:
                return ('build/host-exception/' + H.exc_key(r.exc), 'typing %r raised %r' % (l, r.exc))
            if r.out:
                raise CheckError('line %r not accepted: %r' % (l, r.out))
        return None
    if kind == 'tokfile':
        data = payload
    else:
        with open(os.path.join(REPO, payload), 'rb') as f:
            data = f.read()
    with open(bench.disk_path('INPUT.BAS'), 'wb') as f:
        f.write(data)
    r = H.run(s, b'LOAD "C:INPUT.BAS"')
    if r.exc is not None:
        return ('build/host-exception/' + H.exc_key(r.exc), 'LOAD of prepared file raised %r' % (r.exc,))
    if r.err is not None:
        raise CheckError('prepared file does not load: %r' % (r,))
    return None


def list_lines(s):
    r = H.run(s, b'LIST')
    if r.exc is not None:
        return None, r
    return R.lines_of(r.out), r


def reenterable(lines, mem0):
    """Does the listing, typed into a fresh session, give the same program memory?"""
    if any(len(l) > 255 for l in lines):
        return False
    s = H.new_session()
    for l in lines:
        r = H.run(s, l)
        if r.exc is not None or r.out:
            return False
    return snapshot(s)[0] == mem0


def roundtrip_program(part, bench, group, name, kind, payload, formats=FORMATS, devices=DEVICES):
    case0 = {'group': group, 'name': name}
    s = bench.new_session()
    bad = build_program(bench, s, kind, payload)
    if bad:
        part.violation(bad[0], bad[1], case0)
        return
    mem0, idx0 = snapshot(s)
    list0, r = list_lines(s)
    if list0 is None:
        part.violation('list/host-exception/' + H.exc_key(r.exc), 'LIST of %s raised %r' % (name, r.exc), case0)
        return
    reenter = reenterable(list0, mem0)
    label = group if group != 'edge' and group != 'tokenised' else '%s:%s' % (group, name)

    def restore(sess):
        """Session holding the original program again."""
        if snapshot(sess)[0] == mem0:
            return sess
        s2 = bench.session()
        if build_program(bench, s2, kind, payload):
            raise CheckError('program no longer builds')
        return s2

    def compare(sess, fmt, dev, how, case):
        """After LOAD/MERGE in sess: the oracle for this format."""
        mem1, idx1 = snapshot(sess)
        if fmt in (b'B', b'P'):
            if mem1 != mem0:
                n = min(len(mem0), len(mem1))
                first = next((i for i in range(n) if mem0[i] != mem1[i]), n)
                part.violation('roundtrip/%s/%s/memory-differs/%s' % (fmt.decode(), dev, label),
                               '%s: SAVE ,%s to %s then LOAD: program memory differs at offset %d '
                               '(%d vs %d bytes): %r... vs %r...' % (
                                   name, fmt.decode(), dev, first, len(mem0), len(mem1),
                                   mem0[max(0, first - 4):first + 8], mem1[max(0, first - 4):first + 8]), case)
                return False
            if idx1 != idx0:
                part.violation('roundtrip/%s/%s/index-differs/%s' % (fmt.decode(), dev, label),
                               '%s: line index after LOAD %r, before SAVE %r' % (name, sorted(idx1.items()),
                                                                                 sorted(idx0.items())), case)
                return False
            return True
        lst, r = list_lines(sess)
        if lst is None:
            part.violation('roundtrip/A/%s/list-host-exception/%s' % (dev, H.exc_key(r.exc)),
                           '%s: LIST after %s raised %r' % (name, how, r.exc), case)
            return False
        if not reenter:
            part.outcome('ascii-listing-does-not-re-enter:' + label)
            return True
        if lst != list0:
            bad = [i for i in range(min(len(lst), len(list0))) if lst[i] != list0[i]]
            part.violation('roundtrip/A/%s/%s-listing-differs/%s' % (dev, how, label),
                           '%s: SAVE ,A to %s then %s: %d lines vs %d, first difference %r vs %r' % (
                               name, dev, how, len(lst), len(list0),
                               lst[bad[0]] if bad else None, list0[bad[0]] if bad else None), case)
            return False
        return True

    def step(sess, cmd, case, what, fmt, dev, tolerate_error=False):
        r = H.run(sess, cmd)
        part.traces += 1
        if r.exc is not None:
            part.violation('roundtrip/%s/%s/host-exception/%s' % (fmt.decode(), dev, H.exc_key(r.exc)),
                           '%s: %s raised %r' % (name, what, r.exc), case)
            return False
        if r.err is not None:
            if tolerate_error:
                part.outcome('ascii-not-reenterable-load-error-%s:%s' % (r.err, label))
                return False
            part.violation('roundtrip/%s/%s/%s-error-%s/%s' % (fmt.decode(), dev, what.split()[0].lower(), r.err, label),
                           '%s: %s gave BASIC error %s' % (name, what, r.err), case)
            return False
        return True

    for dev in devices:
        if dev == 'cassette':
            continue
        for fmt in formats:
            case = dict(case0, fmt=fmt.decode(), dev=dev)
            part.n += 1
            s = restore(s)
            suffix = b'' if fmt == b'B' else b',' + fmt
            tol = (fmt == b'A' and not reenter)
            if dev == 'disk':
                fname = b'C:RT' + fmt + b'.BAS'
                if not step(s, b'SAVE "%s"%s' % (fname, suffix), case, 'SAVE', fmt, dev):
                    continue
                loads = [fname]
                merge = fname
            else:
                stream = KeepBytesIO()
                bname = bytes(s.bind_file(stream, create=True))
                if not step(s, b'SAVE "%s"%s' % (bname, suffix), case, 'SAVE', fmt, dev):
                    continue
                data = stream.getvalue()
                loads = [bytes(s.bind_file(io.BytesIO(data)))]
                merge = bytes(s.bind_file(io.BytesIO(data)))
            if not step(s, b'NEW', case, 'NEW', fmt, dev):
                continue
            if not step(s, b'LOAD "%s"' % (loads[0],), case, 'LOAD', fmt, dev, tol):
                continue
            ok = compare(s, fmt, dev, 'LOAD', case)
            part.outcome('%s-%s-%s' % (fmt.decode(), dev, 'ok' if ok else 'violation'))
            part.classes.add('%s|%s|%s' % (group, fmt.decode(), dev))
            if fmt == b'A' and ok:
                if step(s, b'NEW', case, 'NEW', fmt, dev) and \
                        step(s, b'MERGE "%s"' % (merge,), case, 'MERGE', fmt, dev, tol):
                    compare(s, fmt, dev, 'MERGE', case)
            if ok and dev == 'disk':
                # LOAD replaces whatever is in memory: a longer program entered before it leaves no trace,
                # in memory or in the file written next
                first = open(bench.disk_path('RT%s.BAS' % fmt.decode()), 'rb').read()
                okp = step(s, b'NEW', case, 'NEW', fmt, dev)
                for k in range(40):
                    okp = okp and step(s, b'%d REM %s' % (60000 + k, b'padding ' * 6), case, 'line entry', fmt, dev)
                if okp and step(s, b'LOAD "%s"' % (fname,), case, 'LOAD', fmt, dev, tol):
                    part.n += 1
                    if compare(s, fmt, dev, 'LOAD-over-longer-program', dict(case, over='longer')):
                        f2 = b'C:RU' + fmt + b'.BAS'
                        if step(s, b'SAVE "%s"%s' % (f2, suffix), case, 'SAVE', fmt, dev):
                            second = open(bench.disk_path('RU%s.BAS' % fmt.decode()), 'rb').read()
                            # the end-of-file marker 1A is not program content (a tokenised LOAD keeps the
                            # marker it read after the program's end, so SAVE then writes two)
                            if second.rstrip(b'\x1a') != first.rstrip(b'\x1a') and (fmt != b'A' or reenter):
                                part.violation('roundtrip/%s/%s/resaved-file-differs/%s' % (fmt.decode(), dev, label),
                                               '%s: SAVE, enter a longer program, LOAD, SAVE again: %d bytes, first file %d bytes' % (
                                                   name, len(second), len(first)), dict(case, over='longer'))
                    part.classes.add('%s|%s|%s|over-longer' % (group, fmt.decode(), dev))
    if 'cassette' in devices:
        s = restore(s)
        saved = []
        for fmt in formats:     # B, P, A: the ASCII file last
            case = dict(case0, fmt=fmt.decode(), dev='cassette')
            part.n += 1
            suffix = b'' if fmt == b'B' else b',' + fmt
            if step(s, b'SAVE "CAS1:RT%s"%s' % (fmt, suffix), case, 'SAVE', fmt, 'cassette'):
                saved.append(fmt)
            s = restore(s)
        # the tape image is complete only once the writing session has closed it
        s.close()
        s2 = bench.session()
        for fmt in saved:
            case = dict(case0, fmt=fmt.decode(), dev='cassette')
            tol = (fmt == b'A' and not reenter)
            if not step(s2, b'LOAD "CAS1:RT%s"' % (fmt,), case, 'LOAD', fmt, 'cassette', tol):
                continue
            ok = compare(s2, fmt, 'cassette', 'LOAD', case)
            part.outcome('%s-cassette-%s' % (fmt.decode(), 'ok' if ok else 'violation'))
            part.classes.add('%s|%s|cassette' % (group, fmt.decode()))


def work_roundtrip(shard):
    part = Partial()
    with H.Scratch() as root:
        bench = Bench(root)
        for group, name, kind, payload in shard:
            roundtrip_program(part, bench, group, name, kind, payload)
    if shard:
        part.sample({'group': shard[0][0], 'name': shard[0][1]})
    return part


# ---------------------------------------------------------------------------
# converter


def convert_program(part, bench, group, name, kind, payload):
    import importlib
    main_mod = importlib.import_module('pcbasic.main')
    case0 = {'group': group, 'name': name}
    s = bench.new_session()
    if build_program(bench, s, kind, payload):
        raise CheckError('program %s does not build' % name)
    # inputs in each format, written by a session
    inputs = {}
    for fmt in FORMATS:
        suffix = b'' if fmt == b'B' else b',' + fmt
        r = H.run(s, b'SAVE "C:IN%s.BAS"%s' % (fmt, suffix))
        if r.exc is not None or r.err is not None:
            part.outcome('convert-input-not-saved')
            continue
        inputs[fmt] = bench.disk_path('IN%s.BAS' % fmt.decode())
    for infmt, inpath in sorted(inputs.items()):
        for mode in FORMATS:
            case = dict(case0, infmt=infmt.decode(), mode=mode.decode())
            part.n += 1
            part.traces += 2
            # reference: a default session, LOAD then SAVE through the mount
            sref = H.new_session(devices={'C:': os.path.join(bench.dir, 'c')}, current_device='C:')
            suffix = b'' if mode == b'B' else b',' + mode
            refname = 'R%s%s.BAS' % (infmt.decode(), mode.decode())
            r1 = H.run(sref, b'LOAD "C:IN%s.BAS"' % (infmt,))
            r2 = H.run(sref, b'SAVE "C:%s"%s' % (refname.encode(), suffix))
            if r1.exc is not None or r2.exc is not None:
                part.violation('convert/session-host-exception/%s' % H.exc_key(r1.exc or r2.exc),
                               '%s: LOAD/SAVE raised %r' % (name, r1.exc or r2.exc), case)
                continue
            refpath = bench.disk_path(refname)
            # a LOAD or SAVE that fails with a BASIC error is part of the comparison: the converter
            # performs the same two statements, so whatever file results must be the same
            ref = open(refpath, 'rb').read() if os.path.exists(refpath) else None
            outpath = os.path.join(bench.dir, 'conv_%s_%s.out' % (infmt.decode(), mode.decode()))
            # the mode letter is accepted in either case: lower case for ASCII inputs, upper otherwise
            mode_arg = mode.decode().lower() if infmt == b'A' else mode.decode()
            try:
                main_mod.main('--convert=%s' % mode_arg, inpath, outpath)
            except SystemExit:
                pass
            except Exception as e:
                if from_pcbasic(e):
                    part.violation('convert/host-exception/%s/%s-to-%s' % (type(e).__name__, infmt.decode(), mode.decode()),
                                   '%s: --convert=%s raised %r' % (name, mode.decode(), e), case)
                    continue
                raise
            got = open(outpath, 'rb').read() if os.path.exists(outpath) else None
            if r1.err is not None or r2.err is not None:
                part.outcome('convert-with-basic-error-%s-%s' % (r1.err, r2.err))
            if ref is None:
                if got:
                    part.violation('convert/output-where-session-writes-none/%s-to-%s' % (infmt.decode(), mode.decode()),
                                   '%s: Session LOAD/SAVE (errors %r, %r) writes no file but the converter wrote %d bytes'
                                   % (name, r1.err, r2.err, len(got)), case)
                continue
            if got != ref:
                n = min(len(got or b''), len(ref))
                first = next((i for i in range(n) if (got or b'')[i] != ref[i]), n)
                part.violation('convert/differs/%s-to-%s/%s' % (infmt.decode(), mode.decode(), group),
                               '%s: --convert=%s of the %s file gives %s bytes, SAVE in a Session %d bytes; '
                               'first difference at offset %d' % (name, mode.decode(), infmt.decode(),
                                                                  len(got) if got is not None else None,
                                                                  len(ref), first), case)
            part.outcome('convert-%s-to-%s-equal' % (infmt.decode(), mode.decode()))
            # conversion in place: output names the input file (same spelling, and through a link)
            for how in ('same', 'link'):
                part.n += 1
                part.traces += 1
                ipath = os.path.join(bench.dir, 'inpl_%s_%s_%s.bas' % (infmt.decode(), mode.decode(), how))
                with open(ipath, 'wb') as f:
                    f.write(open(inpath, 'rb').read())
                opath = ipath
                if how == 'link':
                    opath = ipath + '.lnk'
                    os.symlink(ipath, opath)
                try:
                    main_mod.main('--convert=%s' % mode_arg, ipath, opath)
                except SystemExit:
                    pass
                except Exception as e:
                    if from_pcbasic(e):
                        part.violation('convert/host-exception/%s/in-place' % type(e).__name__,
                                       '%s: --convert=%s in place raised %r' % (name, mode.decode(), e), case)
                        continue
                    raise
                got = open(ipath, 'rb').read()
                if got != ref:
                    part.violation('convert/in-place-differs/%s-to-%s' % (infmt.decode(), mode.decode()),
                                   '%s: --convert=%s with the %s file as both input and output (%s) leaves %d bytes %r..., '
                                   'LOAD+SAVE in a Session %d bytes' % (name, mode.decode(), infmt.decode(), how, len(got),
                                                                        got[:8], len(ref)), dict(case, inplace=how))
                part.classes.add('convert-in-place|%s|%s>%s' % (how, infmt.decode(), mode.decode()))
                os.remove(ipath)
                if how == 'link':
                    os.remove(opath)
            part.classes.add('convert|%s|%s>%s' % (group, infmt.decode(), mode.decode()))
            # the same conversion as a filter: the input file on standard input, the result on standard output
            part.n += 1
            part.traces += 1
            from pcbasic.compat import stdio
            keep = stdio.stdin, stdio.stdout
            fake_out = _FakeStdout()
            stdio.stdin, stdio.stdout = _FakeStdin(open(inpath, 'rb').read()), fake_out
            try:
                main_mod.main('--convert=%s' % mode_arg)
            except SystemExit:
                pass
            except Exception as e:
                if from_pcbasic(e):
                    part.violation('convert/host-exception/%s/filter' % type(e).__name__,
                                   '%s: --convert=%s as a filter raised %r' % (name, mode.decode(), e), dict(case, filter=True))
                    continue
                raise
            finally:
                stdio.stdin, stdio.stdout = keep
            got = fake_out.buffer.getvalue()
            if got != ref:
                n = min(len(got), len(ref))
                first = next((i for i in range(n) if got[i] != ref[i]), n)
                part.violation('convert/filter-differs/%s-to-%s' % (infmt.decode(), mode.decode()),
                               '%s: --convert=%s with the %s file on standard input writes %d bytes to standard output, '
                               'LOAD+SAVE in a Session %d bytes; first difference at offset %d'
                               % (name, mode.decode(), infmt.decode(), len(got), len(ref), first), dict(case, filter=True))
            part.classes.add('convert-filter|%s|%s>%s' % ('large' if name == 'listing-larger-than-memory' else 'small',
                                                            infmt.decode(), mode.decode()))


class _FakeStdin(object):
    """Standard input that is a file (not a terminal) holding `data`."""

    def __init__(self, data):
        self.buffer = io.BytesIO(data)
        self.closed = False
        self.name = '<stdin>'
        self.encoding = 'utf-8'

    def isatty(self):
        return False

    def read(self, num=-1):
        return ''

    def readline(self):
        return ''


class _FakeStdout(object):
    """Standard output that is a file: bytes through .buffer are kept, text (echoed messages) is dropped."""

    def __init__(self):
        self.buffer = KeepBytesIO()
        self.closed = False
        self.name = '<stdout>'
        self.encoding = 'utf-8'

    def isatty(self):
        return False

    def write(self, text):
        return len(text)

    def flush(self):
        pass


def from_pcbasic(e):
    from mc.core import from_pcbasic as f
    return f(e)


def _ensure_stdin():
    """The fork pool closes the worker's stdin; pcbasic.compat.stdio captured that object at import
    and config.Settings calls stdin.isatty().  Give the converter an open (empty) stdin, as any
    command line would."""
    from pcbasic.compat import stdio
    try:
        closed = stdio.stdin.closed
    except AttributeError as e:
        raise CheckError('pcbasic.compat.stdio changed: %s' % e)
    if closed:
        # a pipe whose write end stays open: readable, never ready, supports FIONREAD
        rfd, wfd = os.pipe()
        _KEEP.append(wfd)
        stdio.stdin = os.fdopen(rfd, 'r')


_KEEP = []


def work_convert(shard):
    import logging
    part = Partial()
    level = logging.getLogger().level
    _ensure_stdin()
    from pcbasic.compat import stdio
    saved_stdout = stdio.stdout
    sink = open(os.devnull, 'w')
    # the converter's Session echoes BASIC error messages to stdout: keep them out of the report
    stdio.stdout = sink
    try:
        with H.Scratch() as root:
            bench = Bench(root)
            for group, name, kind, payload in shard:
                convert_program(part, bench, group, name, kind, payload)
    finally:
        stdio.stdout = saved_stdout
        sink.close()
        logging.getLogger().setLevel(level)
    return part


def convert_family(quick):
    fam = [p for p in edge_programs() if p[1] in (
        'high-bytes', 'number-classes', 'special-tokens', 'beyond-65529', 'corpus-ascii', 'corpus-tokens',
        'corpus-protected', 'sixty-lines', 'eof-byte-in-text', 'embedded-nul-eof', 'empty', 'long-rem',
        'listing-larger-than-memory')]
    if quick:
        fam = [p for p in fam if p[1] in ('number-classes', 'special-tokens', 'beyond-65529', 'corpus-protected',
                                          'listing-larger-than-memory')]
    else:
        fam += grammar_programs(['n3'])[::25]
    return fam


# ---------------------------------------------------------------------------
# leg failed-save: a SAVE cut short by a device error after k bytes leaves nothing behind

FS_PROGRAM = [b'10 REM round trip', b'20 A%=1234:B$="HELLO WORLD"', b'30 FOR I=1 TO 10:PRINT I;A%*I:NEXT',
              b'40 IF A%>1000 THEN GOTO 60 ELSE PRINT B$', b'50 GOSUB 70', b'60 END', b'70 RETURN']
FS_EDIT = b'25 PRINT "edited"'


class FailingStream(object):
    """Accepts `limit` bytes, then every write fails like a faulty device."""

    def __init__(self, limit):
        self.limit = limit
        self.accepted = 0

    def write(self, data):
        import errno
        if self.accepted + len(data) > self.limit:
            self.accepted = self.limit
            raise IOError(errno.EIO, 'simulated device fault')
        self.accepted += len(data)
        return len(data)

    def read(self, num=-1):
        return b''

    def flush(self):
        pass

    def close(self):
        pass


def _fs_session(root, tag):
    d = os.path.join(root, tag)
    os.makedirs(d)
    s = H.new_session(devices={'C:': d}, current_device='C:')
    for l in FS_PROGRAM:
        r = H.run(s, l)
        if r.exc is not None or r.out:
            raise CheckError('line %r not accepted: %r' % (l, r))
    return s, d


def _fs_observe(s, d):
    """Edit the program, save it in all three formats, load the protected file back: -> dict of observations."""
    obs = {}
    r = H.run(s, FS_EDIT)
    for fmt in FORMATS:
        r = H.run(s, b'SAVE "O%s"%s' % (fmt, b'' if fmt == b'B' else b',' + fmt))
        obs['save-' + fmt.decode()] = (r.err, repr(r.exc) if r.exc is not None else None)
        try:
            with open(os.path.join(d, 'O%s.BAS' % fmt.decode()), 'rb') as f:
                obs['file-' + fmt.decode()] = f.read()
        except (IOError, OSError):
            obs['file-' + fmt.decode()] = None
    for fmt in (b'P', b'B'):
        r = H.run(s, b'NEW')
        r = H.run(s, b'LOAD "O%s"' % fmt)
        obs['load-' + fmt.decode()] = (r.err, repr(r.exc) if r.exc is not None else None)
        obs['memory-after-load-' + fmt.decode()] = snapshot(s)[0]
    return obs


def work_failed_save(shard):
    from mc import fast
    fast.quiet()
    part = Partial()
    with H.Scratch() as root:
        s0, d0 = _fs_session(root, 'control')
        mem0 = snapshot(s0)[0]
        control = _fs_observe(s0, d0)
        s0.close()
        for n, (fmt, limit) in enumerate(shard):
            case = {'fmt': fmt.decode(), 'limit': limit}
            s, d = _fs_session(root, 'c%d' % n)
            name = s.bind_file(FailingStream(limit))
            r = H.run(s, b'SAVE "%s"%s' % (bytes(name), b'' if fmt == b'B' else b',' + fmt))
            part.n += 1
            part.traces += 1
            if r.exc is not None:
                part.violation('failed-save/host-exception/%s' % H.exc_key(r.exc), 'SAVE ,%s to a stream failing after %d bytes raised %r' % (
                    fmt.decode(), limit, r.exc), case)
                s.close()
                continue
            part.classes.add('failed-save/%s/%s' % (fmt.decode(), 'refused' if r.err is not None else 'fitted'))
            if snapshot(s)[0] != mem0:
                part.violation('failed-save/program-memory-changed', 'after SAVE ,%s cut short at %d bytes (error %r)' % (fmt.decode(), limit, r.err), case)
            obs = _fs_observe(s, d)
            for k in sorted(control):
                if obs[k] != control[k]:
                    part.violation('failed-save/%s/later-%s-differs' % (fmt.decode(), k.split('-')[0]),
                                   'after a SAVE ,%s cut short at %d bytes (error %r): %s is %r..., in a session without the failed SAVE %r...' % (
                                       fmt.decode(), limit, r.err, k, obs[k] if not isinstance(obs[k], bytes) else obs[k][:40],
                                       control[k] if not isinstance(control[k], bytes) else control[k][:40]), case)
                    break
            s.close()
    part.sample({'fmt': shard[0][0].decode(), 'limit': shard[0][1]})
    return part


def legs(ctx):
    limits = list(range(0, 12)) + [40, 100, 142, 143, 144, 150, 10000]
    fs = [(fmt, k) for fmt in FORMATS for k in (limits if not ctx.quick else limits[:6] + [100, 143, 10000])]
    return _legs_main(ctx) + [
        Leg('failed-save', list(chunked(fs, 9)), work_failed_save, exhaustive=True,
            bound='SAVE in format B/P/A to a stream that fails after k bytes, k in %s: program memory unchanged, and a later edit + SAVE in '
                  'all three formats + LOAD of the protected and the tokenised file give the same bytes as in a session without the '
                  'failed SAVE' % (sorted(set(k for _, k in fs)),))]


def _legs_main(ctx):
    out = []
    out.append(Leg('cipher-cells', [(lo, lo + 16) for lo in range(0, 256, 16)], work_cipher_cells,
                   exhaustive=True,
                   bound='256 strings of %d bytes: every (position mod 143, byte) cell over two periods + wrap'
                         % CELL_LEN))
    out.append(Leg('cipher-bijection', [0], work_cipher_bijection, exhaustive=True,
                   bound='protect is injective on the 256 byte values at each of %d positions' % CELL_LEN))
    out.append(Leg('cipher-small', [0], work_cipher_small, exhaustive=True,
                   bound='all strings of length 0..3 over {00,1A,FF,41}; lengths 142,143,144,286,287 x 4 fills'))
    fam = edge_programs() + grammar_programs(['n3'] if ctx.quick else ['n4', 'z4', 'd4', 'n3', 'n5'])
    out.append(Leg('roundtrip', list(chunked(fam, 6)), work_roundtrip, exhaustive=True,
                   bound='%d programs (%d grammar, %d edge, %d tokenised-only, %d corpus) x {B,P,A} x '
                         '{disk, internal stream, cassette}; ASCII also via MERGE' % (
                             len(fam), sum(1 for p in fam if p[0] == 'grammar'),
                             sum(1 for p in fam if p[0] == 'edge'),
                             sum(1 for p in fam if p[0] == 'tokenised'),
                             sum(1 for p in fam if p[0] == 'corpus'))))
    cf = convert_family(ctx.quick)
    out.append(Leg('convert', list(chunked(cf, 1)), work_convert, exhaustive=True,
                   bound='%d programs x 3 input formats x 3 --convert modes vs LOAD+SAVE in a Session' % len(cf)))
    return out


def replay(ctx, leg, case):
    part = Partial()
    if leg == 'failed-save':
        return work_failed_save([(case['fmt'].encode(), case['limit'])])
    if leg.startswith('cipher'):
        if 'plain' in case:
            _cipher_string(part, case['plain'], 'replay')
            return part
        if leg == 'cipher-bijection':
            return work_cipher_bijection(0)
        return work_cipher_small(0)
    fam = edge_programs() + grammar_programs(['n4', 'z4', 'd4', 'n3', 'n5'])
    sel = [p for p in fam if p[0] == case['group'] and p[1] == case['name']]
    if not sel:
        raise CheckError('unknown program %r' % (case,))
    with H.Scratch() as root:
        bench = Bench(root)
        if leg == 'convert':
            convert_program(part, bench, *sel[0])
        else:
            fm = [case['fmt'].encode()] if 'fmt' in case else FORMATS
            dv = [case['dev']] if 'dev' in case else DEVICES
            roundtrip_program(part, bench, *sel[0], formats=fm if dv != ['cassette'] else FORMATS, devices=dv)
    return part
