"""
C40 - a suspended session resumes exactly where it stopped; altered state files are rejected.

E4 (crash-point enumeration):
  boundaries : for every program of a bounded family (all ordered pairs / singles of code
               fragments covering jumps, loops, GOSUBs, error traps, DATA, DEF FN, strings,
               arrays, sequential and random files) and EVERY statement boundary k of its run,
               a QUIT is delivered at poll k (the way an interface closes a session), the
               session is suspended to a state file, resumed in a new Session object and run to
               the end; output, screen, variables and file contents must equal the
               uninterrupted run.
  alter      : for small state files, every offset x every other byte value (thorough) /
               x 3 xor masks (quick): load_session must reject the file.
"""
import io
import os
import shutil
import itertools

from mc.core import Leg, Partial, CheckError, chunked, from_pcbasic
from mc import harness as H

from pcbasic.basic.base import signals
from pcbasic.basic import state as pcstate

PROPERTY = 'C40'
ENGINE = 'E4 crash'
LEVEL = 'model_checking'
LEVEL_TEXT = (
    'Exhaustive crash-point enumeration on the real Session: every statement boundary of every program of a '
    'bounded fragment-composition family is used as the suspend point (QUIT at that poll, suspend to file, '
    'resume, run on) and compared with the uninterrupted run on output, screen, variables and file bytes; '
    'plus every single-byte alteration of small state files must be rejected by load_session.')
LEVEL_NOTE = ('The suspend point is delivered through the scripted input queue exactly as an interface QUIT; '
              'programs contain no waiting statements, so every poll is a statement boundary. Timing-dependent '
              'state (clock, sound queue) is not exercised.')
TECHNIQUE = ('exhaustive crash-point enumeration: suspend/resume at every statement boundary of every program of a '
             'bounded family vs. the uninterrupted run; exhaustive single-byte alteration of state files')
RULE = ('programs: all singles and ordered pairs of code fragments; crash points: every poll of the reference run; '
        'class = (kind of statement executed just before the boundary); alteration: every offset x byte value')
ASSUMPTIONS = [
    'internal seam: impl.queues.inputs (scripted QUIT), Session._impl for output pipes',
    'the resumed run is driven by Session.interact(), as pcbasic.main does after --resume',
]

HEADER = [
    b'1 OPEN "SEQ.TXT" FOR OUTPUT AS 1',
    b'2 OPEN "RND.DAT" FOR RANDOM AS 2 LEN=8',
    b'3 FIELD #2, 4 AS F$, 4 AS G$',
    b'4 ON ERROR GOTO 9000',
    b'5 R%=0',
]
FOOTER = [
    b'8000 PRINT "end";:PRINT#1,"end"',
    b'8010 CLOSE',
    b'8020 OPEN "SEQ.TXT" FOR INPUT AS 1:LINE INPUT#1,L$:PRINT L$;:CLOSE 1',
    b'8030 SYSTEM',
    b'9000 PRINT "E";ERR;:E%=E%+1:IF E%>5 THEN SYSTEM',
    b'9010 RESUME NEXT',
]

# fragments: (name, lines with {b} = base line number placeholder b0..b9)
FRAGMENTS = {
    'for': [b'{0} FOR I=1 TO 3:PRINT I;:NEXT', b'{1} FOR J%=3 TO 1 STEP -1', b'{2} PRINT#1,J%', b'{3} NEXT J%'],
    'while': [b'{0} W=0', b'{1} WHILE W<3:W=W+1:PRINT "w";W;', b'{2} WEND'],
    'goto': [b'{0} C=0', b'{1} C=C+1:PRINT "g";:IF C<3 THEN GOTO {1}', b'{2} GOTO {4}', b'{3} PRINT "skipped"',
             b'{4} PRINT "t";'],
    'gosub': [b'{0} GOSUB {5}:PRINT "r1";:GOSUB {7}:PRINT "r2";', b'{1} GOTO {9}', b'{5} PRINT "s1";:GOSUB {7}',
              b'{6} RETURN', b'{7} PRINT "s2";:RETURN', b'{9} PRINT "g.";'],
    'ifelse': [b'{0} X=1:IF X=1 THEN PRINT "a";:PRINT "b"; ELSE PRINT "c";', b'{1} IF X=2 THEN {3} ELSE {2}',
               b'{2} PRINT "e";:IF X=1 THEN {4}', b'{3} PRINT "never";', b'{4} PRINT "f";'],
    'on': [b'{0} FOR N=0 TO 3:ON N GOSUB {5},{6}:PRINT "o";N;:NEXT', b'{1} ON 2 GOTO {2},{3}', b'{2} PRINT "no";',
           b'{3} GOTO {9}', b'{5} PRINT "p1";:RETURN', b'{6} PRINT "p2";:RETURN', b'{9} PRINT "o.";'],
    'error': [b'{0} PRINT "x";:ERROR 5:PRINT "y";', b'{1} A%=1:B%=A%/0:PRINT "z";', b'{2} Q=1/0:PRINT "soft";'],
    'strings': [b'{0} S$="":FOR K=1 TO 4:S$=S$+CHR$(64+K):T$=S$+S$:NEXT', b'{1} MID$(S$,2)="zz":PRINT S$;T$;',
                b'{2} PRINT#1,S$;",";T$'],
    'arrays': [b'{0} DIM AR(3),BS$(2)', b'{1} FOR K=0 TO 3:AR(K)=K*K:NEXT:BS$(1)="q"+STR$(AR(3))',
               b'{2} PRINT AR(2);BS$(1);', b'{3} ERASE AR:DIM AR(1):AR(1)=7'],
    'files': [b'{0} LSET F$="ab":RSET G$="cd":PUT#2,1', b'{1} LSET F$=MKS$(1.5):PUT#2,3', b'{2} GET#2,1:PRINT F$;G$;',
              b'{3} PRINT#1,"line";LOC(2);LOF(2)'],
    'data': [b'{0} RESTORE {5}:READ D1,D2$:PRINT D1;D2$;', b'{1} READ D3:PRINT D3;:RESTORE {6}:READ D4$:PRINT D4$;',
             b'{5} DATA 11,"x,y"', b'{6} DATA 22,zz'],
    # text access to the record buffer of a random file (INPUT# reads ahead one character)
    'rndtext': [b'{0} OPEN "RT.DAT" FOR RANDOM AS 3 LEN=32', b'{1} PRINT#3,12;34;"ab,cd":PUT#3,1',
                b'{2} GET#3,1:INPUT#3,U:INPUT#3,V:INPUT#3,U$:PRINT U;V;U$;',
                b'{3} GET#3,1:INPUT#3,U:PRINT#3,"Q";:PUT#3,2:GET#3,2:LINE INPUT#3,V$:PRINT V$;:CLOSE 3'],
    'append': [b'{0} PRINT#1,"pre":CLOSE 1:OPEN "SEQ.TXT" FOR APPEND AS 1', b'{1} PRINT#1,"app1"', b'{2} PRINT#1,"app2";LOF(1)'],
    # a file opened for APPEND while it is still empty (position 0 when the session is suspended)
    'appendnew': [b'{0} OPEN "NEW.TXT" FOR APPEND AS 3', b'{1} W=LOF(3)', b'{2} PRINT#3,"first";W', b'{3} PRINT#3,"second":CLOSE 3'],
    'deffn': [b'{0} DEF FNA(X)=X*2+Y', b'{1} Y=5:PRINT FNA(3);:Y=FNA(Y):PRINT Y;'],
}
FRAG_NAMES = sorted(FRAGMENTS)

VARS = ['A%', 'B%', 'C!', 'D1!', 'D2$', 'D3!', 'D4$', 'E%', 'I!', 'J%', 'K!', 'L$', 'N!', 'Q!', 'R%', 'S$', 'T$',
        'W!', 'X!', 'Y!', 'F$', 'G$', 'U!', 'V!', 'U$', 'V$']


def build(frags):
    lines = list(HEADER)
    base = 100
    for name in frags:
        for l in FRAGMENTS[name]:
            src = l
            for d in range(10):
                src = src.replace(b'{%d}' % d, b'%d' % (base + d * 10))
            lines.append(src)
        base += 100
    lines.extend(FOOTER)
    return lines


def _mk(mount, lines, sched=None):
    s = H.new_session(schedule=sched, horizon=3000, at_horizon='raise',
                      devices={'C:': mount}, current_device='C:')
    for l in lines:
        r = H.run(s, l)
        if r.exc is not None or r.err is not None:
            raise CheckError('cannot enter %r: %r' % (l, r))
    return s


def _final_state(s, mount):
    chars = b'\n'.join(b''.join(row) for row in s.get_chars())
    vs = {}
    for v in VARS:
        vs[v] = s.get_variable(v)
    try:
        arr = s.get_variable('AR!()')
    except Exception as e:   # array may not exist
        arr = 'none'
    s.close()
    files = {}
    for fn in sorted(os.listdir(mount)):
        with open(os.path.join(mount, fn), 'rb') as f:
            files[fn] = f.read()
    return {'screen': chars, 'vars': vs, 'array': arr, 'files': files}


def reference(lines, base):
    mount = os.path.join(base, 'ref')
    os.makedirs(mount)
    s = _mk(mount, lines)
    trace = []
    s.verif_inputs.trace = trace
    r = H.run(s, b'RUN')
    if r.exc is not None:
        raise r.exc
    if not r.exit:
        raise CheckError('reference run did not reach SYSTEM: %r' % (r,))
    npolls = s.verif_inputs.polls
    st = _final_state(s, mount)
    st['out'] = r.out
    shutil.rmtree(mount)
    return st, npolls


def crash_run(lines, base, k):
    """QUIT at poll k of RUN; suspend; resume; run to the end."""
    mount = os.path.join(base, 'm%d' % k)
    os.makedirs(mount)
    try:
        s = _mk(mount, lines)
        s.verif_inputs.schedule = {k: [signals.Event(signals.QUIT)]}
        r = H.run(s, b'RUN')
        if r.exc is not None:
            return None, ('host-exception-before-suspend', repr(r.exc))
        if not r.exit:
            raise CheckError('QUIT at poll %d did not stop the session: %r' % (k, r))
        # what statement ran last? (for the case class only)
        statefile = os.path.join(base, 'state%d' % k)
        s.suspend(statefile)
        # as pcbasic.main does: the session is closed (files flushed and closed) after suspending
        s.close()
        s2 = H.Session.resume(statefile)
        os.unlink(statefile)
        s2.start()
        inp = H.ScriptedInputs(None, 3000, 'raise')
        s2._impl.queues.inputs = inp
        out = io.BytesIO()
        s2.add_pipes(output_streams=out)
        ended = 'exit'
        try:
            s2.interact()
        except H.Horizon:
            ended = 'horizon'
        except BaseException as e:
            from pcbasic.basic.base import error
            if isinstance(e, error.Exit):
                ended = 'exit'
            elif isinstance(e, Exception) and from_pcbasic(e):
                return None, ('host-exception-after-resume', repr(e))
            else:
                raise
        st = _final_state(s2, mount)
        st['out'] = r.out + out.getvalue()
        st['ended'] = ended
        return st, None
    finally:
        shutil.rmtree(mount, ignore_errors=True)


def _boundary_kind(lines, ref_out):
    return 'x'


def work_boundaries(shard):
    part = Partial()
    for frags in shard:
        lines = build(frags)
        with H.Scratch() as base:
            ref, npolls = reference(lines, base)
            part.sample({'program': lines, 'boundaries': npolls - 1})
            # poll 0 is RUN's own poll (direct mode); polls 1..npolls-1 are statement boundaries
            for k in range(1, npolls):
                st, problem = crash_run(lines, base, k)
                part.n += 1
                part.traces += 1
                case = {'fragments': list(frags), 'boundary': k}
                if problem:
                    part.violation('resume/%s' % problem[0], '%r boundary %d: %s' % (frags, k, problem[1]), case)
                    continue
                diffs = [f for f in ('out', 'screen', 'vars', 'array', 'files') if st[f] != ref[f]]
                part.classes.add('%s/%s' % ('+'.join(frags), 'ok' if not diffs else 'diff'))
                part.outcome('ok' if not diffs else 'diff')
                if st['ended'] != 'exit':
                    diffs.append('did-not-end')
                if diffs:
                    part.violation(
                        'resume/diverges/%s' % '+'.join(sorted(set(d if d != 'screen' else 'out' for d in diffs))),
                        'program %r suspended at boundary %d of %d: differs in %s; out=%r expected %r' % (
                            frags, k, npolls - 1, diffs, st['out'][-80:], ref['out'][-80:]),
                        case)
    return part


# ---------------------------------------------------------------------------------------
# suspension while a statement waits for keyboard input (beyond the statement's "statement boundary":
# the session then resumes by re-executing the waiting statement)

BLOCKED_PROGRAMS = {
    'input-first': [b'10 INPUT A', b'20 B=A*2:OPEN "O.TXT" FOR OUTPUT AS 1:PRINT#1,A;B:CLOSE', b'30 SYSTEM'],
    'input-after-colon': [b'10 C=3:INPUT A', b'20 B=A*2+C:OPEN "O.TXT" FOR OUTPUT AS 1:PRINT#1,A;B:CLOSE', b'30 SYSTEM'],
    'lineinput-first': [b'10 LINE INPUT L$', b'20 T$=L$+"!":OPEN "O.TXT" FOR OUTPUT AS 1:PRINT#1,T$:CLOSE', b'30 SYSTEM'],
    'lineinput-later': [b'10 C=4', b'20 LINE INPUT L$', b'30 T$=L$+"!":OPEN "O.TXT" FOR OUTPUT AS 1:PRINT#1,T$;C:CLOSE',
                        b'40 SYSTEM'],
}
KEYS = [H.key_event(c) for c in u'57\r']


def _blocked_run(lines, base, tag, suspend):
    mount = os.path.join(base, tag)
    os.makedirs(mount)
    try:
        s = _mk(mount, lines)
        inp = s.verif_inputs
        if not suspend:
            inp.schedule = {12: list(KEYS)}
            r = H.run(s, b'RUN')
            if not r.exit:
                raise CheckError('blocked-input reference did not reach SYSTEM: %r' % (r,))
            return _final_state(s, mount)
        # the input stream closes while the statement waits: the session exits and is suspended
        inp.horizon, inp.at_horizon = 12, 'close'
        r = H.run(s, b'RUN', reset_polls=True)
        if r.exc is not None or not r.exit:
            raise CheckError('closing the input did not stop the waiting session: %r' % (r,))
        statefile = os.path.join(base, 'state_' + tag)
        s.suspend(statefile)
        s.close()
        s2 = H.Session.resume(statefile)
        os.unlink(statefile)
        s2.start()
        s2._impl.queues.inputs = H.ScriptedInputs({3: list(KEYS)}, 3000, 'raise')
        try:
            s2.interact()
        except H.Horizon:
            st = _final_state(s2, mount)
            st['ended'] = 'horizon'
            return st
        except BaseException as e:
            from pcbasic.basic.base import error
            if not isinstance(e, error.Exit):
                if isinstance(e, Exception) and from_pcbasic(e):
                    return {'host-exception': repr(e)}
                raise
        return _final_state(s2, mount)
    finally:
        shutil.rmtree(mount, ignore_errors=True)


def work_blocked(shard):
    part = Partial()
    for name in shard:
        lines = BLOCKED_PROGRAMS[name]
        with H.Scratch() as base:
            ref = _blocked_run(lines, base, 'ref', False)
            got = _blocked_run(lines, base, 'sus', True)
            part.n += 1
            part.traces += 2
            case = {'blocked': name}
            part.classes.add('blocked/' + name)
            if 'host-exception' in got:
                part.violation('resume-blocked/host-exception/%s' % name, got['host-exception'], case)
                continue
            diffs = [f for f in ('vars', 'files') if got[f] != ref[f]]
            if got.get('ended') == 'horizon':
                diffs.append('did-not-end')
            if diffs:
                part.violation(
                    'resume-blocked/diverges/%s' % name,
                    'program %r suspended while waiting for input, resumed and given the keys: differs in %s; '
                    'files %r expected %r' % (lines, diffs, got['files'], ref['files']), case)
    part.sample({'blocked_program': [l.decode() for l in BLOCKED_PROGRAMS[shard[0]]]})
    return part


# ---------------------------------------------------------------------------------------
# suspension around STOP / CONT: the program stops itself, the user types CONT

STOP_PROGRAMS = {
    'then-stop': [b'10 OPEN "OUT.TXT" FOR OUTPUT AS 1', b'20 FOR I%=1 TO 4', b'30 N%=N%+I%:PRINT#1,"item";I%',
                  b'40 IF I%=2 THEN STOP', b'50 GOSUB 100', b'60 NEXT', b'70 PRINT#1,"done";N%;M%:CLOSE:SYSTEM',
                  b'100 M%=M%+1:RETURN'],
    'stop-statement': [b'10 OPEN "OUT.TXT" FOR OUTPUT AS 1:A%=1', b'20 STOP', b'30 A%=A%+1:PRINT#1,"after";A%', b'40 STOP:A%=A%+10',
                       b'50 PRINT#1,"end";A%:CLOSE:SYSTEM'],
    'stop-in-handler': [b'10 OPEN "OUT.TXT" FOR OUTPUT AS 1:ON ERROR GOTO 100', b'20 ERROR 5', b'30 PRINT#1,"resumed";E%:CLOSE:SYSTEM',
                        b'100 E%=ERR', b'110 STOP', b'120 RESUME NEXT'],
}
CONT_KEYS = [H.key_event(c) for c in u'CONT\r']


def _stop_final(s, mount):
    vs = {v: s.get_variable(v) for v in ('A%', 'N%', 'M%', 'I%', 'E%')}
    s.close()
    files = {}
    for fn in sorted(os.listdir(mount)):
        with open(os.path.join(mount, fn), 'rb') as f:
            files[fn] = f.read()
    return {'vars': vs, 'files': files}


def _stop_reference(lines, base):
    """RUN, CONT after every Break, until SYSTEM.  -> (final state, [polls of each command])"""
    mount = os.path.join(base, 'ref')
    os.makedirs(mount)
    s = _mk(mount, lines)
    polls = []
    cmd = b'RUN'
    for _ in range(6):
        r = H.run(s, cmd, reset_polls=True)
        if r.exc is not None:
            raise r.exc
        polls.append(s.verif_inputs.polls)
        if r.exit:
            st = _stop_final(s, mount)
            shutil.rmtree(mount)
            return st, polls
        if b'Break' not in r.out:
            raise CheckError('reference stopped without Break: %r' % (r,))
        cmd = b'CONT'
    raise CheckError('reference did not reach SYSTEM')


def _stop_crash(lines, base, phase, k):
    """CONT through the first `phase` Breaks, QUIT at poll k of the next command, suspend, resume; the keys CONT<Enter> are
    typed as often as there are Breaks left."""
    mount = os.path.join(base, 'm%d_%d' % (phase, k))
    os.makedirs(mount)
    try:
        s = _mk(mount, lines)
        cmd = b'RUN'
        for _ in range(phase):
            r = H.run(s, cmd, reset_polls=True)
            if r.exc is not None or r.exit:
                raise CheckError('phase %d not reached: %r' % (phase, r))
            cmd = b'CONT'
        s.verif_inputs.schedule = {k: [signals.Event(signals.QUIT)]}
        r = H.run(s, cmd, reset_polls=True)
        if r.exc is not None:
            return None, ('host-exception-before-suspend', repr(r.exc))
        if not r.exit:
            raise CheckError('QUIT at poll %d did not stop the session: %r' % (k, r))
        statefile = os.path.join(base, 'state%d_%d' % (phase, k))
        s.suspend(statefile)
        s.close()
        s2 = H.Session.resume(statefile)
        os.unlink(statefile)
        s2.start()
        # the user types CONT whenever the program has stopped (keys wait in the buffer until the prompt reads them)
        sched = {40 + 60 * i: list(CONT_KEYS) for i in range(4)}
        s2._impl.queues.inputs = H.ScriptedInputs(sched, 3000, 'raise')
        out = io.BytesIO()
        s2.add_pipes(output_streams=out)
        ended = 'exit'
        try:
            s2.interact()
        except H.Horizon:
            ended = 'horizon'
        except BaseException as e:
            from pcbasic.basic.base import error
            if isinstance(e, error.Exit):
                ended = 'exit'
            elif isinstance(e, Exception) and from_pcbasic(e):
                return None, ('host-exception-after-resume', repr(e))
            else:
                raise
        st = _stop_final(s2, mount)
        st['ended'] = ended
        # how often the program stopped (with Break in ...) after the resume
        st['breaks'] = out.getvalue().count(b'Break in')
        return st, None
    finally:
        shutil.rmtree(mount, ignore_errors=True)


def work_stopcont(shard):
    part = Partial()
    for name in shard:
        lines = STOP_PROGRAMS[name]
        with H.Scratch() as base:
            ref, polls = _stop_reference(lines, base)
            for phase, np_ in enumerate(polls):
                for k in range(1, np_):
                    st, problem = _stop_crash(lines, base, phase, k)
                    part.n += 1
                    part.traces += 1
                    case = {'stop_program': name, 'phase': phase, 'boundary': k}
                    if problem:
                        part.violation('resume-stop/%s' % problem[0], '%s phase %d boundary %d: %s' % (name, phase, k, problem[1]), case)
                        continue
                    diffs = [f for f in ('vars', 'files') if st[f] != ref[f]]
                    if st['ended'] != 'exit':
                        diffs.append('did-not-end')
                    if st['breaks'] != len(polls) - 1 - phase:
                        diffs.append('stopped-%d-times-instead-of-%d' % (st['breaks'], len(polls) - 1 - phase))
                    part.classes.add('stop-cont/%s/phase%d/%s' % (name, phase, 'ok' if not diffs else 'diff'))
                    if diffs:
                        part.violation('resume-stop/diverges/%s' % name,
                                       'program %s suspended at boundary %d after %d CONTs, resumed, CONT typed at every Break: differs in %s; '
                                       'files %r expected %r; variables %r expected %r' % (
                                           name, k, phase, diffs, st['files'], ref['files'], st['vars'], ref['vars']), case)
    part.sample({'stop_program': shard[0]})
    return part


# ---------------------------------------------------------------------------------------
# the whole dialogue driven by Session.interact(): the commands are typed ahead (they wait in the keyboard
# buffer, which is part of the suspended state), the suspension hits every boundary of the dialogue - also
# those where the interpreter executes the typed direct line and still owes the closing prompt

INTERACTIVE_PROGRAMS = {
    'end': [b'10 A%=1:PRINT "one"', b'20 FOR I%=1 TO 2:PRINT I%;:NEXT', b'30 END'],
    'fall-off': [b'10 PRINT "x";', b'20 N%=N%+1'],
    'stop': [b'10 PRINT "s"', b'20 STOP', b'30 PRINT "t"'],
    'error': [b'10 PRINT "e"', b'20 ERROR 5'],
}
INTERACTIVE_TYPED = [(u'RUN', u'SYSTEM'), (u'GOTO 20', u'SYSTEM'), (u'RUN 20', u'SYSTEM'), (u'X=1:RUN', u'SYSTEM')]


class _ModeInputs(H.ScriptedInputs):
    """Scripted input queue that notes at every poll whether a program is running."""

    def get(self, block=False, timeout=None):
        try:
            return H.ScriptedInputs.get(self, block, timeout)
        except Exception:
            self.modes.append(bool(self.impl.interpreter.run_mode))
            raise


def _interact(s, sched):
    """Drive the session through interact() with a fresh scripted input queue -> (how it ended, exception or None)."""
    inp = _ModeInputs(sched, 600, 'raise')
    inp.modes = []
    inp.impl = s._impl
    s._impl.queues.inputs = inp
    try:
        s.interact()
    except H.Horizon:
        return 'horizon', None
    except BaseException as e:
        from pcbasic.basic.base import error
        if isinstance(e, error.Exit):
            return 'exit', None
        if isinstance(e, Exception) and from_pcbasic(e):
            return 'host-exception', e
        raise
    return 'returned', None


def _interactive_final(s, mount):
    chars = b'\n'.join(b''.join(row).rstrip() for row in s.get_chars())
    vs = {v: s.get_variable(v) for v in ('A%', 'I%', 'N%')}
    modes = list(s._impl.queues.inputs.modes)
    s.close()
    return {'screen': chars, 'vars': vs}, modes


def _interactive_run(lines, typed, base, k):
    """The dialogue with a QUIT at poll k (None: uninterrupted) -> (final state, polls) or (None, problem)."""
    mount = os.path.join(base, 'i%s' % k)
    os.makedirs(mount)
    try:
        s = _mk(mount, lines)
        keys = [H.key_event(c) for cmd in typed for c in cmd + u'\r']
        if len(keys) > 15:
            raise CheckError('more keys typed ahead than the keyboard buffer holds')
        sched = {0: keys}
        if k is not None:
            sched.setdefault(k, []).append(signals.Event(signals.QUIT))
        ended, exc = _interact(s, sched)
        if ended == 'host-exception':
            return None, ('host-exception-before-suspend', repr(exc))
        if k is None:
            if ended != 'exit':
                raise CheckError('interactive reference ended with %s' % ended)
            return _interactive_final(s, mount), None
        if ended != 'exit':
            raise CheckError('QUIT at poll %d did not stop the dialogue: %s' % (k, ended))
        statefile = os.path.join(base, 'istate%d' % k)
        s.suspend(statefile)
        s.close()
        s2 = H.Session.resume(statefile)
        os.unlink(statefile)
        s2.start()
        ended, exc = _interact(s2, {})
        if ended == 'host-exception':
            return None, ('host-exception-after-resume', repr(exc))
        st, _polls = _interactive_final(s2, mount)
        st['ended'] = ended
        return (st, None), None
    finally:
        shutil.rmtree(mount, ignore_errors=True)


def work_interactive(shard):
    part = Partial()
    for name, typed in shard:
        lines = INTERACTIVE_PROGRAMS[name]
        typed = tuple(typed)
        with H.Scratch() as base:
            (ref, modes), _p = _interactive_run(lines, typed, base, None)
            npolls = len(modes)
            # statement boundaries of the running program: polls at which the program runs, and the one right after
            # its last statement (polls at the idle prompt and inside the typed direct line are not in the statement)
            for k in range(1, npolls):
                if not (modes[k] or modes[k - 1]):
                    part.outcome('poll-outside-the-running-program')
                    continue
                res, problem = _interactive_run(lines, typed, base, k)
                part.n += 1
                part.traces += 1
                case = {'interactive_program': name, 'typed': list(typed), 'boundary': k}
                if problem:
                    part.violation('resume-interactive/%s' % problem[0], '%s %r boundary %d: %s' % (name, typed, k, problem[1]), case)
                    continue
                st = res[0]
                diffs = [f for f in ('screen', 'vars') if st[f] != ref[f]]
                if st['ended'] != 'exit':
                    diffs.append('did-not-end')
                part.classes.add('interactive/%s/%s/%s' % (name, typed[0].split()[0], 'ok' if not diffs else 'diff'))
                if diffs:
                    part.violation('resume-interactive/diverges/%s' % '+'.join(diffs),
                                   'program %s, typed %r, suspended at poll %d of %d and resumed: differs in %s; screen %r, '
                                   'uninterrupted %r; variables %r, uninterrupted %r' % (
                                       name, typed, k, npolls - 1, diffs, st['screen'].strip(b'\n'), ref['screen'].strip(b'\n'),
                                       st['vars'], ref['vars']), case)
    part.sample({'interactive_program': shard[0][0], 'typed': list(shard[0][1])})
    return part


# ---------------------------------------------------------------------------------------
# the program suspends itself: a SYSTEM statement in the middle of the program ends the session inside that
# statement; the resumed session goes on with the statement after it, wherever the SYSTEM stands in its line

SYSTEM_LINES = {
    'own-line': b'30 @',
    'after-colon': b'30 A%=A%+1:@:N$=N$+"c"',
    'then-more': b'30 IF I%=2 THEN @:N$=N$+"c"',
    'then-last': b'30 IF I%=2 THEN @',
    'else-more': b'30 IF I%=1 THEN N$=N$+"t" ELSE @:N$=N$+"c"',
    'then-else': b'30 IF I%=2 THEN @ ELSE N$=N$+"e"',
    'then-blanks': b'30 IF I%=2 THEN  @  :N$=N$+"c"',
    'last-in-line': b'30 N$=N$+"b":@',
}


def _system_program(name, marker):
    return [b'10 OPEN "O.TXT" FOR OUTPUT AS 1', b'20 FOR I%=1 TO 3', SYSTEM_LINES[name].replace(b'@', marker),
            b'40 N$=N$+"x":PRINT#1,I%;N$', b'50 NEXT', b'60 CLOSE:D%=1:SYSTEM']


def _system_state(s, mount):
    vs = {v: s.get_variable(v) for v in ('N$', 'I%', 'A%', 'D%', 'Z%')}
    s.close()
    files = {}
    for fn in sorted(os.listdir(mount)):
        with open(os.path.join(mount, fn), 'rb') as f:
            files[fn] = f.read()
    return {'vars': vs, 'files': files}


def work_system(shard):
    part = Partial()
    for name in shard:
        case = {'system_line': name}
        with H.Scratch() as base:
            # reference: a counter in place of SYSTEM
            mref = os.path.join(base, 'ref')
            os.makedirs(mref)
            s = _mk(mref, _system_program(name, b'Z%=Z%+1'))
            r = H.run(s, b'RUN')
            if r.exc is not None or not r.exit:
                raise CheckError('reference for %s did not reach SYSTEM: %r' % (name, r))
            ref = _system_state(s, mref)
            stops = ref['vars'].pop('Z%')
            mount = os.path.join(base, 'm')
            os.makedirs(mount)
            s = _mk(mount, _system_program(name, b'SYSTEM'))
            r = H.run(s, b'RUN')
            problem = None
            nstop = 0
            while problem is None:
                if r is not None and r.exc is not None:
                    problem = ('host-exception-before-suspend', repr(r.exc))
                    break
                if s.get_variable('D%') == 1:
                    break
                nstop += 1
                if nstop > stops + 2:
                    problem = ('does-not-finish', 'suspended %d times, the SYSTEM statement is reached %d times' % (nstop, stops))
                    break
                statefile = os.path.join(base, 'sysstate%d' % nstop)
                s.suspend(statefile)
                s.close()
                s = H.Session.resume(statefile)
                os.unlink(statefile)
                s.start()
                ended, exc = _interact(s, {})
                r = None
                if ended == 'host-exception':
                    problem = ('host-exception-after-resume', repr(exc))
                elif ended != 'exit':
                    problem = ('resumed-session-does-not-reach-the-next-SYSTEM', ended)
            part.n += 1
            part.traces += 1 + nstop
            if problem:
                part.violation('resume-system/%s' % problem[0], 'line %r: %s' % (SYSTEM_LINES[name], problem[1]), case)
                try:
                    s.close()
                except Exception:
                    pass
                continue
            st = _system_state(s, mount)
            st['vars'].pop('Z%')
            diffs = [f for f in ('vars', 'files') if st[f] != ref[f]]
            if nstop != stops:
                diffs.append('suspended-%d-times-instead-of-%d' % (nstop, stops))
            part.classes.add('system/%s/%s' % (name, 'ok' if not diffs else 'diff'))
            if diffs:
                part.violation('resume-system/diverges/%s' % name,
                               'program with line %r suspended by its own SYSTEM and resumed each time: differs in %s from the same program '
                               'with a counter in place of SYSTEM; variables %r expected %r; file %r expected %r' % (
                                   SYSTEM_LINES[name], diffs, st['vars'], ref['vars'], st['files'].get('O.TXT'), ref['files'].get('O.TXT')), case)
    part.sample({'system_line': shard[0]})
    return part


# ---------------------------------------------------------------------------------------
# byte alteration

def _make_state_files(base):
    files = []
    for i, lines in enumerate([
            [b'10 A=1'],
            [b'10 A$="hello":DIM B(2)', b'20 PRINT A$'],
            build(('goto',)),
    ]):
        mount = os.path.join(base, 'am%d' % i)
        os.makedirs(mount)
        s = _mk(mount, lines)
        if i == 2:
            s.verif_inputs.schedule = {9: [signals.Event(signals.QUIT)]}
            H.run(s, b'RUN')
        f = os.path.join(base, 'alt%d.state' % i)
        s.suspend(f)
        s.close()
        files.append(f)
    return files


def work_alter(shard):
    which, lo, hi, masks = shard
    part = Partial()
    with H.Scratch() as base:
        f = _make_state_files(base)[which]
        with open(f, 'rb') as fh:
            good = fh.read()
        # sanity: the unaltered file loads
        pcstate.load_session(f).close()
        tmp = os.path.join(base, 'x.state')
        hi = min(hi, len(good))
        for off in range(lo, hi):
            orig = good[off]
            vals = [orig ^ m for m in masks] if masks else [v for v in range(256) if v != orig]
            for v in vals:
                data = good[:off] + bytes([v]) + good[off + 1:]
                with open(tmp, 'wb') as fh:
                    fh.write(data)
                part.n += 1
                region = 'checksum' if off < 4 else 'format_version' if off < 8 else \
                    'python_version' if off < 16 else 'pcbasic_version' if off < 24 else 'blob'
                part.classes.add('alter/' + region)
                try:
                    sess = pcstate.load_session(tmp)
                except Exception as e:
                    part.outcome('rejected:' + type(e).__name__)
                    continue
                part.outcome('ACCEPTED')
                part.violation('alter/accepted/%s' % region,
                               'state file %d with byte %d changed %#x -> %#x was loaded' % (which, off, orig, v),
                               {'which': which, 'offset': off, 'value': v})
                try:
                    sess.close()
                except Exception:
                    pass
        part.add('file_%d_len' % which, len(good) if lo == 0 else 0)
    part.sample({'state_file': which, 'offsets': [lo, hi], 'masks': masks})
    return part


def _state_len(which):
    with H.Scratch() as base:
        f = _make_state_files(base)[which]
        return os.path.getsize(f)


def legs(ctx):
    singles = [(n,) for n in FRAG_NAMES]
    pairs = [(a, b) for a in FRAG_NAMES for b in FRAG_NAMES if a != b]
    if ctx.quick:
        # every fragment alone + every fragment preceded by 'gosub' and followed by 'error'
        progs = singles + [('gosub', n) for n in FRAG_NAMES if n != 'gosub'] + \
            [(n, 'error') for n in FRAG_NAMES if n != 'error']
        bound = 'programs: %d (%d single fragments + pairs with gosub / error); every statement boundary' % (len(progs), len(singles))
    else:
        progs = singles + pairs + [('gosub', 'error', 'files'), ('on', 'strings', 'data'), ('for', 'while', 'goto')]
        bound = 'programs: %d (%d singles + all %d ordered pairs + 3 triples); every statement boundary' % (len(progs), len(singles), len(pairs))
    out = [Leg('boundaries', list(chunked(progs, 1)), work_boundaries, exhaustive=True, bound=bound)]
    out.append(Leg('blocked-input', [[n] for n in sorted(BLOCKED_PROGRAMS)], work_blocked, exhaustive=True,
                   bound='%d programs suspended while INPUT / LINE INPUT waits (first statement of the '
                         'program, after a colon, on a later line); keys supplied after the resume' % len(BLOCKED_PROGRAMS)))
    out.append(Leg('stop-cont', [[n] for n in sorted(STOP_PROGRAMS)], work_stopcont, exhaustive=True,
                   bound='%d programs that STOP (in a THEN clause inside a loop, as a statement, inside an error handler) and are '
                         'continued with CONT: suspended at every statement boundary before and after each Break; after the resume CONT is '
                         'typed at every Break; files and variables equal those of the uninterrupted run' % len(STOP_PROGRAMS)))
    shards = []
    for which in range(3):
        n = _state_len(which) + 64
        step = 256 if ctx.quick else 64
        masks = [0x01, 0x80, 0xff] if ctx.quick else None
        if not ctx.quick and which == 2:
            masks = [0x01, 0x80, 0xff, 0x10]     # the large file: 4 masks per offset
        for lo in range(0, n, step):
            shards.append((which, lo, lo + step, masks))
    out.append(Leg('system-stmt', [[n] for n in sorted(SYSTEM_LINES)], work_system, exhaustive=True,
                   bound='%d placements of a SYSTEM statement inside a loop (own line, after a colon, after THEN / ELSE with and without '
                         'further statements, with blanks, last in its line): the session is suspended inside the statement each time '
                         'it is reached and resumed; variables and file equal those of the program with a counter in its place' % len(SYSTEM_LINES)))
    inter = [[(n, t)] for n in sorted(INTERACTIVE_PROGRAMS) for t in INTERACTIVE_TYPED]
    out.append(Leg('interactive', inter, work_interactive, exhaustive=True,
                   bound='%d programs x %d typed dialogues (RUN / a direct GOTO into the program / RUN 20 / a statement before RUN, then SYSTEM) '
                         'driven by Session.interact() with the keys typed ahead: QUIT, suspend and resume at every poll at which the program '
                         'runs and at the one after its last statement; final screen (prompts included) and variables equal the uninterrupted dialogue' % (
                             len(INTERACTIVE_PROGRAMS), len(INTERACTIVE_TYPED))))
    out.append(Leg('alter', shards, work_alter, exhaustive=True,
                   bound='3 state files; every offset x %s' % ('3 xor masks' if ctx.quick else
                                                              'all 255 other byte values (2 small files) / 4 masks (large file)')))
    return out


def replay(ctx, leg, case):
    if leg == 'stop-cont':
        part = Partial()
        lines = STOP_PROGRAMS[case['stop_program']]
        with H.Scratch() as base:
            ref, polls = _stop_reference(lines, base)
            st, problem = _stop_crash(lines, base, case['phase'], case['boundary'])
            if problem:
                part.violation('resume-stop/%s' % problem[0], problem[1], case)
            elif any(st[f] != ref[f] for f in ('vars', 'files')) or st['ended'] != 'exit':
                part.violation('resume-stop/diverges/%s' % case['stop_program'], 'files %r expected %r; variables %r expected %r' % (
                    st['files'], ref['files'], st['vars'], ref['vars']), case)
        return part
    if leg == 'blocked-input':
        return work_blocked([case['blocked']])
    if leg == 'system-stmt':
        return work_system([case['system_line']])
    if leg == 'interactive':
        part = work_interactive([(case['interactive_program'], tuple(case['typed']))])
        part.viol = [v for v in part.viol if v[2].get('boundary') == case['boundary']]
        return part
    if leg == 'boundaries':
        part = Partial()
        frags = tuple(case['fragments'])
        lines = build(frags)
        with H.Scratch() as base:
            ref, npolls = reference(lines, base)
            k = case['boundary']
            st, problem = crash_run(lines, base, k)
            if problem:
                part.violation('resume/%s' % problem[0], problem[1], case)
            else:
                diffs = [f for f in ('out', 'screen', 'vars', 'array', 'files') if st[f] != ref[f]]
                if diffs:
                    part.violation('resume/diverges/' + '+'.join(diffs),
                                   'out=%r expected %r' % (st['out'], ref['out']), case)
        return part
    return work_alter((case['which'], case['offset'], case['offset'] + 1, None))
