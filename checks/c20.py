"""
C20 - user-defined functions never disturb the caller's variables.

E1 over a bounded grammar of DEF FN definitions x calls: every ordered list of up
to 3 (quick: 2) distinct parameters from {X, X%, X$, Y#} (all named like live
globals; X / X% / X$ share a base name), every body of a fixed body alphabet that
is well-typed for the list, every argument vector from per-type value alphabets
(values that convert, that overflow, that mismatch, zero for 1/P), called from a
program line and from direct mode, with and without ON ERROR.  Oracle: the printed
snapshot of all variables before the call == after the call == the constants the
program assigned (also through Session.get_variable), whether the call returned
or raised; the value returned == reference evaluation with the converted arguments;
self- and mutual recursion raise Out of memory.
"""
import re
from fractions import Fraction as Fr

from mc.core import Leg, Partial, CheckError, chunked
from mc import harness as H
from mc.progrun import no_sleep
from models.minibasic import fmt_num

PROPERTY = 'C20'
ENGINE = 'E1 domain (bounded program grammar)'
LEVEL = 'model_checking'
LEVEL_TEXT = (
    'All DEF FN definitions with 0..3 distinct parameters out of {X, X%, X$, Y#} in every order (0..2 in the '
    'quick tier; 4 with a reduced argument alphabet in the thorough tier), 9 body shapes (parameter, global, '
    'parameter+global, nested FNB(parameter), 1/parameter, sum over all same-named variables, self call, '
    'mutual recursion, integer-typed function), the full product of 3-6 argument values per parameter type '
    '(convertible, rounding, overflow, type mismatch, zero), 4 call modes (program / direct x with / without '
    'ON ERROR): all scalar variables are compared before and after the call, the value returned and the error '
    'raised are compared with a reference evaluation.')
LEVEL_NOTE = ('Trusted: PRINT of small numbers, Session.get_variable, NEW between programs (violations are '
              're-run on a fresh session).')
TECHNIQUE = ('bounded exhaustive enumeration of DEF FN programs on Session.execute against a snapshot-equality '
             'oracle and a reference evaluation of the body')
RULE = ('full product parameters x body x arguments x call mode; a case class is (parameter types, body, '
        'outcome kind, mode); trivial = a call that converts nothing and returns normally')
ASSUMPTIONS = [
    'observation through the public Session (program entry, RUN, direct lines, captured output, get_variable)',
    'when several arguments fail to convert (or conversion fails and the function is recursive) any of the '
    'applicable error codes is accepted; the order of argument evaluation is not specified',
    'float division by zero without ON ERROR is a soft error (message, machine infinity): only the variable '
    'snapshot is checked in that case, not the value returned',
    'an integer-typed function (FNA%) returning a value with fraction exactly .5 may round either way',
    'variables that did not exist before the call may exist afterwards with value 0 / "" (not observable)',
]

GLOBALS = [('X!', Fr(5)), ('X%', Fr(6)), ('X$', 'g'), ('X#', Fr(8)), ('Y!', Fr(4)), ('Y%', Fr(0)),
           ('Y$', ''), ('Y#', Fr(7)), ('G!', Fr(3)), ('G$', 'h'), ('P!', Fr(0)), ('Q!', Fr(0))]
GLOBAL_INIT = 'X=5:X%=6:X$="g":X#=8:Y=4:Y#=7:G=3:G$="h"'
SNAP_LINE = '800 PRINT "[";X;X%;X$;"/";X#;Y;Y%;Y$;"/";Y#;G;G$;"/";P;Q;"]";:RETURN'

PARAMS = ['X', 'X%', 'X$', 'Y#']
PTYPE = {'X': '!', 'X%': '%', 'X$': '$', 'Y#': '#', 'Y': '!', 'G': '!', 'Y%': '%', 'Y$': '$', 'G$': '$', 'X#': '#'}

# same-typed parameter lists whose arguments are the caller's variables named like the *other*
# parameters (the value an argument has must not depend on the binding of an earlier parameter)
ALIAS_LISTS = [('X', 'Y'), ('X%', 'Y%'), ('X$', 'Y$'), ('X#', 'Y#'), ('X', 'Y', 'G'), ('X$', 'Y$', 'G$')]
ALIAS_ARGS = {
    '!': [('X', Fr(5)), ('Y', Fr(4)), ('G', Fr(3)), ('Y+0', Fr(4)), ('X%', Fr(6))],
    '%': [('X%', Fr(6)), ('Y%', Fr(0)), ('1', Fr(1)), ('X', Fr(5))],
    '$': [('X$', 'g'), ('Y$', ''), ('G$', 'h'), ('"s"', 's')],
    '#': [('X#', Fr(8)), ('Y#', Fr(7)), ('Y#+0', Fr(7)), ('X', Fr(5))],
}

# argument alphabets: (text, converted value | ('err', code))
ARGS = {
    '!': [('1', Fr(1)), ('0', Fr(0)), ('2.5', Fr(5, 2)), ('70000', Fr(70000)), ('"s"', ('err', 13))],
    '%': [('1', Fr(1)), ('0', Fr(0)), ('2.6', Fr(3)), ('70000', ('err', 6)), ('1E10', ('err', 6)),
          ('"s"', ('err', 13))],
    '$': [('"s"', 's'), ('""', ''), ('1', ('err', 13)), ('G$+"t"', 'ht')],
    '#': [('1', Fr(1)), ('0', Fr(0)), ('2.5', Fr(5, 2)), ('"s"', ('err', 13))],
}
ARGS_SMALL = {
    '!': [('1', Fr(1)), ('"s"', ('err', 13))],
    '%': [('2.6', Fr(3)), ('70000', ('err', 6))],
    '$': [('"s"', 's'), ('1', ('err', 13))],
    '#': [('0', Fr(0)), ('2.5', Fr(5, 2))],
}

MODES = ['prog', 'prog-trap', 'direct', 'direct-trap']


def param_lists(maxlen, exact=None):
    out = [()]
    cur = [()]
    for _ in range(maxlen):
        cur = [c + (p,) for c in cur for p in PARAMS if p not in c]
        out.extend(cur)
    if exact is not None:
        out = [c for c in out if len(c) == exact]
    return out


def bodies(params):
    """-> list of (body name, fn sigil, body text, other definitions)."""
    out = []
    if not params:
        out.append(('glob', '', 'G', []))
        out.append(('sum', '', 'X+X%+Y#+LEN(X$)', []))
        out.append(('sum%', '%', 'X+X%+Y#+LEN(X$)', []))
        out.append(('self', '', 'FNA+1', []))
        out.append(('inv', '', '1/Q', []))
        return out
    p1 = params[0]
    t1 = PTYPE[p1]
    if t1 == '$':
        out.append(('p1', '$', p1, []))
        out.append(('p1+g', '$', p1 + '+G$', []))
        out.append(('self', '$', 'FNA$(' + ','.join(params) + ')', []))
    else:
        out.append(('p1', '', p1, []))
        out.append(('p1%', '%', p1, []))
        out.append(('p1+g', '', p1 + '+G', []))
        out.append(('fnb', '', 'FNB(' + p1 + ')', ['DEF FNB(P)=P*2']))
        out.append(('inv', '', '1/' + p1, []))
        out.append(('self', '', 'FNA(' + ','.join(params) + ')', []))
        out.append(('mutual', '', 'FNB(' + p1 + ')', ['DEF FNB(Q)=FNA(' + ','.join(
            ('Q' if i == 0 else ('"z"' if PTYPE[p] == '$' else '1')) for i, p in enumerate(params)) + ')']))
    out.append(('glob', '', 'G', []))
    out.append(('sum', '', 'X+X%+Y#+LEN(X$)', []))
    out.append(('sum%', '%', 'X+X%+Y#+LEN(X$)', []))
    return out


def arg_vectors(params, alphabets):
    out = [()]
    for p in params:
        out = [v + (a,) for v in out for a in alphabets[PTYPE[p]]]
    return out


###############################################################################
# reference evaluation

def reference(params, body, fnsig, args, trap):
    """-> ('errs', set) | ('value', Fraction | str | set of Fractions) | ('soft',)"""
    errs = set()
    env = dict(GLOBALS)
    for p, (text, conv) in zip(params, args):
        if isinstance(conv, tuple):
            errs.add(conv[1])
        else:
            env[p if p[-1] in '%$#' else p + '!'] = conv
    if body in ('self', 'mutual'):
        errs.add(7)
        return ('errs', errs)
    if errs:
        return ('errs', errs)
    p1 = None
    if params:
        p1 = env[params[0] if params[0][-1] in '%$#' else params[0] + '!']
    if body in ('p1', 'p1%'):
        v = p1
    elif body == 'glob':
        v = env['G!']
    elif body == 'p1+g':
        v = p1 + (env['G$'] if isinstance(p1, str) else env['G!'])
    elif body == 'fnb':
        v = p1 * 2
    elif body == 'inv':
        d = p1 if params else env['Q!']
        if d == 0:
            return ('errs', {11}) if trap else ('soft',)
        v = 1 / d
        if v.denominator & (v.denominator - 1):
            return ('soft',)        # not exactly representable: rounding is not this property's business
    elif body in ('sum', 'sum%'):
        v = env['X!'] + env['X%'] + env['Y#'] + len(env['X$'])
    elif body == 'all':
        vs = [env[p if p[-1] in '%$#' else p + '!'] for p in params]
        if isinstance(vs[0], str):
            v = '-'.join(vs)
        else:
            v = sum(x * 10 ** (len(vs) - 1 - i) for i, x in enumerate(vs))
    else:
        raise CheckError(body)
    if fnsig == '%':
        lo = v.numerator // v.denominator
        if v.denominator == 1:
            cands = {v}
        elif v - lo == Fr(1, 2):
            cands = {Fr(lo), Fr(lo + 1)}
        else:
            cands = {Fr(lo + 1) if v - lo > Fr(1, 2) else Fr(lo)}
        if any(not -32768 <= c <= 32767 for c in cands):
            return ('errs', {6})
        return ('value', cands)
    return ('value', v)


def snapshot_text():
    d = dict(GLOBALS)
    n = lambda k: fmt_num(d[k])
    return (n('X!') + n('X%') + d['X$'] + '/' + n('X#') + n('Y!') + n('Y%') + d['Y$'] + '/' + n('Y#')
            + n('G!') + d['G$'] + '/' + n('P!') + n('Q!'))


###############################################################################

class Box(object):
    def __init__(self):
        no_sleep()
        self.s = None
        self.count = 0

    def session(self, fresh=False):
        if self.s is None or fresh or self.count > 300:
            if self.s is not None:
                try:
                    self.s.close()
                except Exception:
                    pass
            self.s = H.new_session(horizon=3000)
            self.count = 0
        self.count += 1
        return self.s


def build(params, body, fnsig, other, args, mode):
    call = 'FNA%s' % fnsig + ('(' + ','.join(a[0] for a in args) + ')' if params else '')
    lines = ['10 ' + GLOBAL_INIT]
    lines += ['2%d %s' % (i, d) for i, d in enumerate(other)]
    lines.append('30 DEF FNA%s%s=%s' % (fnsig, '(' + ','.join(params) + ')' if params else '', body))
    if mode.endswith('trap'):
        lines.append('40 ON ERROR GOTO 900')
    if mode.startswith('prog'):
        lines.append('50 GOSUB 800')
        lines.append('60 PRINT "<";%s;">";' % call)
        lines.append('70 GOSUB 800')
    lines.append('80 END')
    lines.append(SNAP_LINE)
    lines.append('900 PRINT "E";ERR;:RESUME NEXT')
    direct = None
    if mode.startswith('direct'):
        direct = ['GOSUB 800', 'PRINT "<";%s;">";' % call, 'GOSUB 800']
    return [l.encode('ascii') for l in lines], direct


def execute(box, lines, direct, fresh=False):
    """-> dict(out, err, exc, extra)"""
    s = box.session(fresh)
    r = H.run(s, b'LOCATE 1,1:ON ERROR GOTO 0:NEW')
    if r.exc is not None or r.err is not None:
        s = box.session(True)
        r = H.run(s, b'LOCATE 1,1:ON ERROR GOTO 0:NEW')
        if r.exc is not None or r.err is not None:
            raise CheckError('NEW failed on a fresh session %r' % (r,))
    for l in lines:
        r = H.run(s, l)
        if r.exc is not None:
            return dict(exc=r.exc, out=b'', err=None)
        if r.out.strip():
            raise CheckError('line not accepted: %r -> %r' % (l, r.out))
    out = b''
    err = None
    r = H.run(s, b'RUN')
    out += r.out
    if r.exc is not None:
        box.s = None
        return dict(exc=r.exc, out=out, err=None)
    err = r.err
    if direct is not None:
        if r.err is not None:
            raise CheckError('definition part failed: %r' % (r,))
        for d in direct:
            r = H.run(s, d.encode('ascii'))
            out += r.out
            if r.exc is not None:
                box.s = None
                return dict(exc=r.exc, out=out, err=None)
            if r.err is not None:
                err = r.err
    if out.count(b'[') < 2:
        # the program stopped before the second snapshot: take it now
        r = H.run(s, b'GOSUB 800')
        out += r.out
        if r.exc is not None:
            box.s = None
            return dict(exc=r.exc, out=out, err=None)
    api = {}
    for name, _ in GLOBALS:
        api[name] = s.get_variable(name.encode('ascii'))
    # nothing of the call may linger: reset the string space and collect
    for stmt in (b'CLEAR', b'X$="a"+"b":X=FRE("")'):
        r = H.run(s, stmt)
        if r.exc is not None:
            box.s = None
            return dict(exc=r.exc, out=out, err=None)
    return dict(exc=None, out=out, err=err, api=api)


SNAP_RE = re.compile(r'\[(.*?)\]', re.S)


def judge_case(part, box, case):
    params, bname, fnsig, body, other, args, mode = case
    lines, direct = build(params, body, fnsig, other, args, mode)
    trap = mode.endswith('trap')
    exp = reference(params, bname, fnsig, args, trap)
    desc = {'params': list(params), 'body': bname, 'fnsig': fnsig, 'bodytext': body, 'other': list(other),
            'args': [a[0] for a in args], 'mode': mode,
            'program': [l.decode() for l in lines], 'direct': direct}
    bad = evaluate(box, lines, direct, exp, trap)
    part.traces += 1
    if bad:
        bad2 = evaluate(box, lines, direct, exp, trap, fresh=True)
        if not bad2:
            raise CheckError('result changed on a fresh session: %r for %r' % (bad, desc))
        key, what = bad2
        if key == 'wrong-value' and bname in ('p1', 'p1%') and dict(GLOBALS).get(
                params[0] if params[0][-1] in '%$#' else params[0] + '!') is not None and (
                "returned %r" % (_fmt(dict(GLOBALS)[params[0] if params[0][-1] in '%$#' else params[0] + '!']),)
                in what):
            # the body is the bare parameter and the caller's variable of that name came back
            key = 'bare-parameter-body-returns-callers-variable'
            bname = 'p1'
        part.violation('%s/%s' % (key, bname if 'host-exception' not in key else ''),
                       '%s; program %s%s' % (what, ' / '.join(desc['program']),
                                             (' ; direct: ' + ' / '.join(direct)) if direct else ''), desc)
    part.n += 1
    kind = exp[0] if exp[0] != 'errs' else 'E' + '+'.join(str(c) for c in sorted(exp[1]))
    part.classes.add('%s/%s/%s/%s' % (''.join(PTYPE[p] for p in params) or '-', bname, kind, mode))
    part.outcome(kind)
    return desc


def _fmt(v):
    return v if isinstance(v, str) else fmt_num(v)


def evaluate(box, lines, direct, exp, trap, fresh=False):
    """-> None if fine, else (key, what)."""
    try:
        res = execute(box, lines, direct, fresh)
    except H.Horizon:
        box.s = None
        return ('no-termination', 'the call did not terminate within the poll horizon')
    if res['exc'] is not None:
        return ('host-exception/' + H.exc_key(res['exc']), 'host exception %r' % (res['exc'],))
    text = res['out'].replace(b'\r', b'').replace(b'\n', b'').decode('latin-1')
    snaps = SNAP_RE.findall(text)
    want = snapshot_text()
    if len(snaps) != 2:
        return ('snapshot-missing', 'expected two variable snapshots in %r' % text)
    if snaps[0] != want:
        raise CheckError('snapshot before the call is not what the program assigned: %r vs %r' % (snaps[0], want))
    if snaps[1] != snaps[0]:
        return ('variables-changed', 'variables before %r, after the call %r' % (snaps[0], snaps[1]))
    # through the API as well
    for name, val in GLOBALS:
        got = res['api'][name]
        ok = (got == val.encode('latin-1')) if isinstance(val, str) else (Fr(got) == val)
        if not ok:
            return ('variables-changed', 'get_variable(%s) = %r after the call, was %r' % (name, got, val))
    # what the call did
    m = re.search(r'\]<(.*?)(>?)\[', text)
    mid = text[text.index(']') + 1:text.rindex('[')]
    m_err = re.search(r'E (\d+) ', mid)
    raised = None
    if trap and m_err:
        raised = int(m_err.group(1))
    elif not trap and res['err'] is not None:
        raised = res['err']
    if exp[0] == 'errs':
        if raised is None:
            return ('error-not-raised', 'call returned %r, expected error %s' % (mid, sorted(exp[1])))
        if raised not in exp[1]:
            return ('wrong-error', 'call raised %d, expected %s' % (raised, sorted(exp[1])))
        return None
    if raised is not None:
        return ('unexpected-error', 'call raised error %d (output %r), expected %r' % (raised, mid, exp))
    if exp[0] == 'soft':
        return None
    mv = re.match(r'^<(.*)>$', mid)
    if not mv:
        return ('no-value', 'no value printed: %r' % mid)
    v = exp[1]
    allowed = set()
    if isinstance(v, str):
        allowed.add(v)
    elif isinstance(v, set):
        allowed |= set(fmt_num(x) for x in v)
    else:
        allowed.add(fmt_num(v))
    if mv.group(1) not in allowed:
        return ('wrong-value', 'call returned %r, reference evaluation gives %r' % (mv.group(1), sorted(allowed)))
    return None


def all_cases(tier):
    quick = tier == 'quick'
    out = []
    plists = param_lists(2 if quick else 3)
    for params in plists:
        for bname, fnsig, body, other in bodies(params):
            for args in arg_vectors(params, ARGS):
                for mode in MODES:
                    out.append((params, bname, fnsig, body, tuple(other), args, mode))
    # parameter lists that name the same variable twice (literally or through the default sigil):
    # only the body that does not depend on which argument wins is judged; the caller's variables
    # must be untouched all the same
    dups = [('X', 'X'), ('X%', 'X%'), ('X$', 'X$'), ('Y#', 'Y#'), ('X', 'Y#', 'X'), ('X%', 'X', 'X%')]
    for params in (dups[:4] if quick else dups):
        for bname, fnsig, body, other in bodies(params):
            if bname != 'glob':
                continue
            for args in arg_vectors(params, ARGS_SMALL if len(params) > 2 else ARGS):
                for mode in MODES:
                    out.append((params, bname, fnsig, body, tuple(other), args, mode))
    for params in ALIAS_LISTS:
        if PTYPE[params[0]] == '$':
            fnsig, body = '$', '+"-"+'.join(params)
        else:
            fnsig, body = '', '+'.join('%s*%d' % (p, 10 ** (len(params) - 1 - i)) for i, p in enumerate(params))
        for args in arg_vectors(params, ALIAS_ARGS):
            for mode in (MODES[::2] if quick else MODES):
                out.append((params, 'all', fnsig, body, (), args, mode))
    if not quick:
        for params in param_lists(4, exact=4):
            for bname, fnsig, body, other in bodies(params):
                for args in arg_vectors(params, ARGS_SMALL):
                    for mode in MODES:
                        out.append((params, bname, fnsig, body, tuple(other), args, mode))
    return out


_CASES = {}


def get_cases(tier):
    if tier not in _CASES:
        _CASES[tier] = all_cases(tier)
    return _CASES[tier]


def work(shard):
    tier, lo, hi = shard
    cases = get_cases(tier)
    part = Partial()
    box = Box()
    d = None
    for i in range(lo, hi):
        d = judge_case(part, box, cases[i])
    if d:
        part.sample(d)
    return part


# ---------------------------------------------------------------------------
# parameters without a type character: their type is the DEFtype default in force at each call

DEFTYPES = {'!': 'DEFSNG', '%': 'DEFINT', '#': 'DEFDBL', '$': 'DEFSTR'}
DT_GLOBALS = 'X!=5:X%=6:X#=8:X$="g":G!=3:P!=9'
DT_SNAP = '"[";X!;X%;X#;X$;G!;P!;"]"'
DT_SNAP_TEXT = '[ 5  6  8 g 3  9 ]'
# a second function whose first parameter has a fixed type: called once at the start, and at the end with a second
# argument that no longer converts when X has become an integer (the call fails; P! is what it was)
DT_OVERFLOW_CALL = 'PRINT FNB(1,40000)'


def deftype_cases(maxlen):
    import itertools
    for n in range(1, maxlen + 1):
        for seq in itertools.product('!%#$', repeat=n):
            for rng in ('X', 'W-Y'):
                for mode in ('prog', 'direct'):
                    yield {'types': ''.join(seq), 'range': rng, 'mode': mode}


def deftype_program(case):
    """The statements and the expected output: one call after the definition (default type single) and one
    after each DEFtype statement; 1.75 rounds to 2 for an integer parameter."""
    calls = []
    for t in '!' + case['types']:
        if t == '$':
            calls.append(('PRINT "<";FNS$("ab");">";', '<abs>'))
        else:
            calls.append(('PRINT "<";FNA(1.75);">";', '< 7 >' if t == '%' else '< 6.5 >'))
    stmts = [DT_GLOBALS, 'DEF FNA(X)=X*2+G!:DEF FNS$(X)=X+"s":DEF FNB(P!,X)=P!+X', calls[0][0] + ':PRINT "<";FNB(1,2);">";']
    calls[0] = (calls[0][0], calls[0][1] + '< 3 >')
    for t, c in zip(case['types'], calls[1:]):
        stmts.append('%s %s:%s' % (DEFTYPES[t], case['range'], c[0]))
    stmts.append('PRINT %s;' % DT_SNAP)
    return stmts, ''.join(c[1] for c in calls) + DT_SNAP_TEXT


def judge_deftype(part, case):
    stmts, expect = deftype_program(case)
    s = H.new_session()
    try:
        out = b''
        if case['mode'] == 'prog':
            # the definitions are in a program; every call is a program line
            lines = ['%d %s' % (10 * (i + 1), st) for i, st in enumerate(stmts)]
            for l in lines:
                r = H.run(s, l.encode('ascii'))
                if r.exc is not None or r.out.strip():
                    raise CheckError('line not accepted: %r -> %r' % (l, r))
            runs = [b'RUN']
        else:
            # DEF FN is not allowed in direct mode: the definitions run from a program, the rest is typed
            for l in ('10 ' + stmts[0], '20 ' + stmts[1]):
                r = H.run(s, l.encode('ascii'))
                if r.exc is not None or r.out.strip():
                    raise CheckError('line not accepted: %r -> %r' % (l, r))
            runs = [b'RUN'] + [st.encode('ascii') for st in stmts[2:]]
            if case['types'][-1:] == '%':
                runs.insert(-1, DT_OVERFLOW_CALL.encode('ascii'))
        err = None
        for cmd in runs:
            r = H.run(s, cmd)
            part.n += 1
            if r.exc is not None:
                part.violation('deftype/host-exception/%s' % H.exc_key(r.exc), '%r raised %r' % (cmd, r.exc), case)
                return
            if cmd == DT_OVERFLOW_CALL.encode('ascii'):
                if r.err != 6:
                    part.violation('deftype/num/overflowing-argument-accepted', '%r after %r gave error %r, output %r; expected Overflow' % (
                        cmd, stmts, r.err, r.out), case)
                continue
            out += r.out
            err = err or r.err
        part.traces += 1
        got = out.decode('latin-1').replace('\r', '').replace('\n', '')
        kind = 'str' if '$' in case['types'] else 'num'
        if err is not None:
            part.violation('deftype/%s/error' % kind, 'statements %r: error %r, output %r' % (stmts, err, got), case)
        elif got != expect:
            what = 'caller-variable-changed' if got[:got.find('[')] == expect[:expect.find('[')] else 'wrong-value'
            part.violation('deftype/%s/%s' % (kind, what), 'statements %r printed %r, expected %r' % (stmts, got, expect), case)
        part.classes.add('deftype/%s/%s' % (case['mode'], ''.join(sorted(set(case['types'])))))
    finally:
        s.close()


def work_deftype(shard):
    part = Partial()
    for case in shard:
        judge_deftype(part, case)
    part.sample(shard[0])
    return part


# ---------------------------------------------------------------------------
# the same variable named twice in a parameter list, in one or two spellings (X and X! are one variable; N and N% are
# one under DEFINT N): which argument the body then sees is not specified, but the caller's variable comes back

DUP_LISTS = [('', 'X,X'), ('', 'X!,X!'), ('', 'X,X!'), ('', 'X!,X'), ('DEFINT N:', 'N,N%'), ('DEFINT N:', 'N%,N'),
             ('DEFSTR S:', 'S,S$'), ('', 'X,Y,X!'), ('', 'X!,Y,X')]


def dup_cases():
    out = []
    for pre, plist in DUP_LISTS:
        for mode in ('prog', 'direct'):
            for nested in (False, True):
                out.append({'dup': [pre, plist], 'mode': mode, 'nested': nested})
    return out


def judge_dup(part, case):
    pre, plist = case['dup']
    names = plist.split(',')
    var = names[0]
    isstr = pre.startswith('DEFSTR')
    args = ['"p"', '"q"', '"r"'][:len(names)] if isstr else ['1', '2', '3'][:len(names)]
    body = var + ('+"!"' if isstr else '*10')
    callee = 'FNC%s(%s)' % ('$' if isstr else '', ','.join(args))
    if case['nested']:
        # the call is itself an argument of another call of the same function
        callee = 'FNC%s(%s)' % ('$' if isstr else '', ','.join([callee] + args[1:]))
    init = ('%s="keep"' if isstr else '%s=5') % var
    other = 'Y=7:' if 'Y' in names else ''
    allowed = set()
    for a in args:
        v = a.strip('"') + '!' if isstr else str(int(a) * 10)
        allowed.add(v)
    if case['nested']:
        allowed |= set((a + '!' if isstr else str(int(a) * 10)) for a in list(allowed))
    s = H.new_session()
    try:
        for l in ['10 %sDEF FNC%s(%s)=%s' % (pre, '$' if isstr else '', plist, body), '20 %s%s' % (other, init)]:
            r = H.run(s, l.encode('ascii'))
            if r.exc is not None or r.out.strip():
                raise CheckError('line not accepted: %r -> %r' % (l, r))
        show = 'PRINT "<";%s;">";"[";%s;"]";%s' % (callee, var, '"{";Y;"}";' if other else '')
        if case['mode'] == 'prog':
            r = H.run(s, ('30 ' + show).encode('ascii'))
        r = H.run(s, b'RUN')
        out = r.out
        if case['mode'] == 'direct' and r.exc is None and r.err is None:
            r = H.run(s, show.encode('ascii'))
            out += r.out
        part.n += 1
        part.traces += 1
        if r.exc is not None:
            part.violation('dup/host-exception/%s' % H.exc_key(r.exc), 'DEF FNC(%s), %s raised %r' % (plist, show, r.exc), case)
            return
        got = out.decode('latin-1').replace('\r', '').replace('\n', '').replace(' ', '')
        if r.err is not None:
            part.outcome('dup-refused-%s' % r.err)
            # a refused definition or call must still leave the caller's variable alone
            r2 = H.run(s, ('PRINT "[";%s;"]";' % var).encode('ascii'))
            got = r2.out.decode('latin-1').replace(' ', '')
            if r2.exc is not None or ('[keep]' if isstr else '[5]') not in got:
                part.violation('dup/caller-variable-changed', 'DEF FNC(%s): after the refused %s (error %s) %s reads %r' % (
                    plist, show, r.err, var, got), case)
            return
        want_var = '[keep]' if isstr else '[5]'
        if want_var not in got or (other and '{7}' not in got):
            part.violation('dup/caller-variable-changed', '10 %sDEF FNC(%s)=%s / 20 %s%s / %s printed %r: the caller\'s variable '
                           'does not come back' % (pre, plist, body, other, init, show, got), case)
        elif not any(('<%s>' % a) in got for a in allowed):
            part.violation('dup/value-from-no-argument', 'DEF FNC(%s)=%s, %s printed %r: the value comes from none of the arguments' % (
                plist, body, show, got), case)
        part.classes.add('dup/%s/%s/%s' % (plist, case['mode'], 'nested' if case['nested'] else 'plain'))
    finally:
        s.close()


def work_dup(shard):
    part = Partial()
    for case in shard:
        judge_dup(part, case)
    part.sample(shard[0])
    return part


# ---------------------------------------------------------------------------
# a function that calls another one, with a garbage collection while both calls are in progress: the saved values of
# the caller's variables belong to each call separately

NG_INNER = [('FNI$(Y$)', 'Y$+"!"', 'FNI$("in")', 'in!'), ('FNI$(X$)', 'X$+"!"', 'FNI$("in")', 'in!'),
            ('FNI$(Q)', 'STRING$(Q,"i")', 'FNI$(2)', 'ii'), ('FNI$(X$)', 'X$+"!"', 'FNI$(X$)', None)]
NG_GC = ['none', 'before-inner', 'after-inner', 'both']


def nestedgc_cases():
    return [{'inner': i, 'gc': g, 'mode': m} for i in range(len(NG_INNER)) for g in NG_GC for m in ('prog', 'direct')]


def judge_nestedgc(part, case):
    head, ibody, icall, ival = NG_INNER[case['inner']]
    gc = 'LEFT$(STR$(FRE("")),0)'
    pieces = []
    if case['gc'] in ('before-inner', 'both'):
        pieces.append(gc)
    pieces.append(icall)
    if case['gc'] in ('after-inner', 'both'):
        pieces.append(gc)
    pieces.append('X$')
    obody = '+'.join(pieces)
    expect_r = (ival if ival is not None else 'arg!') + 'arg'
    s = H.new_session()
    try:
        lines = ['10 DEF %s=%s:DEF FNO$(X$)=%s' % (head, ibody, obody),
                 '20 X$="ca"+"ller":Y$="wh"+"yy":Q=7:G$="gl"+"ob"']
        show = 'R$=FNO$("a"+"rg"):PRINT "<";R$;">[";X$;"][";Y$;"][";Q;"][";G$;"]";'
        for l in lines:
            r = H.run(s, l.encode('ascii'))
            if r.exc is not None or r.out.strip():
                raise CheckError('line not accepted: %r -> %r' % (l, r))
        if case['mode'] == 'prog':
            H.run(s, ('30 ' + show).encode('ascii'))
        r = H.run(s, b'RUN')
        out = r.out
        if case['mode'] == 'direct' and r.exc is None and r.err is None:
            r = H.run(s, show.encode('ascii'))
            out += r.out
        part.n += 1
        part.traces += 1
        if r.exc is not None:
            part.violation('nested-gc/host-exception/%s' % H.exc_key(r.exc), 'DEF %s=%s:DEF FNO$(X$)=%s / %s raised %r' % (
                head, ibody, obody, show, r.exc), case)
            return
        got = out.decode('latin-1').replace('\r', '').replace('\n', '').replace(' ', '')
        want = '<%s>[caller][whyy][7][glob]' % expect_r
        if r.err is not None or got != want:
            what = 'caller-variable-changed' if ('<%s>' % expect_r) in got else 'wrong-value'
            part.violation('nested-gc/%s' % what, '10 DEF %s=%s:DEF FNO$(X$)=%s / %s / %s printed %r (error %r), expected %r' % (
                head, ibody, obody, lines[1][3:], show, got, r.err, want), case)
        part.classes.add('nested-gc/%s/%s/%s' % (head, case['gc'], case['mode']))
    finally:
        s.close()


def work_nestedgc(shard):
    part = Partial()
    for case in shard:
        judge_nestedgc(part, case)
    part.sample(shard[0])
    return part


def legs(ctx):
    dt = list(deftype_cases(2 if ctx.quick else 4))
    return _legs_calls(ctx) + [
        Leg('nested-gc', list(chunked(nestedgc_cases(), 8)), work_nestedgc, exhaustive=True,
            bound='%d programs: a string function whose body calls a second function (parameter of another name, of the same name, '
                  'numeric, or passed on) with a garbage collection before / after / around the inner call, from a program and from '
                  'direct mode: the value and the caller\'s variables afterwards' % len(nestedgc_cases())),
        Leg('dup-params', list(chunked(dup_cases(), 6)), work_dup, exhaustive=True,
            bound='%d programs: a function whose parameter list names one variable twice (same spelling, explicit sigil against '
                  'default type, under DEFINT / DEFSTR, with another parameter in between), called plainly and with a call of '
                  'itself as argument, from a program and from direct mode: the caller\'s variables come back' % len(dup_cases())),
        Leg('deftype', list(chunked(dt, 24)), work_deftype, exhaustive=True,
            bound='%d programs: a numeric and a string function with an untyped parameter, called after the definition and '
                  'after each statement of every sequence of <= %d DEFSNG/DEFINT/DEFDBL/DEFSTR statements (letter or range), '
                  'from a program and from direct mode' % (len(dt), 2 if ctx.quick else 4))]


def _legs_calls(ctx):
    cases = get_cases(ctx.tier)
    n = len(cases)
    size = 150
    return [Leg('calls', [(ctx.tier, lo, min(n, lo + size)) for lo in range(0, n, size)], work, exhaustive=True,
                bound='%d programs: all ordered lists of <= %d distinct parameters of {X, X%%, X$, Y#}%s (+ lists naming a parameter twice, + 6 same-typed lists called with the variables of the caller that are named like the other parameters) x well-typed '
                      'bodies x full product of argument alphabets (! %d, %% %d, $ %d, # %d values) x 4 call modes' % (
                          n, 2 if ctx.quick else 3,
                          '' if ctx.quick else ' (+ all 24 lists of 4 with 2 values per parameter)',
                          len(ARGS['!']), len(ARGS['%']), len(ARGS['$']), len(ARGS['#'])))]


def replay(ctx, leg, case):
    part = Partial()
    if leg == 'deftype':
        judge_deftype(part, case)
        return part
    if leg == 'dup-params':
        judge_dup(part, case)
        return part
    if leg == 'nested-gc':
        judge_nestedgc(part, case)
        return part
    box = Box()
    params = tuple(case['params'])
    alph = {}
    for t in ARGS:
        alph[t] = dict((a[0], a) for a in ARGS[t] + ARGS_SMALL[t] + ALIAS_ARGS[t])
    args = tuple(alph[PTYPE[p]][a] for p, a in zip(params, case['args']))
    judge_case(part, box, (params, case['body'], case['fnsig'], case['bodytext'], tuple(case['other']),
                           args, case['mode']))
    return part
