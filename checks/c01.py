"""
C01 - no BASIC input ever produces an internal interpreter error.

E1 over a bounded grammar of inputs, executed on real Sessions in two configurations
(API: Session() with every keyword at its documented default; CLI: the session parameters
config.Settings() produces for an empty command line, with the working directory and LPT1
redirected into scratch):
  functions  : every function / operator template x all argument tuples (arity <= 3, full product)
  statements : every statement template (alphabet complete w.r.t. the token tables of all
               dialects) x deviation-bounded argument tuples (0, 1, 2 non-default arguments),
               in direct mode and as a program line (RUN)
  history    : every ordered pair (state-changing statement, statement) - depth-2 histories
  files      : every byte string of length <= 2 after each magic byte FF/FE/FC/FD and as ASCII,
               loaded as a program file, then RUN and LIST; every single-byte alteration
               (fixed value set) of tokenised and protected corpus programs
  soup       : every token sequence of length <= 2 as a tokenised program line: LOAD, LIST, RUN
Oracle: nothing but BASIC errors (messages / ERR), Exit, or normal completion may come out of
Session.execute / evaluate; any other exception type escaping is a violation keyed by
(exception type, innermost pcbasic function).
"""
import io
import os
import sys
import glob
import logging
import itertools

logging.disable(logging.CRITICAL)

from mc.core import Leg, Partial, CheckError, chunked
from mc import harness as H
from mc import stmtalpha as A

PROPERTY = 'C01'
ENGINE = 'E1 domain'
LEVEL = 'model_checking'
LEVEL_TEXT = (
    'Bounded exhaustive enumeration of BASIC inputs on real Sessions in the API-default and command-line-default '
    'configurations: every statement and function template of the complete keyword alphabet with boundary '
    'argument tuples (deviation bounded), all depth-2 histories from a state-changing alphabet, all short program '
    'files after every magic byte, all single-byte alterations of corpus programs, all token pairs; the oracle '
    'is "no host exception escapes the public API".')
LEVEL_NOTE = ('Inputs outside the templates and argument alphabets are not covered. Statements that wait for input get '
              'a closed input stream after a poll horizon; a run that still does not end is counted as blocked, not '
              'as a violation. SHELL has no interpreter configured (default).')
TECHNIQUE = 'bounded exhaustive enumeration of statements, argument tuples, depth-2 histories and short program files against the no-host-exception oracle'
RULE = ('templates x argument alphabets (full product up to the stated deviation bound); class = (keyword, outcome kind '
        'in {ok, basic error code, exit, blocked}); non-trivial = every class')
ASSUMPTIONS = [
    'internal seam: scripted input queue (closed after the horizon)',
    'configuration api = Session() defaults plus devices={"Z": scratch mount}, so that file statements reach files',
    'os.environ, cwd and the scratch mount are restored/recreated per worker; SHELL/TERM have no program configured',
    'Session.execute of one direct line is the unit; program-mode variants are entered as line 10 and RUN',
]

CONFIGS = ('api', 'cli')

STATE_CHANGERS = [
    'ON ERROR GOTO 10', 'KEY ON', 'KEY OFF', 'SCREEN 1', 'SCREEN 2', 'SCREEN 0,0,0,0', 'WIDTH 40',
    'OPEN "F.TXT" FOR OUTPUT AS 1', 'OPEN "R.DAT" FOR RANDOM AS 1 LEN=4', 'OPEN "SCRN:" FOR OUTPUT AS 1',
    'OPEN "KYBD:" FOR INPUT AS 1', 'OPEN "LPT1:" FOR OUTPUT AS 1', 'DEF SEG=0', 'DEF SEG=&HB800', 'CLEAR ,1000',
    'CLEAR ,32768,100', 'RENUM 1000,30', 'RUN', 'NEW', 'DIM AR(2,2)', 'OPTION BASE 1', 'DEFSTR A-Z', 'DEFINT A-Z',
    'VIEW PRINT 2 TO 3', 'VIEW (1,1)-(5,5)', 'WINDOW (0,0)-(1,1)', 'LOCATE 25,80', 'COLOR 31,15',
    'FOR I=1 TO 2', 'WHILE 1', 'GOSUB 20', 'ERROR 5', 'A$=STRING$(255,"x")', 'KEY 1,"A"+CHR$(13)',
    'KEY(1) ON:ON KEY(1) GOSUB 20', 'TRON', 'PLAY "MB"', 'CHDIR "SUB"', 'POKE 1050,PEEK(1052)', 'RANDOMIZE 1',
]
STATE_CHANGERS_QUICK = STATE_CHANGERS[:1] + ['SCREEN 1', 'OPEN "F.TXT" FOR OUTPUT AS 1', 'DEF SEG=0', 'CLEAR ,1000',
                                              'RENUM 1000,30', 'RUN', 'NEW', 'OPTION BASE 1', 'DEFSTR A-Z',
                                              'VIEW PRINT 2 TO 3', 'FOR I=1 TO 2', 'GOSUB 20', 'ERROR 5']

BASE_PROGRAM = [
    b'10 ON ERROR GOTO 20:END',
    b'20 RESUME NEXT',
    b'30 PRINT 1',
    b'40 DATA 1,"a",b',
]


class Env(object):
    """Per-worker scratch environment; sessions are created fresh for every case."""

    def __init__(self):
        self.scratch = H.Scratch('pcbc01_')
        self.base = self.scratch.path
        self.mount = os.path.join(self.base, 'mount')
        os.makedirs(os.path.join(self.mount, 'SUB'))
        self.home = os.path.join(self.base, 'home')
        os.makedirs(self.home)
        self.environ = dict(os.environ)
        self.cwd = os.getcwd()
        self.cli_params = None
        self._files()

    def _files(self):
        for name, data in (('F.TXT', b'1,2,"x"\r\nline\r\n\x1a'), ('R.DAT', b'abcdefgh'),
                           ('P.BAS', b'10 PRINT 1\r\n\x1a'), ('D.BAS', b'100\r\n\x1a'),
                           ('E.BAS', b'100 RESUME NEXT\r\n25 PRINT 2\r\n\x1a')):
            with open(os.path.join(self.mount, name), 'wb') as f:
                f.write(data)

    def close(self):
        os.chdir(self.cwd)
        self.scratch.__exit__()

    def reset_fs(self):
        import shutil
        for fn in os.listdir(self.mount):
            p = os.path.join(self.mount, fn)
            if os.path.isdir(p):
                shutil.rmtree(p, ignore_errors=True)
            else:
                os.unlink(p)
        os.makedirs(os.path.join(self.mount, 'SUB'))
        self._files()
        os.environ.clear()
        os.environ.update(self.environ)

    def session(self, config, horizon=120):
        if config == 'api':
            # documented defaults, except that the scratch mount is given as drive Z: (with devices=None
            # the current device is the unmounted @: and every file statement ends in Path not found)
            os.chdir(self.mount)
            s = H.new_session(horizon=horizon, at_horizon='close', peek_values=None, devices={'Z': self.mount})
        else:
            if self.cli_params is None:
                from pcbasic import config as cfg
                os.environ['HOME'] = self.home
                # pool workers may have a closed stdin; config inspects the standard streams
                for name, mode in (('stdin', 'r'), ('stdout', 'w')):
                    try:
                        getattr(sys, name).isatty()
                    except (ValueError, AttributeError):
                        setattr(sys, name, open(os.devnull, mode))
                os.chdir(self.mount)
                settings = cfg.Settings(self.home, ['--lpt1=FILE:' + os.path.join(self.base, 'lpt1.txt')])
                # the stream redirects depend on the checker's own stdio (closed in pool workers);
                # they are replaced by None below anyway
                settings._get_redirects = lambda: {'output_streams': [], 'input_streams': []}
                self.cli_params = dict(settings.session_params)
                self.cli_params['output_streams'] = None
                self.cli_params['input_streams'] = None
            s = H.new_session(horizon=horizon, at_horizon='close', **self.cli_params)
        return s


def _outcome(r):
    if r.exc is not None:
        return 'EXC'
    if r.exit:
        return 'exit'
    if r.err is not None:
        return 'e%d' % r.err
    return 'ok'


def _exec(part, env, config, lines, kw, case, program=None):
    """Fresh session; optional program; execute direct lines; record host exceptions."""
    s = env.session(config)
    try:
        if program:
            for l in program:
                H.run(s, l)
        for text in lines:
            try:
                r = H.run(s, text if isinstance(text, bytes) else text.encode('latin-1'))
            except H.Horizon:
                part.outcome('blocked')
                part.classes.add('%s/blocked' % kw)
                return
            part.n += 1
            part.traces += 1
            oc = _outcome(r)
            part.outcome(oc)
            part.classes.add('%s/%s' % (kw, oc))
            if r.exc is not None:
                part.violation(
                    'host-exception/%s' % H.exc_key(r.exc),
                    'config %s: %r -> %s: %r' % (config, lines, type(r.exc).__name__, r.exc), case)
                return
            if r.exit:
                return
    finally:
        try:
            s.close()
        except Exception as e:
            if H.exc_key(e).find('pcbasic') >= 0 or True:
                part.violation('host-exception-on-close/%s' % H.exc_key(e), 'config %s: %r: close(): %r' % (config, lines, e), case)
        env.reset_fs()


# ---------------------------------------------------------------------------------------

def work_statements(shard):
    config, mode, stmts = shard
    part = Partial()
    env = Env()
    try:
        for kw, text in stmts:
            case = {'config': config, 'mode': mode, 'lines': [text]}
            if mode == 'direct':
                _exec(part, env, config, [text], kw, case, program=BASE_PROGRAM)
            else:
                case['lines'] = ['5 ' + text, 'RUN']
                _exec(part, env, config, ['5 ' + text, 'RUN'], kw, case, program=BASE_PROGRAM)
        part.sample({'config': config, 'mode': mode, 'statements': [t for _, t in stmts[:3]]})
    finally:
        env.close()
    return part


def work_functions(shard):
    config, exprs = shard
    part = Partial()
    env = Env()
    try:
        for kw, expr in exprs:
            case = {'config': config, 'mode': 'direct', 'lines': ['X$="q":X%=7:PRINT ' + expr]}
            _exec(part, env, config, case['lines'], kw, case, program=BASE_PROGRAM)
            # the evaluate() API entry point
            s = env.session(config)
            try:
                try:
                    s.evaluate(expr)
                    part.outcome('evaluate-ok')
                except H.Horizon:
                    part.outcome('blocked')
                except Exception as e:
                    from pcbasic.basic.base import error
                    if isinstance(e, error.Interrupt):
                        part.outcome('evaluate-interrupt')
                    else:
                        part.violation('host-exception/evaluate/%s' % H.exc_key(e),
                                       'config %s: evaluate(%r) -> %r' % (config, expr, e),
                                       {'config': config, 'mode': 'evaluate', 'lines': [expr]})
                part.n += 1
            finally:
                s.close()
                env.reset_fs()
        part.sample({'config': config, 'expressions': [t for _, t in exprs[:3]]})
    finally:
        env.close()
    return part


def work_history(shard):
    config, pairs = shard
    part = Partial()
    env = Env()
    try:
        for first, (kw, second) in pairs:
            case = {'config': config, 'mode': 'direct', 'lines': [first, second]}
            _exec(part, env, config, [first, second], kw, case, program=BASE_PROGRAM)
        part.sample({'config': config, 'history': [pairs[0][0], pairs[0][1][1]]})
    finally:
        env.close()
    return part


EDIT_PROGRAM = [
    b'10 ON ERROR GOTO 100:ON TIMER(1) GOSUB 100:ON KEY(2) GOSUB 100',
    b'20 GOSUB 100:FOR I=1 TO 2:NEXT',
    b'30 STOP',
    b'40 END',
    b'100 RETURN',
]
# statements that change the program text, the traps pointing into it, or the execution state
EDIT_OPS = [
    'RUN', 'CONT', 'MERGE "D.BAS"', 'MERGE "E.BAS"', 'RENUM', 'RENUM 1000,30,5', 'DELETE 100', '100', '100 RESUME NEXT',
    'ON ERROR GOTO 100', 'TIMER ON', 'ERROR 5', 'RETURN', 'GOTO 100', 'LIST', 'CLEAR',
    # thorough tier
    'RUN 20', 'CHAIN MERGE "D.BAS",30', 'CHAIN MERGE "E.BAS",20,DELETE 100-100', 'EDIT 100', 'NEW', 'LOAD "E.BAS",R',
    'SAVE "S.BAS",A', 'KEY(2) ON', 'RESUME NEXT', 'NEXT', 'DELETE 10-30', '20',
]
EDIT_QUICK = 16


def work_edit(shard):
    config, seqs = shard
    part = Partial()
    env = Env()
    try:
        for seq in seqs:
            case = {'config': config, 'mode': 'edit', 'lines': list(seq)}
            _exec(part, env, config, list(seq), 'EDIT:' + seq[-1].split(' ')[0], case, program=EDIT_PROGRAM)
        part.sample({'config': config, 'sequence': list(seqs[0])})
    finally:
        env.close()
    return part


def work_trap(shard):
    """Every statement as the body of an ON ERROR handler, entered from a direct-mode error, from a
    program-line error and from an event trap (GOSUB handler)."""
    config, bodies = shard
    part = Partial()
    env = Env()
    try:
        for kw, body in bodies:
            # (user functions are defined: their memory records sit among the variables whatever the handler does)
            prog = [b'5 DEF FNS$(X$)=X$+"!":DEF FNT(X)=X+1:S$="a"+"b"', b'10 ON ERROR GOTO 100', b'20 END', b'30 ERROR 5', b'40 END',
                    ('100 ' + body).encode('latin-1'), b'110 RESUME NEXT']
            for seq in (['RUN', 'ERROR 5', 'PRINT ERR;ERL'], ['RUN', 'GOTO 30', 'CONT'], ['RUN', 'X=1/0:ERROR 6', 'LIST']):
                case = {'config': config, 'mode': 'trap', 'lines': seq, 'program': [l.decode('latin-1') for l in prog]}
                _exec(part, env, config, seq, kw, case, program=prog)
        part.sample({'config': config, 'handler_body': bodies[0][1]})
    finally:
        env.close()
    return part


SPECIAL_ARGS = ['1', '0', '-1', '70000', '1E38*10', 'EXP(100)', '2^200.5', '1/0', 'LOG(0)', 'SQR(-1)', '"s"', 'X$',
                'CVS("ab")', 'FNB(1,2)', 'FND(1)', 'RND', 'A%(9)', 'VAL("1D300")']


def work_deffn(shard):
    """User functions called with every pair of special argument expressions, with soft and with
    trapped errors, from a program line and from direct mode."""
    config, pairs = shard
    part = Partial()
    env = Env()
    try:
        for a, b in pairs:
            for trap in (False, True):
                prog = [b'10 DEF FNB(X,Y)=X+Y:DEF FNC$(X$,Y$)=X$+Y$:DEF FND(Z)=FND(Z):DEF FNE%(P,Q#,R%)=P+Q#+R%',
                        b'20 ON ERROR GOTO 100' if trap else b'20 REM',
                        ('30 PRINT FNB(%s,%s):PRINT FNE%%(%s,%s,%s):PRINT FNC$(%s,%s)' % (a, b, b, a, b, a, b)).encode('latin-1'),
                        b'40 END', b'100 PRINT "E";ERR;:RESUME NEXT']
                seq = ['RUN', 'PRINT FNB(%s,%s)' % (a, b), 'PRINT FNB(%s,FNB(%s,%s))' % (a, b, a)]
                case = {'config': config, 'mode': 'trap', 'lines': seq, 'program': [l.decode('latin-1') for l in prog]}
                _exec(part, env, config, seq, 'DEFFN', case, program=prog)
        part.sample({'config': config, 'args': list(pairs[0])})
    finally:
        env.close()
    return part


def _load_run_list(part, env, config, data, case, klass):
    s = env.session(config, horizon=60)
    try:
        s.bind_file(io.BytesIO(data), name='PROG')
        for text in (b'LOAD "@:PROG"', b'LIST', b'RUN', b'SAVE "@:OUT",A'):
            try:
                r = H.run(s, text)
            except H.Horizon:
                part.outcome('blocked')
                break
            part.n += 1
            part.traces += 1
            part.outcome(_outcome(r))
            part.classes.add('%s/%s/%s' % (klass, text.split(b' ')[0].decode(), _outcome(r)))
            if r.exc is not None:
                part.violation('host-exception/file/%s' % H.exc_key(r.exc),
                               'config %s: file %r: %s -> %r' % (config, data[:40], text, r.exc), case)
                break
            if r.exit:
                break
    finally:
        try:
            s.close()
        except Exception as e:
            part.violation('host-exception-on-close/%s' % H.exc_key(e), 'file %r: close(): %r' % (data[:40], e), case)
        env.reset_fs()


def work_files(shard):
    config, klass, items = shard
    part = Partial()
    env = Env()
    try:
        for data in items:
            _load_run_list(part, env, config, data, {'config': config, 'mode': 'file', 'data': data}, klass)
        part.sample({'config': config, 'file': items[0]})
    finally:
        env.close()
    return part


class _KeepBytesIO(io.BytesIO):
    """BytesIO that remembers its content when pcbasic closes it."""
    final = b''

    def close(self):
        self.final = self.getvalue()
        io.BytesIO.close(self)


def _corpus():
    """Small tokenised / protected program images made from the recorded GW-BASIC corpus."""
    repo = os.environ.get('VERIF_REPO', '/repo')
    srcs = sorted(glob.glob(os.path.join(repo, 'tests', 'basic', 'gwbasic', '*', 'TEST.BAS')))
    picked = []
    for p in srcs:
        with open(p, 'rb') as f:
            d = f.read()
        if 150 < len(d) < 420 and d[:1] not in (b'\xff', b'\xfe'):
            picked.append(d)
        if len(picked) == 3:
            break
    images = []
    for d in picked:
        s = H.new_session()
        s.bind_file(io.BytesIO(d), name='SRC')
        H.run(s, b'LOAD "@:SRC"')
        for fmt in (b'', b',P'):
            out = _KeepBytesIO()
            s.bind_file(out, name='DST')
            H.run(s, b'SAVE "@:DST"' + fmt)
            images.append(out.final if out.closed else out.getvalue())
        s.close()
    return [i for i in images if i]


def _alterations(image, values):
    for off in range(len(image)):
        for v in values:
            b = v if v >= 0 else image[off] ^ (-v)
            if b != image[off]:
                yield image[:off] + bytes([b]) + image[off + 1:]


def _tok_line(tokens):
    """One tokenised program with a single line 10 holding the token bytes."""
    body = bytes(tokens)
    return b'\xff' + b'\x01\x01' + b'\x0a\x00' + body + b'\x00' + b'\x00\x00' + b'\x1a'


# ---------------------------------------------------------------------------------------

def legs(ctx):
    missing = A.assert_complete()
    if missing:
        raise CheckError('statement alphabet incomplete: %r' % (missing,))
    q = ctx.quick
    nums = A.NUMS_QUICK if q else A.NUMS
    strs = A.STRS_QUICK if q else A.STRS
    out = []
    # statements
    stmts = []
    for kw in sorted(A.STATEMENTS):
        for t in A.STATEMENTS[kw]:
            for txt in A.deviations(t, nums, strs, 1 if q else 2):
                stmts.append((kw, txt))
    shards = []
    for config in CONFIGS:
        for c in chunked(stmts, 60):
            shards.append((config, 'direct', c))
    benign = [(kw, A.fill(t)) for kw in sorted(A.STATEMENTS) for t in A.STATEMENTS[kw]]
    onedev = stmts if q else [(kw, txt) for kw in sorted(A.STATEMENTS) for t in A.STATEMENTS[kw]
                              for txt in A.deviations(t, A.NUMS_QUICK, A.STRS_QUICK, 1)]
    for config in CONFIGS:
        for c in chunked(benign if q else onedev, 60):
            shards.append((config, 'program', c))
    out.append(Leg('statements', shards, work_statements, exhaustive=True,
                   bound='%d instantiations of %d statement templates (<= %d non-default arguments over %d numeric / %d '
                         'string boundary values), direct mode + program mode, 2 configurations' % (
                             len(stmts), len(benign), 1 if q else 2, len(nums), len(strs))))
    # functions: full product for arity <= 3
    exprs = []
    for kw in sorted(A.FUNCTIONS):
        for t in A.FUNCTIONS[kw]:
            n_slots = len(A.slots(t))
            for txt in A.deviations(t, nums, strs, min(n_slots, 2 if q else 3)):
                exprs.append((kw, txt))
    out.append(Leg('functions', [(config, c) for config in CONFIGS for c in chunked(exprs, 60)], work_functions,
                   exhaustive=True,
                   bound='%d expressions: every function/operator template x %s of argument values; PRINT and '
                         'Session.evaluate; 2 configurations' % (len(exprs), 'pairs' if q else 'the full product (arity <= 3)')))
    # graphics context: SCREEN x VIEW/WINDOW prefix, then every graphics statement / function
    gkw = ['PSET', 'PRESET', 'LINE', 'CIRCLE', 'PAINT', 'DRAW', 'GET', 'PUT', 'VIEW', 'WINDOW', 'PCOPY', 'PALETTE',
           'LOCATE', 'CLS', 'COLOR', 'WIDTH', 'SCREEN', 'PRINT', 'KEY']
    gfn = ['POINT', 'PMAP', 'SCREEN', 'POS', 'CSRLIN', 'PEN', 'STICK', 'STRIG']
    gnums = ['-32768', '-1', '0', '1', '150', '300', '319', '320', '1000', '32767', '1E38']
    gstrs = ['""', '"A"', 'CHR$(0)', 'STRING$(255,"x")', '"U1000"', '"M+1,+1"']
    def _gstm(dev):
        lst = []
        for kw in gkw:
            for t in A.STATEMENTS[kw]:
                for txt in A.deviations(t, gnums, gstrs, dev):
                    lst.append((kw, txt))
        for kw in gfn:
            for t in A.FUNCTIONS[kw]:
                for txt in A.deviations(t, gnums, gstrs, 2):
                    lst.append((kw, 'X=' + txt))
        return lst
    gstm = _gstm(1)
    screens = ['SCREEN 1'] if q else ['SCREEN 1', 'SCREEN 2', 'SCREEN 7', 'SCREEN 9', 'SCREEN 0:WIDTH 40']
    views = ['X=0', 'VIEW (100,100)-(200,150)', 'VIEW SCREEN (10,10)-(20,20),1,2', 'WINDOW (0,0)-(1,1)',
             'WINDOW SCREEN (-1,-1)-(1,1)', 'VIEW (100,100)-(200,150):WINDOW (0,0)-(1,1)', 'VIEW PRINT 2 TO 3']
    gpairs = [(sc + ':' + vw, st) for sc in screens for vw in views for st in gstm]
    if not q:
        # two non-default arguments in the first graphics mode only
        gpairs += [('SCREEN 1:' + vw, st) for vw in views[:3] for st in _gstm(2)]
    gconfigs = ('api',) if q else CONFIGS
    if q:
        views = views[:2] + views[3:4] + views[5:6]
        gpairs = [(sc + ':' + vw, st) for sc in screens for vw in views for st in gstm]
    out.append(Leg('graphics', [(config, c) for config in gconfigs for c in chunked(gpairs, 100)], work_history,
                   exhaustive=True,
                   bound='%d screens x %d VIEW/WINDOW contexts x %d graphics statement/function instantiations (1 non-default argument; thorough adds 2 non-default arguments in SCREEN 1 x 3 contexts), '
                         '%d configuration(s)' % (len(screens), len(views), len(gstm), len(gconfigs))))
    out.append(Leg('trap', [(config, c) for config in CONFIGS for c in chunked(benign, 40)], work_trap,
                   exhaustive=True,
                   bound='%d statements as ON ERROR handler body x 3 ways of entering the handler (direct-mode error, '
                         'program-line error via GOTO, soft+hard error) x follow-up statement, 2 configurations' % len(benign)))
    apairs = [(a, b) for a in SPECIAL_ARGS for b in SPECIAL_ARGS]
    out.append(Leg('deffn', [(config, c) for config in (('api',) if q else CONFIGS) for c in chunked(apairs, 30)],
                   work_deffn, exhaustive=True,
                   bound='user functions of 2-3 parameters called with all %d ordered pairs of %d special argument '
                         'expressions (overflowing, failing, wrong-typed, recursive), with soft and trapped errors, '
                         'in a program and in direct mode' % (len(apairs), len(SPECIAL_ARGS))))
    # depth-2 histories
    firsts = STATE_CHANGERS_QUICK if q else STATE_CHANGERS
    pairs = [(f, b) for f in firsts for b in benign]
    out.append(Leg('history', [(config, c) for config in CONFIGS for c in chunked(pairs, 80)], work_history,
                   exhaustive=True,
                   bound='%d state-changing statements x %d statements (benign arguments), 2 configurations' % (
                       len(firsts), len(benign))))
    # program-editing histories
    if q:
        seqs = list(itertools.product(EDIT_OPS, repeat=3))
        eshards = [('api', c) for c in chunked(seqs, 200)]
    else:
        seqs = list(itertools.product(EDIT_OPS, repeat=3))
        eshards = [(config, c) for config in CONFIGS for c in chunked(seqs, 200)]
        seqs4 = list(itertools.product(EDIT_OPS[:EDIT_QUICK], repeat=4))
        eshards += [('api', c) for c in chunked(seqs4, 200)]
    out.append(Leg('edit', eshards, work_edit, exhaustive=True,
                   bound='all sequences of 3 statements over %d program-editing / trap / flow statements (MERGE and CHAIN MERGE of '
                         'files that delete or replace the trap target, RENUM, DELETE, line entry, RUN, CONT, ERROR, RETURN, ...) on '
                         'a stored program with ON ERROR / ON TIMER / ON KEY traps%s' % (
                             len(EDIT_OPS), '' if q else ', 2 configurations; all sequences of 4 over the first %d' % EDIT_QUICK)))
    # files
    fshards = []
    sub = [0x00, 0x01, 0x0a, 0x0d, 0x0e, 0x0f, 0x1a, 0x1c, 0x1d, 0x1f, 0x20, 0x22, 0x26, 0x30, 0x3a, 0x41, 0x7f,
           0x80, 0x81, 0x8b, 0x8f, 0xa1, 0xd0, 0xfc, 0xfd, 0xfe, 0xff]
    for magic in (b'\xff', b'\xfe', b'\xfc', b'\xfd', b''):
        items = [magic] + [magic + bytes([a]) for a in range(256)]
        second = sub if q else range(256)
        items += [magic + bytes([a, b]) for a in (sub if q else range(256)) for b in second]
        for c in chunked(items, 300):
            fshards.append(('api', 'short', c))
    images = _corpus()
    values = [0x00, 0xff, -0x01] if q else [0x00, 0x01, 0x0f, 0x3a, 0x7f, 0x80, 0xff, -0x01, -0x80]
    nalt = 0
    for img in images:
        alts = list(_alterations(img, values))
        nalt += len(alts)
        for c in chunked(alts, 300):
            fshards.append(('api', 'altered', c))
    out.append(Leg('files', fshards, work_files, exhaustive=True,
                   bound='all byte strings of length <= 2 (second byte: %s) after FF/FE/FC/FD/none; %d single-byte '
                         'alterations (%d values per offset) of %d corpus program images; LOAD, LIST, RUN, SAVE,A' % (
                             'subset of 27' if q else 'all 256', nalt, len(values), len(images))))
    # token soup
    toks = [0x00, 0x0b, 0x0e, 0x0f, 0x11, 0x1c, 0x1d, 0x1f, 0x20, 0x22, 0x26, 0x28, 0x29, 0x2c, 0x3a, 0x41] + \
        list(range(0x81, 0x100))
    soup = [_tok_line([a]) for a in range(256)]
    soup += [_tok_line([a, b]) for a in toks for b in (toks if not q else toks[::4])]
    soup += [_tok_line([p, a]) for p in (0xfd, 0xfe, 0xff) for a in range(256)]
    if not q:
        soup += [_tok_line([p, a, b]) for p in (0xfd, 0xfe, 0xff) for a in range(0x80, 0x100, 3) for b in (0x28, 0x3a, 0x41, 0x11)]
    out.append(Leg('soup', [('api', 'soup', c) for c in chunked(soup, 300)], work_files, exhaustive=True,
                   bound='%d tokenised one-line programs: every single byte, every pair over %d tokens, every two-byte '
                         'token; LOAD, LIST, RUN, SAVE,A' % (len(soup), len(toks))))
    return out


def replay(ctx, leg, case):
    part = Partial()
    env = Env()
    try:
        if case.get('mode') == 'file':
            _load_run_list(part, env, case['config'], case['data'], case, 'replay')
        elif case.get('mode') == 'evaluate':
            s = env.session(case['config'])
            try:
                s.evaluate(case['lines'][0])
            except Exception as e:
                from pcbasic.basic.base import error
                if not isinstance(e, error.Interrupt):
                    part.violation('host-exception/evaluate/%s' % H.exc_key(e), repr(e), case)
        elif case.get('mode') == 'edit':
            _exec(part, env, case['config'], case['lines'], 'replay', case, program=EDIT_PROGRAM)
        elif case.get('mode') == 'trap':
            _exec(part, env, case['config'], case['lines'], 'replay', case,
                  program=[l.encode('latin-1') for l in case['program']])
        else:
            _exec(part, env, case['config'], case['lines'], 'replay', case, program=BASE_PROGRAM)
    finally:
        env.close()
    return part
