"""
C10 - string variables keep their values through any memory history; FRE is consistent.

E2 (history BFS on real Sessions).  A session is set up with a stored program (string
literals of program lines live in program memory, those of direct statements in string
space), two DEF FN string functions, the variables A$, B$, C$(0..2), X pre-created, and
`CLEAR ,n` chosen so that exactly 12 / 24 / 40 / ~60000 bytes are free.  Every history over the
statement alphabet up to the depth is replayed on a fresh session, states are merged on
the complete hidden state (pointers, string space map, temporaries mark).

In every reached state, against a reference dict of byte strings stepped in lock-step:
  * every live string variable / array element reads the reference value;
  * FRE(0) <= F, FRE("") == F, FRE(0) after it == F, with
        F = (free bytes of the set-up session) - array bytes added + array bytes erased
            - sum of the lengths of live strings held in string space      (never negative)
  * after that collection every value still reads the same;
  * a statement failing with Out of string space / Out of memory must have needed at
    least F bytes (sum of its string temporaries and result), and leaves every value as
    it was; any other error must be the one the reference semantics give.
"""
import struct

from mc.core import Leg, Partial, CheckError
from mc import bfs
from models import varmem as VM

PROPERTY = 'C10'
ENGINE = 'E2 bfs'
LEVEL = 'model_checking'
LEVEL_TEXT = (
    'Explicit-state breadth-first exploration of every statement history up to the stated depth '
    'over an alphabet of up to 35 string statements (literal/concatenation/copy assignments in program '
    'and direct mode, MID$ and LSET/RSET statements, SWAP, array elements, ERASE/DIM, DEF FN calls, '
    'temporaries-only expressions, explicit collection, an over-long allocation), on real pcbasic '
    'Sessions whose memory is limited so that 12, 24, 40 or ~60000 bytes are free. States are merged '
    'only when the complete hidden string-memory state is identical. In every state all values and '
    'three FRE readings are compared with a reference that does not use pcbasic.')
LEVEL_NOTE = (
    'Trusted: the reference string semantics written from the GW-BASIC manual, the documented record '
    'sizes in models/varmem.py, Session.execute/evaluate/get_variable. Histories longer than the '
    'bound, other variables/shapes and other memory sizes are not covered.')
TECHNIQUE = ('bounded exhaustive enumeration (BFS, exact de-duplication on the hidden string-space state) '
             'of statement histories on real memory-limited Sessions against a reference dict of bytes '
             'and a free-space formula')
RULE = ('all histories over the statement alphabet up to the depth, per memory configuration; a case '
        'class is (statement, outcome, whether a collection was forced); non-trivial = every class '
        'except a successful literal assignment')
ASSUMPTIONS = [
    'sessions are created with video=\'cga\' (3x cheaper to build; variable memory does not depend '
    'on the video adapter)',
    'internal seam (state key; where a live string is held - string space or program memory): '
    'Scalars._vars, Arrays._buffers/_dims/_base, StringSpace._strings/current/_temp, '
    'DataSegment.var_start/total_memory',
    '"the memory size minus the program, variables" is calibrated by FRE("") of the set-up session, '
    'which holds no string data; array sizes use the documented record layout',
    'a string held in program memory (assigned from a literal in a program line) does not count as '
    'live string-space bytes',
    'a memory failure (error 14 or 7) is accepted whenever the statement needs >= F bytes (sum of '
    'all its string temporaries, direct-mode literals, result and any array it must create): the '
    'exact boundary (need == F) and the choice between error 7 and 14 are left open',
    'after a memory failure all variables keep their values; an erased array that the statement '
    'touched may have been dimensioned 0..10 (all elements empty) before the failure',
    'reference semantics: MID$ statement on an empty string -> Illegal function call; LSET/RSET keep '
    'the length of the target; ERASE of a missing array -> 5; DIM of an existing one -> 10; first '
    'use of an erased array dimensions it 0..10',
]

E_IFC, E_OOM, E_DUP, E_OOSS, E_LONG = 5, 7, 10, 14, 15
MEMFAIL = (E_OOM, E_OOSS)

PROGRAM = [
    b'1 DEF FNS$(X$)=X$+"!":DEF FNT$(B$)=B$+"?":DEF FNN$(N)=STRING$(N,"*"):DEF FNU$(P$,Q$)=P$+Q$:END',
    b'10 A$="a":END',
    b'20 A$="bcdef":END',
    b'30 B$="ghijklmno":END',
    b'40 A$=A$+"x":END',
    b'50 MID$(A$,1)="zz":END',
    b'60 LSET A$=B$:END',
    b'70 RSET B$="q":END',
    b'80 C$(1)="rs":END',
]
SETUP = b'A$="":B$="":P$="":Q$="":X=0:N=0:DIM C$(2)'

# (label, mode, statement / line number)
OPS = [
    ('lit1-code', 'P', 10),
    ('lit5-code', 'P', 20),
    ('lit9-code', 'P', 30),
    ('append-code', 'P', 40),
    ('midset', 'P', 50),
    ('lset', 'P', 60),
    ('rset', 'P', 70),
    ('elem-lit-code', 'P', 80),
    ('lit2-heap', 'D', b'A$="pq"'),
    ('copy', 'D', b'A$=B$'),
    ('concat-elem', 'D', b'A$=B$+C$(1)'),
    ('midfn', 'D', b'A$=MID$(A$,2)'),
    ('swap', 'D', b'SWAP A$,B$'),
    ('swap-elem', 'D', b'SWAP A$,C$(1)'),
    ('elem-concat', 'D', b'C$(0)=A$+B$'),
    ('elem-string9', 'D', b'C$(2)=STRING$(9,"k")'),
    ('erase', 'D', b'ERASE C$'),
    ('dim', 'D', b'DIM C$(2)'),
    ('empty', 'D', b'A$=""'),
    ('temps-only', 'D', b'X=LEN(A$+B$+A$)'),
    ('collect', 'D', b'X=FRE("")'),
    ('fn-own-param', 'D', b'A$=FNS$(B$)'),
    ('fn-param-live', 'D', b'A$=FNT$(A$)'),
    ('too-long', 'D', b'A$=STRING$(200,"z")'),
    # a collection in the middle of an expression whose value is a direct variable reference
    ('copy-elem-gc', 'D', b'A$=C$(FRE("")*0+1)'),
    ('elem0-chr', 'D', b'C$(0)=CHR$(65)'),
    ('copy-elem0-gc', 'D', b'B$=C$(FRE("")*0)'),
    # an expression abandoned by an error while it holds string temporaries
    ('expr-error', 'D', b'A$=B$+C$(1)+CHR$(300)'),
    # a user function without string parameter called while the expression holds a temporary
    ('fn-num-after-temp', 'D', b'A$=LEFT$(B$,2)+FNN$(2)'),
    # two string arguments that are temporaries: a collection while the second is evaluated
    ('fn-two-temps', 'D', b'A$=FNU$(B$+"",C$(1)+"")'),
    # a temporary pending on the outer expression while a bracketed one allocates
    ('nested-concat', 'D', b'A$=(B$+"")+(C$(1)+B$)'),
    # MID$ with a temporary as the new value: a target held in program text is copied first (room is made by a collection)
    ('midset-temp', 'D', b'MID$(A$,2)=B$+"uv"'),
    # built-in string functions whose first argument is a temporary while a later argument allocates
    ('left-temp-arg', 'D', b'A$=LEFT$(B$+C$(1),LEN(B$+"pq"))'),
    ('instr-temps', 'D', b'X=INSTR(B$+"u",C$(1)+"v")'),
    # two concatenations joined by a comparison: the left result waits while the right one allocates
    ('cmp-two-temps', 'D', b'IF B$+"uv"<C$(1)+B$ THEN A$="t" ELSE A$="f"'),
]
LABELS = [o[0] for o in OPS]
QUICK_OPS = [LABELS.index(l) for l in (
    'lit5-code', 'lit9-code', 'append-code', 'midset', 'lset', 'copy', 'concat-elem', 'swap', 'swap-elem',
    'elem-concat', 'erase', 'temps-only', 'fn-param-live', 'too-long', 'copy-elem-gc', 'elem0-chr', 'copy-elem0-gc',
    'rset', 'expr-error', 'fn-num-after-temp', 'fn-two-temps', 'nested-concat', 'midset-temp', 'left-temp-arg', 'cmp-two-temps')]

# memory configurations: free bytes of the set-up session
CONFIGS = {'f12': 12, 'f24': 24, 'f40': 40, 'big': None}


def _H():
    from mc import harness
    return harness


# ---------------------------------------------------------------------------
# reference

class Ref(object):
    __slots__ = ('a', 'b', 'c')

    def __init__(self):
        self.a = b''
        self.b = b''
        self.c = [b'', b'', b'']      # None when erased; 3 or 11 elements

    def copy(self):
        r = Ref()
        r.a, r.b = self.a, self.b
        r.c = None if self.c is None else list(self.c)
        return r

    def array_bytes(self):
        if self.c is None:
            return 0
        return VM.array_record_size('C$', (len(self.c) - 1,), 0)


AUTO = VM.array_record_size('C$', (10,), 0)


def ref_step(ref, label):
    """-> (expected non-memory error or None, new Ref, bytes needed).  `needed` is the sum of
    every string temporary, direct-mode literal and result plus any array to be created."""
    n = ref.copy()
    a, b = ref.a, ref.b
    need = 0

    def elems():
        # touching C$(i): auto-dimension if erased
        nonlocal need
        if n.c is None:
            n.c = [b''] * 11
            need += AUTO
        return n.c

    if label == 'lit1-code':
        n.a = b'a'
    elif label == 'lit5-code':
        n.a = b'bcdef'
    elif label == 'lit9-code':
        n.b = b'ghijklmno'
    elif label == 'append-code':
        n.a = a + b'x'
        need = len(n.a)
    elif label == 'midset':
        if not a:
            return E_IFC, ref, 0
        n.a = (b'zz'[:len(a)] + a[2:])[:len(a)]
        need = len(a)
    elif label == 'left-temp-arg':
        c1 = elems()[1]
        t = b + c1
        n.a = t[:len(b) + 2]
        need += len(t) + len(b) + 2 + 2 + len(n.a)
    elif label == 'cmp-two-temps':
        c1 = elems()[1]
        n.a = b't' if (b + b'uv') < (c1 + b) else b'f'
        need += len(b) + 2 + 2 + len(c1) + len(b) + 1
    elif label == 'instr-temps':
        c1 = elems()[1]
        need += len(b) + 1 + 1 + len(c1) + 1 + 1
    elif label == 'midset-temp':
        need = len(b) + 2 + 2
        if len(a) < 2:
            return E_IFC, ref, need
        n.a = (a[:1] + (b + b'uv')[:len(a) - 1] + a[1 + len(b) + 2:])[:len(a)]
        need += len(a)
    elif label == 'lset':
        n.a = b[:len(a)].ljust(len(a))
        need = len(a)
    elif label == 'rset':
        n.b = b'q'[:len(b)].rjust(len(b))
        need = len(b)
    elif label == 'elem-lit-code':
        elems()[1] = b'rs'
    elif label == 'lit2-heap':
        n.a = b'pq'
        need = 2
    elif label == 'copy':
        n.a = b
        need = len(b)
    elif label == 'concat-elem':
        n.a = b + elems()[1]
        need += len(n.a)
    elif label == 'midfn':
        n.a = a[1:]
        need = len(n.a)
    elif label == 'swap':
        n.a, n.b = b, a
    elif label == 'swap-elem':
        c = elems()
        n.a, c[1] = c[1], a
    elif label == 'elem-concat':
        elems()[0] = a + b
        need += len(a + b)
    elif label == 'elem-string9':
        elems()[2] = b'k' * 9
        need += 1 + 9
    elif label == 'copy-elem-gc':
        n.a = elems()[1]
        need += len(n.a)
    elif label == 'elem0-chr':
        elems()[0] = b'A'
        need += 1
    elif label == 'copy-elem0-gc':
        n.b = elems()[0]
        need += len(n.b)
    elif label == 'erase':
        if ref.c is None:
            return E_IFC, ref, 0
        n.c = None
    elif label == 'dim':
        if ref.c is not None:
            return E_DUP, ref, 0
        n.c = [b''] * 3
        need = n.array_bytes()
    elif label == 'empty':
        n.a = b''
    elif label == 'temps-only':
        need = len(a + b) + len(a + b + a)
        if len(a + b + a) > 255:
            return E_LONG, ref, need
    elif label == 'collect':
        pass
    elif label == 'fn-own-param':
        n.a = b + b'!'
        need = len(b) + len(n.a)
    elif label == 'fn-param-live':
        n.a = a + b'?'
        need = len(a) + len(n.a)
    elif label == 'too-long':
        n.a = b'z' * 200
        need = 1 + 200
    elif label == 'expr-error':
        c1 = elems()[1]
        need += len(b + c1)
        return E_IFC, (n if n.c is not ref.c else ref), need
    elif label == 'fn-two-temps':
        c1 = elems()[1]
        n.a = b + c1
        need += 2 * (len(b) + len(c1)) + 2 * len(n.a)
    elif label == 'nested-concat':
        c1 = elems()[1]
        n.a = b + c1 + b
        need += len(b) + len(c1 + b) + 2 * len(n.a)
    elif label == 'fn-num-after-temp':
        n.a = b[:2] + b'**'
        need = len(b[:2]) + 2 + len(n.a)
    else:
        raise CheckError('unknown op %r' % label)
    if len(n.a) > 255 or len(n.b) > 255:
        return E_LONG, ref, need
    return None, n, need


# ---------------------------------------------------------------------------
# real sessions

_N_CACHE = {}


def _enter(s):
    H = _H()
    for line in PROGRAM:
        r = H.run(s, line)
        if r.exc is not None or r.err is not None:
            raise CheckError('cannot enter %r: %r' % (line, r))


def _setup(s, n):
    H = _H()
    for stmt in (b'CLEAR ,%d' % n, b'GOTO 1', SETUP):
        r = H.run(s, stmt)
        if r.exc is not None or r.err is not None:
            raise CheckError('set-up statement %r failed: %r' % (stmt, r))


def memory_size_for(free):
    """CLEAR ,n giving exactly `free` free bytes after set-up (calibrated once per process)."""
    if free is None:
        return 65000
    if free not in _N_CACHE:
        H = _H()
        s = H.new_session(video='cga')
        _enter(s)
        _setup(s, 30000)
        f = s.evaluate(b'FRE("")')
        n = 30000 - (int(f) - free)
        s2 = H.new_session(video='cga')
        _enter(s2)
        _setup(s2, n)
        if s2.evaluate(b'FRE("")') != free:
            raise CheckError('cannot calibrate memory size for %d free bytes' % free)
        _N_CACHE[free] = n
    return _N_CACHE[free]


def new_session(cfg):
    H = _H()
    s = H.new_session(video='cga')
    _enter(s)
    _setup(s, memory_size_for(CONFIGS[cfg]))
    return s


def root_free(cfg):
    if CONFIGS[cfg] is not None:
        return CONFIGS[cfg]
    if 'big' not in _N_CACHE:
        _N_CACHE['big'] = int(new_session(cfg).evaluate(b'FRE("")'))
    return _N_CACHE['big']


def hidden_key(s):
    try:
        m = s._impl.memory
        sc, ar, st = m.scalars, m.arrays, m.strings
        return (
            tuple(sorted((n, bytes(v)) for n, v in sc._vars.items())),
            tuple(sorted((n, tuple(d)) for n, d in ar._dims.items())),
            tuple(sorted((n, bytes(b)) for n, b in ar._buffers.items())),
            ar._base, ar._base_set_by_dim,
            tuple(sorted((a, bytes(v)) for a, v in st._strings.items())),
            st.current, st._temp,
        )
    except AttributeError as e:
        raise CheckError('internal seam missing: %r' % (e,))


def _current(s):
    try:
        return s._impl.memory.strings.current
    except AttributeError as e:
        raise CheckError('internal seam missing: %r' % (e,))


def heap_bytes(s, ref):
    """Sum of the lengths of the live strings of the reference that are held in string space
    (location read from the 3-byte string pointers: internal seam)."""
    try:
        m = s._impl.memory
        lo = m.var_start()
        ptrs = [(ref.a, bytes(m.scalars._vars[b'A$'])), (ref.b, bytes(m.scalars._vars[b'B$']))]
        if ref.c is not None:
            buf = bytes(m.arrays._buffers[b'C$'])
            if len(buf) != 3 * len(ref.c):
                return None
            ptrs += [(v, buf[3 * i:3 * i + 3]) for i, v in enumerate(ref.c)]
    except (AttributeError, KeyError) as e:
        raise CheckError('internal seam missing: %r' % (e,))
    total = 0
    for value, p in ptrs:
        if value:
            _, addr = struct.unpack('<BH', p)
            if addr >= lo:
                total += len(value)
    return total


def expected_free(cfg, s, ref):
    hb = heap_bytes(s, ref)
    if hb is None:
        return None
    return root_free(cfg) + VM.array_record_size('C$', (2,), 0) - ref.array_bytes() - hb


def read_values(s, ref, viols, label, phase):
    """Compare every live value with the reference -> True if all equal."""
    H = _H()
    ok = True

    def fail(key, what):
        nonlocal ok
        ok = False
        viols.append((key, what))

    def get(name):
        try:
            return True, s.get_variable(name)
        except Exception as e:
            from mc import core
            if not core.from_pcbasic(e):
                raise
            fail('value/host-exception/%s/%s/%s' % (H.exc_key(e), phase, label),
                 'reading %s raised %r' % (name, e))
            return False, None

    for name, exp in (('A$', ref.a), ('B$', ref.b)):
        g, v = get(name)
        if g and v != exp:
            fail('value/%s/%s/%s' % (name, phase, label), '%s=%r, reference %r' % (name, v, exp))
    g, v = get('C$()')
    if g:
        exp = [] if ref.c is None else ref.c
        if v != exp:
            fail('value/C$()/%s/%s' % (phase, label), 'C$()=%r, reference %r' % (v, exp))
    return ok


def evaluate(s, expr, viols, label):
    try:
        return True, s.evaluate(expr)
    except Exception as e:
        from mc import core
        if not core.from_pcbasic(e):
            raise
        viols.append(('fre/host-exception/%s/%s' % (_H().exc_key(e), label),
                      '%r raised %r' % (expr, e)))
        return False, None


def check_state(cfg, s, ref, viols, label):
    """All state invariants (destructive: forces a collection).  -> True if state is sane."""
    if not read_values(s, ref, viols, label, 'after-op'):
        return False
    F = expected_free(cfg, s, ref)
    if F is None:
        viols.append(('layout/array-size/%s' % label, 'C$ buffer does not have the reference size'))
        return False
    if F < 0:
        viols.append(('fre/overcommitted/%s' % label,
                      'live strings and arrays need %d bytes more than the memory size' % -F))
        return False
    ok, f0 = evaluate(s, b'FRE(0)', viols, label)
    if not ok:
        return False
    ok, f1 = evaluate(s, b'FRE("")', viols, label)
    if not ok:
        return False
    ok, f2 = evaluate(s, b'FRE(0)', viols, label)
    if not ok:
        return False
    sane = True
    if f1 != F or f2 != F:
        viols.append(('fre/after-collection/%s' % label,
                      'FRE("")=%r then FRE(0)=%r, expected %d (A$=%r B$=%r C$=%r)' % (
                          f1, f2, F, ref.a, ref.b, ref.c)))
        sane = False
    if f0 is None or not 0 <= f0 <= F:
        viols.append(('fre/before-collection/%s' % label,
                      'FRE(0)=%r before the collection, must be within 0..%d' % (f0, F)))
        sane = False
    if not read_values(s, ref, viols, label, 'after-collection'):
        sane = False
    return sane


def run_stmt(s, op):
    H = _H()
    _, mode, arg = op
    return H.run(s, (b'GOTO %d' % arg) if mode == 'P' else arg)


def step(cfg, s, ref, opi, viols):
    """Apply op to session + reference.  -> (new ref or None if diverged, outcome label)."""
    H = _H()
    op = OPS[opi]
    label = op[0]
    exp_err, new_ref, need = ref_step(ref, label)
    F = expected_free(cfg, s, ref)
    before = _current(s)            # strings.current: to label forced collections
    r = run_stmt(s, op)
    if r.exc is not None:
        viols.append(('statement/host-exception/%s/%s' % (H.exc_key(r.exc), label),
                      '%r raised %r' % (op[2], r.exc)))
        return None, 'host-exception'
    if r.err in MEMFAIL:
        if F is not None and need < F:
            viols.append(('oom/spurious/%s' % label,
                          '%s failed with error %d although it needs at most %d bytes and %d are free '
                          'after a collection (A$=%r B$=%r)' % (label, r.err, need, F, ref.a, ref.b)))
            return None, 'spurious-oom'
        if ref.c is None and new_ref.c is not None:
            # the statement had to dimension C$(0..10) first: that part may have succeeded
            try:
                now = s.get_variable('C$()')
            except Exception as e:
                from mc import core
                if not core.from_pcbasic(e):
                    raise
                now = None
            if now:
                ref = ref.copy()
                ref.c = [b''] * 11
                return ref, 'memfail%d-after-autodim' % r.err
        return ref, 'memfail%d' % r.err
    if r.err != exp_err:
        viols.append(('semantics/%s/got-%s-expected-%s' % (label, r.err, exp_err),
                      '%s gave error %r, reference semantics expect %r' % (label, r.err, exp_err)))
        return None, 'diverged'
    collected = _current(s) > before
    return new_ref, (
        ('ok' if exp_err is None else 'err%d' % exp_err) + ('+gc' if collected else ''))


def rebuild(hist):
    cfg = hist[0]
    s = new_session(cfg)
    ref = Ref()
    junk = []
    for i in hist[1:]:
        ref = step(cfg, s, ref, i, junk)[0]
        if ref is None:
            raise CheckError('history %r no longer replays: %r' % (hist, junk))
    return s, ref


def _expand(hist, ops):
    cfg = hist[0]
    out = []
    for i in ops:
        s, ref = rebuild(hist)
        viols = []
        new_ref, outcome = step(cfg, s, ref, i, viols)
        key = None
        label = LABELS[i]
        if new_ref is not None:
            key = (hidden_key(s), new_ref.a, new_ref.b,
                   None if new_ref.c is None else tuple(new_ref.c))
            if not check_state(cfg, s, new_ref, viols, label):
                key = None
        out.append((i, key, viols, '%s:%s' % (label, outcome)))
    return out


def expand_quick(hist):
    return _expand(hist, QUICK_OPS)


def expand_all(hist):
    return _expand(hist, range(len(OPS)))


def work_bfs(shard):
    cfg, depth, which = shard
    part = Partial()
    bfs.explore(expand_quick if which == 'quick' else expand_all, [(cfg,)], depth, part,
                label=cfg)
    return part


# ---------------------------------------------------------------------------
# leg after-failure: statements that fail part-way must leave the string memory fully usable

# (statement, kind): every one of them fails (the error code is not this leg's subject, only that it is a BASIC error)
FAILING = [
    b'CHAIN "NOSUCH"', b'CHAIN "NOSUCH",,ALL', b'CHAIN MERGE "NOSUCH"', b'CHAIN "THERE",999', b'CHAIN "THERE",999,ALL',
    b'CHAIN MERGE "THERE",999', b'CHAIN MERGE "THERE",,DELETE 7-8', b'LOAD "NOSUCH"', b'RUN "NOSUCH"', b'MERGE "NOSUCH"',
    b'RUN 999', b'A$=STRING$(300,"x")', b'A$=B$+B$+CHR$(300)', b'OPEN "NOSUCH" FOR INPUT AS 1', b'DIM Z$(30000)',
    b'ERASE NOPE$', b'A$=FNQ$(1)', b'SWAP A$,X', b'LSET A$=5', b'MID$(A$,0)="a"', b'A$=FNS$(B$+CHR$(300))',
    b'C$(3)=B$+"k"', b'A$=LEFT$(B$+B$,-1)', b'PRINT #9,B$+B$', b'FIELD #1,9 AS A$', b'A$=SPACE$(255)+B$',
    b'COMMON A$:CHAIN "NOSUCH"', b'INPUT #3,A$', b'LINE INPUT #3,B$', b'READ A$',
]
AF_CONTEXTS = ('direct', 'trapped')
AF_MEMORY = ('big', 'f600')


def after_failure_case(part, path, fi, ctxname, mem):
    H = _H()
    stmt = FAILING[fi]
    case = {'statement': stmt.decode('latin-1'), 'context': ctxname, 'memory': mem, 'fi': fi}
    s = H.new_session(video='cga', devices={'C:': path}, current_device='C:')
    try:
        _enter(s)
        if mem == 'big':
            _setup(s, 65000)
            rounds, size = 500, 150
        else:
            # about 600 bytes free: every few assignments need a collection
            _setup(s, 30000)
            f = int(s.evaluate(b'FRE("")'))
            _setup(s, 30000 - (f - 600))
            rounds, size = 24, 100
        for pre in (b'B$="gh"+"ij":A$=B$+"k"', ):
            r = H.run(s, pre)
            if r.exc is not None or r.err is not None:
                raise CheckError('set-up %r failed: %r' % (pre, r))
        if ctxname == 'direct':
            r = H.run(s, stmt)
        else:
            # from a program line, under an error trap, the program goes on after it
            for l in (b'900 ON ERROR GOTO 950', b'910 ' + stmt, b'920 PRINT "next":END', b'950 PRINT "trap";ERR:RESUME 920'):
                r = H.run(s, l)
                if r.exc is not None or r.err is not None:
                    raise CheckError('cannot enter %r: %r' % (l, r))
            r = H.run(s, b'GOTO 900')
        part.n += 1
        part.traces += 1
        if r.exc is not None:
            part.violation('after-failure/host-exception/%s' % H.exc_key(r.exc), '%r raised %r' % (stmt, r.exc), case)
            return
        failed = r.err is not None or b'trap' in r.out
        part.classes.add('after-failure/%s/%s/%s' % (ctxname, mem, 'failed' if failed else 'no-error'))
        # churn: many times the free space goes through B$, so collections must happen and must find the garbage
        churn = b'FOR I=1 TO %d:B$=STRING$(%d,"x")+"y":NEXT' % (rounds, size)
        frees = []
        for rnd in (1, 2):
            r = H.run(s, b'ON ERROR GOTO 0:' + churn)
            if r.exc is not None:
                part.violation('after-failure/host-exception/%s' % H.exc_key(r.exc), 'after %r, %r raised %r' % (stmt, churn, r.exc), case)
                return
            if r.err is not None:
                part.violation('after-failure/%s/strings-unusable/error-%s' % (stmt.split(b' ')[0].split(b'=')[0].decode('latin-1'), r.err),
                               'after the failed %r (%s, %s): %r gives error %s although each round needs %d bytes and the '
                               'rest is garbage' % (stmt, ctxname, mem, churn, r.err, size + 1), case)
                return
            got = s.get_variable('B$')
            if got != b'x' * size + b'y':
                part.violation('after-failure/value-wrong', 'after %r and the churn B$ reads %r...' % (stmt, got[:20]), case)
                return
            frees.append(s.evaluate(b'FRE("")'))
        if frees[0] != frees[1]:
            part.violation('after-failure/free-space-drifts', 'after %r: FRE("") = %r after one churn, %r after two' % (
                stmt, frees[0], frees[1]), case)
    finally:
        try:
            s.close()
        except Exception:
            pass


def work_after_failure(shard):
    H = _H()
    part = Partial()
    with H.Scratch() as path:
        with open(__import__('os').path.join(path, 'THERE.BAS'), 'wb') as f:
            f.write(b'10 PRINT "there"\r\n20 END\r\n\x1a')
        for fi, ctxname, mem in shard:
            after_failure_case(part, path, fi, ctxname, mem)
    part.sample({'statement': FAILING[shard[0][0]].decode('latin-1'), 'context': shard[0][1], 'memory': shard[0][2]})
    return part


def legs(ctx):
    from mc.core import chunked
    af = [(fi, c, m) for fi in range(len(FAILING)) for c in AF_CONTEXTS for m in AF_MEMORY]
    return _legs_bfs(ctx) + [
        Leg('after-failure', list(chunked(af, 10)), work_after_failure, exhaustive=True,
            bound='%d statements that fail part-way (failed CHAIN / LOAD / RUN / MERGE, string expressions abandoned by an error, '
                  'failed DIM / ERASE / FIELD / file statements) x direct / trapped in a program x ~60000 / 600 bytes free: afterwards '
                  'a loop that pushes many times the free space through one variable must run twice without error, the value reads '
                  'back and FRE("") is the same after both runs' % len(FAILING))]


def _legs_bfs(ctx):
    if ctx.quick:
        plan = [('f40', 4, 'quick'), ('f24', 3, 'quick'), ('big', 2, 'all')]
        bound = ('14-statement alphabet: all histories <= 4 with 40 bytes free, <= 3 with 24 bytes '
                 'free; full %d-statement alphabet: all histories <= 2 with ~60000 bytes free' % len(OPS))
    else:
        plan = [('f40', 4, 'all'), ('f24', 4, 'all'), ('f12', 3, 'all'), ('big', 3, 'all'),
                ('f40', 5, 'quick')]
        bound = ('full %d-statement alphabet: all histories <= 4 with 40 and with 24 bytes free, <= 3 '
                 'with 12 and with ~60000 bytes free; 14-statement alphabet: all histories <= 5 with 40 '
                 'bytes free' % len(OPS))
    return [Leg('bfs', plan, work_bfs, exhaustive=True, bound=bound, serial=True)]


def replay(ctx, leg, case):
    part = Partial()
    if leg == 'after-failure':
        return work_after_failure([(case['fi'], case['context'], case['memory'])])
    hist = tuple(case['history'])
    cfg = hist[0]
    s, ref = rebuild(hist[:-1])
    viols = []
    new_ref, _ = step(cfg, s, ref, hist[-1], viols)
    if new_ref is not None:
        check_state(cfg, s, new_ref, viols, LABELS[hist[-1]])
    for k, w in viols:
        part.violation(k, w, case)
    part.n = 1
    return part
