"""
C34 - video memory reflects and controls the screen content.

E1 (domain enumeration on the real memory mappers, reference = models/vram.py):
  peek   : per (adapter, mode, reachable page): EVERY byte address of the page (x every EGA read
           plane) through Memory._get_memory == reference encoding of the observed page
           content; address classes additionally through BASIC  DEF SEG / PEEK.
  poke   : EVERY content-backed address poked once through Memory._set_memory (value and EGA
           map mask are functions of the address): resulting content of ALL pages == reference,
           and the byte reads back on the written planes; address classes x {00,FF,55,A1}
           (x 15 EGA masks) additionally through BASIC  POKE / OUT &H3C5 / OUT &H3CF.
  block  : start in address classes x length classes: _get_memory_block == byte-wise
           _get_memory;  _set_memory_block == byte-at-a-time semantics (reference model for all
           lengths, and the real byte-wise _set_memory on a twin session for short lengths).
  bsave  : BSAVE / BLOAD through BASIC against PEEK / POKE through BASIC on a twin session.
"""
import os
import logging

from mc.core import Leg, Partial, CheckError
from mc import core
from mc import harness as H
from models import vram

PROPERTY = 'C34'
ENGINE = 'E1 domain'
LEVEL = 'model_checking'
LEVEL_TEXT = (
    'Bounded exhaustive enumeration on the real memory mappers: for every adapter/mode/page '
    'reachable through the video window, every byte address is PEEKed (every EGA read plane) and '
    'every content-backed address is POKEd and compared with a reference layout model; block '
    'access is compared with byte access for the full product of ~60-120 start-address classes '
    '(row start/middle/end of the first/last rows of every interlace bank, bank slack, page '
    'boundaries) and 13 length classes (1..page+7) per mode. Not covered: pokes of every value at '
    'every address (4 values at class addresses, 1 value elsewhere), pages outside the A0000-BFFFF window.')
LEVEL_NOTE = (
    'Trusted: the reference layouts in models/vram.py (written from the adapter documentation), the '
    'pattern fill through VideoBuffer.pixels / put_char_attr, page content read from the page buffers.')
TECHNIQUE = ('bounded exhaustive enumeration of addresses, planes, masks and (start, length) block '
             'classes on the real Memory/_MemoryMapper objects against a reference video-memory layout model')
RULE = ('cases = (mode config, page, address[, plane/mask/value]) resp. (mode config, start class, '
        'length class); a case class is (layout kind, banks, start position class, crossing class); '
        'non-trivial = everything except a row-aligned access inside one row')
ASSUMPTIONS = [
    'internal seam: Memory._get_memory/_set_memory/_get_memory_block/_set_memory_block, '
    'VideoBuffer.pixels/_pixels/_rows/put_char_attr, display.pages (content observation and pattern fill)',
    'only pages whose address range lies inside the A0000-BFFFF window that PEEK/POKE/BSAVE treat as '
    'video memory are checked (e.g. Hercules page 1, CGA pages >= 2 are not addressable)',
    'the segment at which a mode is mapped is taken as the adapter documents it (B800 colour, B000 mono '
    'text, A000 EGA); Hercules graphics is accepted at B800 as pcbasic maps it',
    'slack bytes (bank/page padding that backs no pixel or cell): PEEK value and POKE effect are '
    'unspecified; only block == byte-wise is required there',
    'in graphics modes the shadow text buffer cleared under poked pixels is not screen content',
    'EGA SCREEN 10 (mono) and 64k-EGA SCREEN 9 have no documented PEEK/POKE plane semantics: only '
    'block == byte-wise is checked there',
    'Tandy/PCjr SCREEN 6 layout (even byte = attribute bit 0, odd byte = bit 1 of 8 pixels) as documented '
    'in the PCjr technical reference',
]

logging.disable(logging.CRITICAL)

# (id, session kwargs, setup statements, layout name, full reference semantics?)
CONFIGS = []


def _add(cid, kw, setup, layout, full=True):
    CONFIGS.append((cid, kw, setup, layout, full))


for _ad in ('cga', 'ega', 'vga', 'olivetti', 'pcjr', 'tandy'):
    _kw = {'video': _ad}
    if _ad in ('pcjr', 'tandy'):
        _kw['syntax'] = _ad
    _add(_ad + '-t40', _kw, [b'WIDTH 40'], 'text40')
    _add(_ad + '-t80', _kw, [b'WIDTH 80'], 'text80')
    _add(_ad + '-s1', _kw, [b'SCREEN 1'], '320x200x4')
    _add(_ad + '-s2', _kw, [b'SCREEN 2'], '640x200x2')
    if _ad in ('ega', 'vga'):
        _add(_ad + '-s7', _kw, [b'SCREEN 7'], '320x200x16')
        _add(_ad + '-s8', _kw, [b'SCREEN 8'], '640x200x16')
        _add(_ad + '-s9', _kw, [b'SCREEN 9'], '640x350x16')
    if _ad in ('pcjr', 'tandy'):
        _add(_ad + '-s3', _kw, [b'SCREEN 3'], '160x200x16')
        _add(_ad + '-s4', _kw, [b'SCREEN 4'], '320x200x4')
        _add(_ad + '-s5', _kw, [b'SCREEN 5'], '320x200x16pcjr')
        _add(_ad + '-s6', _kw, [b'SCREEN 6'], '640x200x4')
    if _ad == 'olivetti':
        _add(_ad + '-s3', _kw, [b'SCREEN 3'], '640x400x2')
_add('mda-t40', {'video': 'mda', 'monitor': 'mono'}, [b'WIDTH 40'], 'monotext40')
_add('mda-t80', {'video': 'mda', 'monitor': 'mono'}, [b'WIDTH 80'], 'monotext80')
_add('hercules-t80', {'video': 'hercules', 'monitor': 'mono'}, [b'WIDTH 80'], 'monotext80')
_add('hercules-s3', {'video': 'hercules', 'monitor': 'mono'}, [b'SCREEN 3'], '720x348x2')
_add('egamono-t80', {'video': 'ega', 'monitor': 'mono'}, [b'WIDTH 80'], 'monotext80')
_add('egamono-s10', {'video': 'ega', 'monitor': 'mono'}, [b'SCREEN 10'], '640x350x16', False)
_add('ega64k-s9', {'video': 'ega', 'video_memory': 65536}, [b'SCREEN 9'], '640x350x16', False)

CONFIG = {c[0]: c for c in CONFIGS}

# quick tier: configs whose first page is poked at every address (one per layout kind)
QUICK_POKE_ALL = ('cga-t80', 'cga-s1', 'hercules-s3', 'pcjr-s5', 'tandy-s6', 'ega-s7')

QUICK_IDS = [
    'cga-t80', 'cga-t40', 'cga-s1', 'cga-s2', 'ega-s7', 'ega-s9', 'vga-s8', 'mda-t80',
    'hercules-s3', 'olivetti-s3', 'pcjr-s3', 'pcjr-s5', 'tandy-s6', 'tandy-t80', 'egamono-s10',
    'ega64k-s9',
]


# ---------------------------------------------------------------------------------------
# real side

class Real(object):
    """A real session in a given mode with helpers to read/write page content."""

    def __init__(self, cid, apage=None):
        cid, kw, setup, lname, full = CONFIG[cid]
        self.cid = cid
        self.full = full
        self.lay = vram.LAYOUTS[lname]
        self.s = H.new_session(horizon=1 << 30, **kw)
        for st in setup:
            r = H.run(self.s, st)
            if r.err is not None or r.exc is not None:
                raise CheckError('setup %r failed in %s: %r' % (st, cid, r))
        impl = self.s._impl
        self.impl = impl
        self.mem = impl.all_memory
        self.disp = impl.display
        self.num_pages = self.disp.mode.num_pages
        self.pages = self.lay.reachable_pages(self.num_pages)
        lay = self.lay
        if lay.kind == 'text':
            if (self.disp.mode.width, self.disp.mode.height) != (lay.width, lay.height):
                raise CheckError('%s: unexpected text geometry' % cid)
        elif (self.disp.mode.pixel_width, self.disp.mode.pixel_height) != (lay.width, lay.height):
            raise CheckError('%s: unexpected pixel geometry %r' % (cid, self.disp.mode.name))
        if apage:
            # make another page active/visible where the mode allows (variety; ignore IFC)
            H.run(self.s, b'SCREEN ,,%d,%d' % (apage, apage))
            if self.disp.mode.num_pages != self.num_pages:
                raise CheckError('page switch changed mode')

    # content of the real page buffers ------------------------------------------------

    def get_page(self, p):
        page = self.disp.pages[p]
        if self.lay.kind == 'text':
            chars = [bytearray(b''.join(r)) for r in page.get_chars()]
            attrs = [bytearray(page.get_attr(1 + r, 1 + c) for c in range(self.lay.width))
                     for r in range(self.lay.height)]
            return chars, attrs
        return [bytearray(r) for r in page._pixels._rows]

    def same_page(self, p, model_page):
        page = self.disp.pages[p]
        if self.lay.kind == 'text':
            got = self.get_page(p)
            return got[0] == model_page[0] and got[1] == model_page[1]
        return page._pixels._rows == model_page

    def put_page(self, p, model_page):
        """Write model content into the real page (pattern fill / resync)."""
        page = self.disp.pages[p]
        lay = self.lay
        if lay.kind == 'text':
            with page.collect_updates():
                for r in range(lay.height):
                    for c in range(lay.width):
                        page.put_char_attr(1 + r, 1 + c, bytes(model_page[0][r][c:c + 1]),
                                           model_page[1][r][c])
        else:
            from pcbasic.basic.base.bytematrix import ByteMatrix
            page.pixels[0:lay.height, 0:lay.width] = ByteMatrix._create_from_rows(
                [bytearray(r) for r in model_page])
        if not self.same_page(p, model_page):
            raise CheckError('%s: pattern fill did not take on page %d' % (self.cid, p))

    def addr(self, p, off):
        return self.lay.base + p * self.lay.page_size + off

    def set_read_plane(self, q):
        if self.lay.kind == 'planar':
            r = H.run(self.s, b'OUT &H3CF,%d' % q)
            if r.err is not None or r.exc is not None:
                raise CheckError('OUT failed %r' % r)

    def set_mask(self, m):
        if self.lay.kind == 'planar':
            r = H.run(self.s, b'OUT &H3C5,%d' % m)
            if r.err is not None or r.exc is not None:
                raise CheckError('OUT failed %r' % r)

    def basic_peek(self, a):
        seg = (a >> 4) & 0xf800
        off = a - (seg << 4)
        r = H.run(self.s, b'DEF SEG=&H%X' % seg)
        if r.err is not None or r.exc is not None:
            raise CheckError('DEF SEG failed %r' % r)
        return self.s.evaluate(b'PEEK(&H%X)' % off)

    def basic_poke(self, a, v):
        seg = (a >> 4) & 0xf800
        off = a - (seg << 4)
        if v % 2 == 0 and off >= 2:
            # the address written as a fraction that rounds to it (halves away from zero: 8192.5 is offset 8193)
            frac = b'%d.5' % (off - 1) if off % 2 else b'%d.6' % (off - 1)
            return H.run(self.s, b'DEF SEG=&H%X:POKE %s,%d' % (seg, frac, v))
        return H.run(self.s, b'DEF SEG=&H%X:POKE &H%X,%d' % (seg, off, v))


_PATTERN_CACHE = {}


def pattern(lay, lname, p, nplanes=4):
    key = (lname, p, nplanes)
    if key not in _PATTERN_CACHE:
        page = lay.new_page()
        lay.fill_pattern(page, p, nplanes)
        if len(_PATTERN_CACHE) > 40:
            _PATTERN_CACHE.clear()
        _PATTERN_CACHE[key] = page
    return lay.copy_page(_PATTERN_CACHE[key])


def setup_real(cid, apage=None):
    real = Real(cid, apage)
    lname = CONFIG[cid][3]
    model = {}
    for p in range(real.num_pages):
        if p in real.pages or p < 2:
            model[p] = pattern(real.lay, lname, p, 4 if real.full else 2)
            real.put_page(p, model[p])
        else:
            model[p] = real.get_page(p)
    return real, model


def kindname(lay):
    if lay.kind == 'packed':
        return 'packed%dbank' % lay.banks
    if lay.kind == 'tandy6':
        return 'tandy6-4bank'
    return lay.kind


# ---------------------------------------------------------------------------------------
# address classes

def class_offsets(lay):
    """Offsets in a page: start/second/middle/end bytes of rows {0,1,2,3,last} of every
    bank, bank slack, bank and page ends."""
    offs = set()
    if lay.kind in ('packed', 'tandy6'):
        rpb = lay.rows_per_bank
        for b in range(lay.banks):
            base = b * lay.bank_size
            for r in (0, 1, 2, 3, rpb - 2, rpb - 1):
                for c in (0, 1, lay.bpr // 2, lay.bpr // 2 + 1, lay.bpr - 1):
                    offs.add(base + r * lay.bpr + c)
            end = base + rpb * lay.bpr
            offs.update((end, end + 5, base + lay.bank_size - 1))
    else:
        bpr = lay.bpr if lay.kind == 'planar' else lay.width * 2
        for y in (0, 1, 2, 3, lay.height - 2, lay.height - 1):
            for c in (0, 1, bpr // 2, bpr // 2 + 1, bpr - 1):
                offs.add(y * bpr + c)
        end = lay.height * bpr
        offs.update((end, end + 5, lay.page_size - 1))
    return sorted(o for o in offs if 0 <= o < lay.page_size)


def class_lengths(lay, off):
    if lay.kind in ('packed', 'tandy6'):
        bpr = lay.bpr
        bank_left = lay.bank_size - off % lay.bank_size
        unit = lay.bank_size
    else:
        bpr = lay.bpr if lay.kind == 'planar' else lay.width * 2
        bank_left = lay.page_size - off
        unit = lay.page_size
    ls = {1, 2, 3, bpr - 1, bpr, bpr + 1, 2 * bpr + 3, bank_left - 1, bank_left, bank_left + 1,
          bank_left + bpr + 2, unit + 7, lay.page_size, lay.page_size + 7}
    return sorted(l for l in ls if l > 0)


def crossing_class(lay, off, length):
    """Geometry class of the block [off, off+length) relative to page start."""
    end = off + length - 1
    if end >= lay.page_size:
        return 'cross-page'
    if lay.kind in ('packed', 'tandy6'):
        if off // lay.bank_size != end // lay.bank_size:
            return 'cross-bank'
        o, e = off % lay.bank_size, end % lay.bank_size
        content = lay.rows_per_bank * lay.bpr
        bpr = lay.bpr
    else:
        o, e = off, end
        bpr = lay.bpr if lay.kind == 'planar' else lay.width * 2
        content = lay.height * bpr
    if o >= content:
        return 'in-slack'
    if e >= content:
        return 'into-slack'
    if o // bpr == e // bpr:
        return 'in-row'
    return 'multi-row'


def start_class(lay, off):
    if lay.kind in ('packed', 'tandy6'):
        o = off % lay.bank_size
        bpr = lay.bpr
        content = lay.rows_per_bank * bpr
    else:
        o = off
        bpr = lay.bpr if lay.kind == 'planar' else lay.width * 2
        content = lay.height * bpr
    if o >= content:
        return 'slack-start'
    c = o % bpr
    if c == 0:
        return 'row-start'
    if lay.kind == 'tandy6' and c % 2:
        return 'mid-row-odd'
    return 'mid-row'


# ---------------------------------------------------------------------------------------
# leg peek

def work_peek(shard):
    cid, p = shard
    part = Partial()
    real, model = setup_real(cid, apage=p if p < 2 else None)
    lay = real.lay
    if not real.full:
        return part
    mem = real.mem
    kn = kindname(lay)
    mp = model[p]
    for q in lay.planes():
        real.set_read_plane(q)
        for off in range(lay.page_size):
            exp = lay.peek(mp, off, q)
            part.n += 1
            if exp is None:
                part.outcome('slack')
                continue
            ok, got = core.guarded(part, 'peek/' + kn, {'cid': cid, 'page': p, 'off': off, 'plane': q},
                                   mem._get_memory, real.addr(p, off))
            if not ok:
                continue
            if got != exp:
                part.violation(
                    'peek/%s/%s/wrong-byte' % (kn, start_class(lay, off)),
                    '%s page %d offset %#x plane %d: PEEK gives %#x, content encodes %#x' % (
                        cid, p, off, q, got, exp),
                    {'cid': cid, 'page': p, 'off': off, 'plane': q})
            part.outcome('content')
        # the BASIC seam on the address classes
        for off in class_offsets(lay):
            exp = lay.peek(mp, off, q)
            if exp is None:
                continue
            got = real.basic_peek(real.addr(p, off))
            part.n += 1
            part.classes.add('%s/%s/p%s' % (kn, start_class(lay, off), 'N' if p else '0'))
            if got != exp:
                part.violation(
                    'peek-basic/%s/%s/wrong-byte' % (kn, start_class(lay, off)),
                    '%s: DEF SEG/PEEK at %#x (page %d offset %#x plane %d) gives %r, content encodes %#x' % (
                        cid, real.addr(p, off), p, off, q, got, exp),
                    {'cid': cid, 'page': p, 'off': off, 'plane': q})
    # the pattern must be untouched by reading
    for pp in model:
        if not real.same_page(pp, model[pp]):
            part.violation('peek/%s/read-changed-content' % kn,
                           '%s: reading page %d changed page %d' % (cid, p, pp),
                           {'cid': cid, 'page': p})
    part.traces = part.n
    part.sample({'cid': cid, 'page': p})
    return part


# ---------------------------------------------------------------------------------------
# leg poke

MASKS = (0xf, 1, 2, 4, 8, 5, 0xa, 3, 0xc, 7, 0xe, 6, 9, 0xb, 0xd)


def _check_all_pages(part, real, model, kn, what, case, key):
    bad = [pp for pp in sorted(model) if not real.same_page(pp, model[pp])]
    if bad:
        part.violation(key, '%s: content of page(s) %r differs from reference' % (what, bad), case)
        # resync so that one fault is reported once
        for pp in bad:
            model[pp] = real.get_page(pp)
    return not bad


def _poke_one(part, real, model, p, off, val, mask, via_basic, kn):
    lay = real.lay
    cid = real.cid
    mp = model[p]
    case = {'cid': cid, 'page': p, 'off': off, 'val': val, 'mask': mask, 'basic': via_basic}
    a = real.addr(p, off)
    if via_basic:
        r = real.basic_poke(a, val)
        if r.exc is not None:
            part.violation('poke/%s/host-exception/%s' % (kn, H.exc_key(r.exc)), repr(r.exc), case)
            return
        if r.err is not None:
            part.violation('poke/%s/basic-error' % kn, '%s: POKE raised error %r' % (cid, r.err), case)
            return
    else:
        ok, _ = core.guarded(part, 'poke/' + kn, case, real.mem._set_memory, a, val)
        if not ok:
            return
    lay.poke(mp, off, val, mask)
    part.n += 1
    sc = start_class(lay, off)
    if not real.same_page(p, mp):
        part.violation(
            'poke/%s/%s/wrong-content' % (kn, sc),
            '%s page %d offset %#x value %#x mask %#x: page content differs from reference' % (
                cid, p, off, val, mask), case)
        model[p] = real.get_page(p)
        mp = model[p]
    # read back on the written planes
    if lay.kind == 'planar':
        for q in (0, 1, 2, 3):
            if not (mask >> q) & 1:
                continue
            real.set_read_plane(q)
            got = real.mem._get_memory(a)
            if got != val:
                part.violation('poke/%s/readback' % kn,
                               '%s page %d offset %#x mask %#x: wrote %#x, plane %d reads %#x' % (
                                   cid, p, off, mask, val, q, got), case)
    else:
        got = real.mem._get_memory(a)
        if got != val:
            part.violation('poke/%s/%s/readback' % (kn, sc),
                           '%s page %d offset %#x: wrote %#x, reads %#x' % (cid, p, off, val, got), case)


def work_poke(shard):
    """shard = (config id, page, lo, hi, do_classes): every content-backed offset in [lo, hi)
    through the internal seam; if do_classes, the class addresses through BASIC."""
    cid, p, lo, hi, do_classes = shard
    part = Partial()
    real, model = setup_real(cid, apage=p if p < 2 else None)
    if not real.full:
        return part
    lay = real.lay
    kn = kindname(lay)
    planar = lay.kind == 'planar'
    # (1) every content-backed address once, internal seam
    cur_mask = None
    for off in range(lo, hi):
        if lay.locate(off) is None:
            continue
        mask = MASKS[(off // 3) % len(MASKS)] if planar else 0xf
        if planar and mask != cur_mask:
            real.set_mask(mask)
            cur_mask = mask
        val = (off * 37 + 11 + p) & 0xff
        _poke_one(part, real, model, p, off, val, mask, False, kn)
        if off % 512 == 0:
            _check_all_pages(part, real, model, kn, '%s after poke at page %d offset %#x' % (cid, p, off),
                             {'cid': cid, 'page': p, 'off': off, 'val': val, 'mask': mask, 'basic': False},
                             'poke/%s/other-page-changed' % kn)
    _check_all_pages(part, real, model, kn, '%s after poking page %d offsets %#x..%#x' % (cid, p, lo, hi),
                     {'cid': cid, 'page': p, 'off': lo}, 'poke/%s/other-page-changed' % kn)
    # (2) address classes x values (x masks) through BASIC
    for off in (class_offsets(lay) if do_classes else ()):
        if lay.locate(off) is None:
            continue
        for mask in (MASKS if planar else (0xf,)):
            if planar:
                real.set_mask(mask)
            for val in (0x00, 0xff, 0x55, 0xa1):
                _poke_one(part, real, model, p, off, val, mask, True, kn)
                part.classes.add('%s/%s/%s' % (kn, start_class(lay, off), 'p%s' % ('N' if p else '0')))
        _check_all_pages(part, real, model, kn, '%s after BASIC pokes at page %d offset %#x' % (cid, p, off),
                         {'cid': cid, 'page': p, 'off': off}, 'poke/%s/other-page-changed' % kn)
    # public observation of the visible page agrees with what we compared
    if lay.kind != 'text':
        vp = real.disp.vpagenum
        if vp in model:
            rows = real.s.get_pixels()
            if [bytearray(r) for r in rows] != model[vp]:
                part.violation('poke/%s/get_pixels-differs' % kn,
                               '%s: Session.get_pixels() differs from reference after pokes' % cid,
                               {'cid': cid, 'page': p, 'off': lo})
    part.traces = part.n
    part.sample({'cid': cid, 'page': p, 'range': [lo, hi]})
    return part


# ---------------------------------------------------------------------------------------
# leg block

SHORT = 700     # lengths up to this are also done byte-wise on the real twin


def block_cases(lay, pages):
    """(page, offset, length) triples: class offsets on the first and last reachable page x
    class lengths, clipped to the video window."""
    out = []
    plist = sorted(set([pages[0], pages[-1]]))
    for p in plist:
        for off in class_offsets(lay):
            a = lay.base + p * lay.page_size + off
            for ln in class_lengths(lay, off):
                if a + ln > vram.VIDEO_HI:
                    continue
                if a + ln > lay.base + (pages[-1] + 1) * lay.page_size:
                    # would run into pages that do not exist in the window
                    continue
                out.append((p, off, ln))
    return out


def work_block(shard):
    cid, cases = shard
    part = Partial()
    real, model = setup_real(cid)
    lay = real.lay
    kn = kindname(lay)
    mem = real.mem
    planar = lay.kind == 'planar'
    # ---- reads: block == byte-wise (real vs real); state is never changed here
    for q in ((0, 1, 2, 3) if planar else (0,)):
        real.set_read_plane(q)
        img = {}
        for p, off, ln in cases:
            a0 = real.addr(p, off)
            case = {'cid': cid, 'page': p, 'off': off, 'len': ln, 'plane': q, 'op': 'read'}
            ok, got = core.guarded(part, 'block-read/' + kn, case, mem._get_memory_block, a0, ln)
            part.n += 1
            if not ok:
                continue
            exp = bytearray(ln)
            for i in range(ln):
                a = a0 + i
                v = img.get(a)
                if v is None:
                    v = img[a] = mem._get_memory(a)
                exp[i] = v
            sc, cc = (start_class(lay, off), crossing_class(lay, off, ln)) if off >= 0 else ('below-first-page', 'into-first-page')
            part.classes.add('read/%s/%s/%s' % (kn, sc, cc))
            if bytes(got) != bytes(exp):
                bad = [i for i in range(min(len(got), ln)) if got[i] != exp[i]]
                first = bad[0] if bad else min(len(got), ln)
                part.violation(
                    'block-read/%s/%s/%s' % (kn, sc, cc),
                    '%s: block read page %d offset %#x length %d (plane %d): byte %d (address %#x) is %s, '
                    'byte-wise read gives %#x; %d bytes differ, returned length %d' % (
                        cid, p, off, ln, q, first, a0 + first,
                        ('%#x' % got[first]) if first < len(got) else 'missing', exp[first] if first < ln else -1,
                        len(bad), len(got)),
                    case)
                part.outcome('read-mismatch')
            else:
                part.outcome('read-ok')
    # ---- writes: block == byte-at-a-time
    twin = None
    if any(ln <= SHORT for _, _, ln in cases):
        twin, tmodel = setup_real(cid)
    masks = (0xf, 0x5, 0x2) if planar else (0xf,)
    for mask in masks:
        real.set_mask(mask)
        if twin:
            twin.set_mask(mask)
        for k, (p, off, ln) in enumerate(cases):
            a0 = real.addr(p, off)
            data = bytearray(((i * 5 + off + 3 * ln + mask) ^ (i >> 8)) & 0xff for i in range(ln))
            case = {'cid': cid, 'page': p, 'off': off, 'len': ln, 'mask': mask, 'op': 'write'}
            sc, cc = start_class(lay, off), crossing_class(lay, off, ln)
            part.classes.add('write/%s/%s/%s' % (kn, sc, cc))
            ok, _ = core.guarded(part, 'block-write/' + kn, case, mem._set_memory_block, a0, bytearray(data))
            part.n += 1
            # reference: one byte at a time
            lay.poke_block(model, a0, data, mask)
            good = True
            if real.full:
                bad = [pp for pp in sorted(model) if not real.same_page(pp, model[pp])]
                if bad:
                    good = False
                    part.violation(
                        'block-write/%s/%s/%s' % (kn, sc, cc),
                        '%s: block write page %d offset %#x length %d mask %#x: content of page(s) %r differs '
                        'from writing the same bytes one at a time (reference)' % (cid, p, off, ln, mask, bad),
                        case)
            if twin and ln <= SHORT:
                for i in range(ln):
                    ok2, _ = core.guarded(part, 'poke/' + kn, case, twin.mem._set_memory, a0 + i, data[i])
                same = all(real.get_page(pp) == twin.get_page(pp) for pp in range(real.num_pages))
                if not same and good:
                    good = False
                    part.violation(
                        'block-write/%s/%s/%s' % (kn, sc, cc),
                        '%s: block write page %d offset %#x length %d mask %#x differs from byte-wise '
                        '_set_memory on a twin session' % (cid, p, off, ln, mask), case)
                if real.full and not all(twin.same_page(pp, model[pp]) for pp in model):
                    part.violation(
                        'poke/%s/bytewise-differs-from-reference' % kn,
                        '%s: byte-wise writes page %d offset %#x length %d mask %#x differ from reference' % (
                            cid, p, off, ln, mask), case)
                    good = False
                if not real.full:
                    # no reference semantics: the byte-wise twin is the truth
                    for pp in model:
                        model[pp] = twin.get_page(pp)
            elif not real.full:
                # long write in a mode without reference semantics: not checked; follow the real session
                for pp in model:
                    model[pp] = real.get_page(pp)
            part.outcome('write-ok' if good else 'write-mismatch')
            # resync both sessions to the model (after a mismatch, or after a long write the twin skipped)
            try:
                for pp in model:
                    if not real.same_page(pp, model[pp]):
                        real.put_page(pp, model[pp])
                    if twin and not twin.same_page(pp, model[pp]):
                        twin.put_page(pp, model[pp])
            except CheckError as e:
                # the page no longer takes the content it is given: the write before it has left
                # the page in a state a plain pixel assignment cannot overwrite
                part.violation('block-write/%s/page-unusable-afterwards' % kn,
                               '%s: after block write page %d offset %#x length %d mask %#x: %s' % (cid, p, off, ln, mask, e), case)
                break
    part.traces = part.n
    part.sample({'cid': cid, 'cases': [list(c) for c in cases[:2]]})
    return part


# ---------------------------------------------------------------------------------------
# leg bsave: BSAVE / BLOAD through BASIC

def bsave_cases(lay, pages):
    """About 20 (page, off, len) per mode: starts at row start / mid row / last row of a bank,
    lengths short / to bank end+1 / bank+7."""
    offs = class_offsets(lay)
    picks = []
    for i, off in enumerate(offs):
        ls = class_lengths(lay, off)
        # rotate through the length classes so that all are used across starts
        ln = ls[i % len(ls)]
        picks.append((off, ln))
    step = max(1, len(picks) // 20)
    out = []
    for off, ln in picks[::step]:
        p = pages[0]
        a = lay.base + p * lay.page_size + off
        if a + ln <= min(vram.VIDEO_HI, lay.base + (pages[-1] + 1) * lay.page_size) and ln < 0x10000:
            out.append((p, off, ln))
    # blocks that begin below the first page (still inside the A0000-BFFFF window) and run on into it
    if pages[0] == 0 and lay.base - 0x130 >= vram.VIDEO_LO:
        out.append((0, -0x100, 0x160))
        out.append((0, -0x12c, 0x190))
        out.append((0, -1, 3))
    return out


def work_bsave(shard):
    cid, cases = shard
    part = Partial()
    lay = vram.LAYOUTS[CONFIG[cid][3]]
    kn = kindname(lay)
    with H.Scratch() as tmp:
        kw = dict(CONFIG[cid][1])
        kw['devices'] = {'Z': tmp}
        saved = CONFIG[cid]
        CONFIG[cid] = (saved[0], kw, saved[2], saved[3], saved[4])
        try:
            real, model = setup_real(cid)
            twin, tmodel = setup_real(cid)
        finally:
            CONFIG[cid] = saved
        for k, (p, off, ln) in enumerate(cases):
            a0 = real.addr(p, off)
            seg = (a0 >> 4) & 0xf800
            o = a0 - (seg << 4)
            case = {'cid': cid, 'page': p, 'off': off, 'len': ln}
            sc, cc = start_class(lay, off), crossing_class(lay, off, ln)
            part.classes.add('%s/%s/%s' % (kn, sc, cc))
            name = b'F%d.BIN' % k
            r = H.run(real.s, b'DEF SEG=&H%X:BSAVE "%s",&H%X,&H%X' % (seg, name, o, ln))
            part.n += 1
            if r.exc is not None or r.err is not None:
                part.violation('bsave/%s/error' % kn, '%s: BSAVE failed: %r' % (cid, r), case)
                continue
            path = os.path.join(tmp, name.decode())
            with open(path, 'rb') as f:
                raw = f.read()
            # file = FD seg off len, payload, [EOF]; Tandy repeats the header at the end
            body = raw[7:7 + ln]
            H.run(twin.s, b'DEF SEG=&H%X' % seg)
            exp = bytearray(twin.s.evaluate(b'PEEK(&H%X)' % (o + i)) for i in range(ln)) \
                if ln <= 2000 else bytearray(twin.mem._get_memory(a0 + i) for i in range(ln))
            if raw[:1] != b'\xfd' or bytes(body) != bytes(exp):
                bad = [i for i in range(min(len(body), ln)) if body[i] != exp[i]]
                part.violation(
                    'bsave/%s/%s/%s' % (kn, sc, cc),
                    '%s: BSAVE page %d offset %#x length %d: %d payload bytes differ from PEEK (first at %s)' % (
                        cid, p, off, ln, len(bad), bad[:1]), case)
                part.outcome('bsave-mismatch')
            else:
                part.outcome('bsave-ok')
            # BLOAD a modified payload back at the same place; twin POKEs it
            data = bytearray(((i * 11 + off + ln) ^ 0x5a) & 0xff for i in range(ln))
            with open(path, 'wb') as f:
                f.write(raw[:7] + bytes(data) + raw[7 + ln:])
            r = H.run(real.s, b'BLOAD "%s"' % name)
            part.n += 1
            if r.exc is not None or r.err is not None:
                part.violation('bload/%s/error' % kn, '%s: BLOAD failed: %r' % (cid, r), case)
                continue
            if ln <= 300:
                for i in range(ln):
                    H.run(twin.s, b'POKE &H%X,%d' % (o + i, data[i]))
            else:
                for i in range(ln):
                    twin.mem._set_memory(a0 + i, data[i])
            same = all(real.get_page(pp) == twin.get_page(pp) for pp in range(real.num_pages))
            if not same:
                part.violation(
                    'bload/%s/%s/%s' % (kn, sc, cc),
                    '%s: BLOAD page %d offset %#x length %d leaves different content than POKEing the '
                    'same bytes' % (cid, p, off, ln), case)
                part.outcome('bload-mismatch')
                try:
                    for pp in range(real.num_pages):
                        pg = twin.get_page(pp)
                        if real.get_page(pp) != pg:
                            real.put_page(pp, pg)
                except CheckError as e:
                    part.violation('bload/%s/page-unusable-afterwards' % kn,
                                   '%s: after BLOAD page %d offset %#x length %d: %s' % (cid, p, off, ln, e), case)
                    break
            else:
                part.outcome('bload-ok')
            # BLOAD with the offset given explicitly: the image goes to DEF SEG:offset, not where it was saved from
            s0 = seg << 4
            for xo in (0, 3):
                if o == xo or s0 + xo < lay.base or s0 + xo + ln > min(vram.VIDEO_HI, lay.base + real.num_pages * lay.page_size) \
                        or ln > 300:
                    continue
                data2 = bytearray(((i * 7 + off + xo) ^ 0xa5) & 0xff for i in range(ln))
                with open(path, 'wb') as f:
                    f.write(raw[:7] + bytes(data2) + raw[7 + ln:])
                r = H.run(real.s, b'BLOAD "%s",%d' % (name, xo))
                part.n += 1
                if r.exc is not None or r.err is not None:
                    part.violation('bload/%s/explicit-offset/error' % kn, '%s: BLOAD ,%d failed: %r' % (cid, xo, r), case)
                    break
                for i in range(ln):
                    H.run(twin.s, b'POKE &H%X,%d' % (xo + i, data2[i]))
                if not all(real.get_page(pp) == twin.get_page(pp) for pp in range(real.num_pages)):
                    part.violation(
                        'bload/%s/explicit-offset-%d' % (kn, xo),
                        '%s: image saved from offset %#x, BLOAD "%s",%d with DEF SEG=&H%X leaves different content than POKEing the '
                        'same bytes at offset %d' % (cid, o, name.decode(), xo, seg, xo), case)
                    part.outcome('bload-explicit-mismatch')
                    try:
                        for pp in range(real.num_pages):
                            pg = twin.get_page(pp)
                            if real.get_page(pp) != pg:
                                real.put_page(pp, pg)
                    except CheckError as e:
                        part.violation('bload/%s/page-unusable-afterwards' % kn,
                                       '%s: after BLOAD ,%d: %s' % (cid, xo, e), case)
                        break
                else:
                    part.outcome('bload-explicit-ok')
    part.traces = part.n
    part.sample({'cid': cid, 'cases': [list(c) for c in cases[:2]]})
    return part


# ---------------------------------------------------------------------------------------

def _geometry(cid):
    """(layout, reachable pages) without building a session more than once per process."""
    real = Real(cid)
    return real.lay, real.pages


def legs(ctx):
    ids = QUICK_IDS if ctx.quick else [c[0] for c in CONFIGS]
    geo = {cid: _geometry(cid) for cid in ids}
    peek_shards, poke_shards, block_shards, bsave_shards = [], [], [], []
    nblock = 0
    for cid in ids:
        lay, pages = geo[cid]
        full = CONFIG[cid][4]
        if ctx.quick:
            plist = sorted(set([pages[0], pages[-1]]))
        else:
            plist = pages
        if full:
            for p in plist:
                peek_shards.append((cid, p))
            for p in (sorted(set([pages[0], pages[-1]])) if lay.kind == 'planar' or ctx.quick else plist):
                if ctx.quick and not (p == pages[0] and cid in QUICK_POKE_ALL):
                    # quick tier: class addresses only
                    poke_shards.append((cid, p, 0, 0, True))
                    continue
                step = 4096
                for lo in range(0, lay.page_size, step):
                    poke_shards.append((cid, p, lo, min(lo + step, lay.page_size), lo == 0))
        cases = block_cases(lay, pages)
        if ctx.quick:
            # quick tier: every start class, lengths thinned to 1, row+1, to-bank-end+1, bank+7
            keep = []
            for p, off, ln in cases:
                ls = class_lengths(lay, off)
                if ln in (1, ls[min(5, len(ls) - 1)], ls[-4], ls[-3]) and p == pages[0]:
                    keep.append((p, off, ln))
            cases = keep
        nblock += len(cases)
        # balance shards by total bytes
        cases.sort(key=lambda c: -c[2])
        nsh = max(1, min(24, sum(c[2] for c in cases) // 400000 + 1))
        for i in range(nsh):
            sub = sorted(cases[i::nsh])
            if sub:
                block_shards.append((cid, sub))
        bc = bsave_cases(lay, pages)
        if ctx.quick:
            bc = bc[::3]
        bsave_shards.append((cid, bc))
    return [
        Leg('peek', peek_shards, work_peek, exhaustive=True,
            bound='%d mode configs, %s reachable pages: every byte address of the page x every EGA read plane; '
                  'class addresses also through DEF SEG/PEEK' % (len(ids), 'first+last' if ctx.quick else 'all')),
        Leg('poke', poke_shards, work_poke, exhaustive=True,
            bound=('quick: every content-backed address of page 0 of %s' % (QUICK_POKE_ALL,) if ctx.quick else
                   'every content-backed address of every reachable page (EGA: first+last page)') +
                  ' poked once (value, EGA mask = f(address)); class addresses x {00,FF,55,A1} x 15 EGA masks '
                  'through POKE/OUT on %s pages; all pages compared' % ('first+last' if ctx.quick else 'the same')),
        Leg('block', block_shards, work_block, exhaustive=True,
            bound='%d (start class, length class) blocks over %d mode configs, read on every EGA plane, '
                  'written under 3 EGA masks' % (nblock, len(ids))),
        Leg('bsave', bsave_shards, work_bsave, exhaustive=True,
            bound='<= 20 (start, length) per mode through BSAVE/BLOAD vs PEEK/POKE'),
    ]


def replay(ctx, leg, case):
    cid = case['cid']
    if leg == 'peek':
        return work_peek((cid, case['page']))
    if leg == 'poke':
        off = case.get('off', 0)
        return work_poke((cid, case['page'], off, off + 1, bool(case.get('basic', True))))
    if leg == 'block':
        return work_block((cid, [(case['page'], case['off'], case['len'])]))
    if leg == 'bsave':
        return work_bsave((cid, [(case['page'], case['off'], case['len'])]))
    raise CheckError('unknown leg %r' % leg)
