"""
C22 - READ returns DATA items in program order; RESTORE [n]; Out of DATA;
Syntax error reported in the DATA line.

E1 over a bounded layout x script grammar, RUN on the real interpreter and compared
with the list-of-items-with-a-cursor model in models/minibasic.py.
"""
from mc.core import Leg, Partial, CheckError, chunked
from mc.progrun import Runner, judge
from models import minibasic as MB

PROPERTY = 'C22'
ENGINE = 'E1 domain (bounded program grammar)'
LEVEL = 'model_checking'
LEVEL_TEXT = (
    'Leg traverse: every layout of up to 2 (quick) / 3 (thorough) DATA statements with contents from an '
    '11-entry alphabet (numbers, quoted strings with commas and colons, unquoted strings, empty items, '
    'malformed and non-numeric items), on every ordered placement over 4 candidate lines (before, inside '
    'and after the executed code), with and without neighbouring statements / REM and string decoys on the '
    'same line, read to exhaustion by 5 read scripts. Leg restore: every READ/RESTORE/RESTORE n script of up '
    'to 3 (quick) / 4 (thorough) steps over 9 step kinds against every placement of up to 3 DATA statements. '
    'Each run is compared (values printed, Out of DATA, Syntax error and its line) with a cursor model.')
LEVEL_NOTE = 'Trusted: models/minibasic.py (DATA item splitter, cursor), PRINT of small numbers and strings.'
TECHNIQUE = ('bounded exhaustive enumeration of DATA layouts x READ/RESTORE scripts on Session.execute(RUN) '
             'against an independent cursor model')
RULE = ('full product layout x script; a case class is (number of DATA statements, placement pattern, script '
        'shape, final outcome); trivial = a single DATA statement read once')
ASSUMPTIONS = [
    'observation through the public Session (program entry, RUN, captured output)',
    'empty DATA items read as 0 / the null string; blanks before an unquoted item are skipped; '
    'unquoted items are generated without trailing blanks',
    'unspecified: a quoted item followed by junk ("x"y): anything accepted from the READ that meets it',
    'unspecified: RESTORE to a missing line: Undefined line number (GW-BASIC) or "first DATA at or after n" '
    '(literal statement) both accepted',
    'numeric items are decimal literals exactly convertible to single precision or short decimals',
    'a READ whose assignment fails (Overflow into an integer variable, Subscript out of range) has not consumed the item: it was '
    'not delivered to any variable and is still the next item (leg failed-assign); the earlier targets of the same READ keep '
    'the items they received',
]

# contents of one DATA statement; {d} is the ordinal of the statement (keeps items distinct)
CONTENTS = [
    ' {d}2',
    ' -{d}.5,"q,{d}"',
    ' u {d},7{d}',
    '',
    ' ,',
    ' {d}2,',
    ' ab{d}',
    ' "a:{d}",{d}E2',
    ' "x"y,{d}',
    '  .{d}, z{d}',
    ' {d},{d}1,{d}2',
    # blanks between an item and the separator that follows it
    ' {d}3 ,"s{d}" ,{d}4  , "t{d}"  ',
]
DATA_LINES = [10, 100, 200, 300]      # 10 is executed (before the script), the others follow END
FILLERS = ['bare', 'between', 'decoy']


def placements(k, nlines=4):
    """All non-decreasing assignments of k statements to line slots."""
    if k == 0:
        return [()]
    out = []

    def rec(prefix, lo):
        if len(prefix) == k:
            out.append(tuple(prefix))
            return
        for i in range(lo, nlines):
            rec(prefix + [i], i)
    rec([], 0)
    return out


def layout_lines(contents, place, filler):
    """-> dict line number -> statements."""
    per = {}
    for j, (ci, slot) in enumerate(zip(contents, place)):
        raw = CONTENTS[ci].replace('{d}', str(j + 1))
        per.setdefault(DATA_LINES[slot], []).append(('data', raw))
    lines = {}
    for n, datas in per.items():
        st = []
        if filler == 'bare':
            st = list(datas)
        elif filler == 'between':
            st = [('let', 'X', ('c', 1))]
            for d in datas:
                st += [d, ('let', 'X', ('c', 2))]
        else:
            # decoys: the word DATA inside a string literal and inside a REM
            st = [('print', 'DATA 9,')] + list(datas) + [('rem', 'DATA 8')]
        lines[n] = st
    return lines


def script_stmts(step):
    k = step[0]
    if k == 'RA':
        return [('read', ['A']), ('printv', 'A')]
    if k == 'RS':
        return [('read', ['A$']), ('print', '['), ('printv', 'A$'), ('print', ']')]
    if k == 'RAB':
        return [('read', ['A', 'B$']), ('printv', 'A'), ('print', '['), ('printv', 'B$'), ('print', ']')]
    if k == 'RBA':
        return [('read', ['B$', 'A']), ('print', '['), ('printv', 'B$'), ('print', ']'), ('printv', 'A')]
    if k == 'RAA':
        return [('read', ['A', 'B']), ('printv', 'A'), ('printv', 'B')]
    if k == 'RAAS':
        return [('read', ['A', 'B', 'C$']), ('printv', 'A'), ('printv', 'B'), ('print', '['), ('printv', 'C$'), ('print', ']')]
    if k == 'RSA':
        return [('read', ['C$', 'A']), ('print', '['), ('printv', 'C$'), ('print', ']'), ('printv', 'A')]
    if k == 'REST':
        return [('restore', step[1])]
    raise CheckError(step)


def program(data_lines, script, multi):
    lines = dict(data_lines)
    steps = []
    for st in script:
        steps.append(script_stmts(st))
    if multi:
        flat = []
        for s in steps:
            flat += s
        # keep lines short
        n = 50
        for grp in chunked(flat, 8):
            lines[n] = grp
            n += 1
    else:
        n = 50
        for s in steps:
            lines[n] = s
            n += 1
    if n > 89:
        raise CheckError('script too long')
    lines[90] = [('print', '.'), ('end',)]
    return sorted(lines.items())


def count_items(contents):
    n = 0
    for j, ci in enumerate(contents):
        n += len(MB.split_data(CONTENTS[ci].replace('{d}', str(j + 1))))
    return n


def traverse_scripts(nitems):
    n = nitems + 1
    return [
        ('all-str', [('RS',)] * n),
        ('all-num', [('RA',)] * n),
        ('alt', [(('RA',) if i % 2 == 0 else ('RS',)) for i in range(n)]),
        ('pairs', [('RAB',)] * ((n + 1) // 2)),
        ('pairs-rev', [('RBA',)] * ((n + 1) // 2)),
    ]


def traverse_cases(kmax):
    out = []
    nc = len(CONTENTS)
    for k in range(0, kmax + 1):
        combos = [[]]
        for _ in range(k):
            combos = [c + [i] for c in combos for i in range(nc)]
        for contents in combos:
            for place in placements(k):
                for filler in FILLERS:
                    if k == 0 and filler != 'bare':
                        continue
                    out.append((tuple(contents), place, filler))
    return out


def final_kind(o):
    f = o.final
    if f[0] == 'err':
        return 'E%d' % f[1]
    return f[0]


def run_one(part, runner, data, script, multi, case, cls):
    lines = program(data, script, multi)
    case = dict(case, program=[t.decode('latin-1') for t in MB.program_text(lines)])

    def keyinfo(outcomes, res):
        o = outcomes[0]
        if (o.final[:2] == ('err', MB.SYNTAX) and res['final'] is not None
                and res['final'][:2] == ('err', MB.SYNTAX) and res['final'][2] != o.final[2]
                and res['trace'] == o.trace):
            # the right error, but attributed to the line where the previous item ended
            return '=data-syntax-error/line-of-previous-item-reported'
        return '%s/exp-%s' % (cls, final_kind(o))
    outcomes, res = judge(part, runner, lines, case, keyinfo)
    part.n += 1
    part.classes.add('%s/%s' % (cls, final_kind(outcomes[0])))
    part.outcome(final_kind(outcomes[0]))
    return case


def work_traverse(shard):
    part = Partial()
    runner = Runner()
    c = None
    for contents, place, filler in shard:
        data = layout_lines(contents, place, filler)
        n = count_items(contents)
        for name, script in traverse_scripts(n):
            multi = (len(contents) + len(place) + len(name)) % 2 == 0
            pat = ''.join('%d' % s for s in place)
            sameline = len(set(place)) < len(place)
            cls = 'k%d/%s/%s/%s' % (len(contents), 'sameline' if sameline else 'lines', filler, name)
            c = run_one(part, runner, data, script, multi,
                        {'leg': 'traverse', 'contents': list(contents), 'place': list(place),
                         'filler': filler, 'script': name, 'multi': multi}, cls)
    if c:
        part.sample(c)
    return part


# restore leg ---------------------------------------------------------------------------

RESTORE_TARGETS = [None, 10, 100, 200, 300, 90, 55]


def restore_alphabet():
    return [('RA',), ('RS',)] + [('REST', t) for t in RESTORE_TARGETS]


def restore_scripts(maxlen):
    alpha = restore_alphabet()
    out = []
    cur = [[]]
    for _ in range(maxlen):
        cur = [c + [a] for c in cur for a in alpha]
        out.extend(cur)
    # a script must read at least once to observe anything
    return [s for s in out if any(x[0] != 'REST' for x in s)]


def restore_layouts():
    out = []
    for k in range(0, 4):
        for place in placements(k):
            out.append(place)
    return out


def work_restore(shard):
    part = Partial()
    runner = Runner()
    c = None
    for place, scripts in [shard]:
        place = tuple(place)
        contents = tuple([10] * len(place))        # ' {d},{d}1,{d}2' : three numbers each
        data = layout_lines(contents, place, 'bare')
        present = set(DATA_LINES[s] for s in place)
        for script in scripts:
            script = [tuple(x) for x in script]
            shape = []
            for st in script:
                if st[0] != 'REST':
                    shape.append('R')
                elif st[1] is None:
                    shape.append('0')
                elif st[1] in present:
                    shape.append('d')
                elif st[1] in (90,) or (st[1] == 10 and False):
                    shape.append('n')
                else:
                    shape.append('m')
            cls = 'k%d/%s' % (len(place), ''.join(shape))
            c = run_one(part, runner, data, script, len(script) % 2 == 0,
                        {'leg': 'restore', 'place': list(place), 'script': [list(x) for x in script]}, cls)
    if c:
        part.sample(c)
    return part


# trapped leg: READs that fail part-way, the program carrying on -------------------------------

TRAP_CONTENTS = [0, 1, 6, 7, 10]     # numbers, number+quoted, non-numeric, quoted+number, three numbers
TRAP_STEPS = [('RA',), ('RS',), ('RAA',), ('RAAS',), ('RSA',), ('REST', None)]


def trapped_cases(quick):
    import itertools
    out = []
    for k in (1, 2):
        for contents in itertools.product(TRAP_CONTENTS, repeat=k):
            for place in ([(1,)] if k == 1 else [(1, 2), (1, 1)]):
                for script in itertools.product(TRAP_STEPS, repeat=2 if quick else 3):
                    if script[0][0] == 'REST' or not any(len(x[0]) > 2 for x in script):
                        continue       # at least one multi-variable READ
                    out.append((contents, place, script))
    return out


def work_trapped(shard):
    part = Partial()
    runner = Runner()
    c = None
    for contents, place, script in shard:
        data = layout_lines(contents, place, 'bare')
        # run the script, then read whatever is left one item at a time
        tail = [('RS',)] * 3
        lines = dict(program(data, list(script) + tail, False))
        for n in list(lines):
            st = lines[n]
            if st and st[0][0] == 'read':
                # the values are printed only if the READ went through: what a variable holds after
                # a READ that failed on it is not specified (GW-BASIC assigns 0 before raising)
                lines[n] = [('let', 'H', ('c', 0)), st[0], ('if', ('rel', '=', ('v', 'H'), ('c', 0)), None)] + st[1:]
        lines[5] = [('onerror', 900)]
        lines[900] = [('print', 'E'), ('printerr',), ('let', 'H', ('c', 1)), ('resume', 'next')]
        lines = sorted(lines.items())
        case = {'leg': 'trapped', 'contents': list(contents), 'place': list(place), 'script': [list(x) for x in script],
                'program': [t.decode('latin-1') for t in MB.program_text(lines)]}
        cls = 'trapped/k%d/%s' % (len(contents), '+'.join(x[0] for x in script))
        outcomes, res = judge(part, runner, lines, case, lambda oc, rs: 'trapped/exp-%s' % final_kind(oc[0]))
        part.n += 1
        part.classes.add('%s/%s' % (cls, 'errs%d' % min(3, outcomes[0].trace.count('E'))))
        part.outcome(final_kind(outcomes[0]))
        c = case
    if c:
        part.sample(c)
    return part


# ---------------------------------------------------------------------------
# READ lists whose later targets depend on earlier ones (READ I,A(I)): items are assigned in list order,
# each target located when its turn comes

DEP_TARGETS = ['I', 'J', 'A(I)', 'A(J)', 'A(I+1)', 'N$(J)', 'A(A(I))', 'B(J,I)']
DEP_DATA = [3, 1, 4, 2, 6, 5, 7, 0]


def dependent_cases(maxlen):
    import itertools
    out = []
    for n in range(2, maxlen + 1):
        for lst in itertools.product(range(len(DEP_TARGETS)), repeat=n):
            # at least one element target behind a scalar target
            if any(DEP_TARGETS[t] in ('I', 'J') for t in lst[:-1]) and any('(' in DEP_TARGETS[t] for t in lst[1:]):
                out.append(lst)
    return out


def _dep_reference(lst):
    """Sequential assignment: returns the expected printed text."""
    I = J = 0
    A = [0] * 10
    B = {}
    N = [''] * 10
    items = list(DEP_DATA)
    for t in lst:
        v = items.pop(0)
        name = DEP_TARGETS[t]
        if name == 'I':
            I = v
        elif name == 'J':
            J = v
        elif name == 'A(I)':
            A[I] = v
        elif name == 'A(J)':
            A[J] = v
        elif name == 'A(I+1)':
            A[I + 1] = v
        elif name == 'N$(J)':
            N[J] = str(v)
        elif name == 'A(A(I))':
            A[A[I]] = v
        elif name == 'B(J,I)':
            B[(J, I)] = v
    out = ' %d  %d /' % (I, J)
    out += ''.join(' %d ' % x for x in A) + '/' + ','.join(N) + '/'
    out += ''.join(' %d ' % B.get((j, i), 0) for j in range(8) for i in range(8))
    return out


def work_dependent(shard):
    from mc import harness as H
    part = Partial()
    s = H.new_session()
    fixed = [
        '10 DIM A(9),N$(9),B(7,7)',
        '20 DATA ' + ','.join(str(d) for d in DEP_DATA),
        '40 PRINT I;J;"/";:FOR K=0 TO 9:PRINT A(K);:NEXT:PRINT "/";:FOR K=0 TO 8:PRINT N$(K);",";:NEXT:PRINT N$(9);"/";',
        '50 FOR K=0 TO 7:FOR L=0 TO 7:PRINT B(K,L);:NEXT:NEXT',
    ]
    for l in fixed:
        r = H.run(s, l.encode('ascii'))
        if r.exc is not None or r.out.strip():
            raise CheckError('line not accepted: %r -> %r' % (l, r))
    for lst in shard:
        stmt = '30 READ ' + ','.join(DEP_TARGETS[t] for t in lst)
        case = {'leg': 'dependent', 'targets': list(lst), 'statement': stmt}
        H.run(s, stmt.encode('ascii'))
        r = H.run(s, b'RUN')
        part.n += 1
        part.traces += 1
        if r.exc is not None:
            part.violation('dependent/host-exception/%s' % H.exc_key(r.exc), '%r raised %r' % (stmt, r.exc), case)
            s = H.new_session()
            for l in fixed:
                H.run(s, l.encode('ascii'))
            continue
        got = r.out.decode('latin-1').replace('\r', '').replace('\n', '')
        want = _dep_reference(lst)
        if r.err is not None:
            part.violation('dependent/error', '%r gave error %r' % (stmt, r.err), case)
        elif got != want:
            part.violation('dependent/assigned-to-wrong-variable', '%r with DATA %r printed %r, expected %r' % (
                stmt, DEP_DATA, got, want), case)
        part.classes.add('dependent/%s' % '+'.join(sorted(set(DEP_TARGETS[t] for t in lst))))
    s.close()
    part.sample({'leg': 'dependent', 'targets': list(shard[0])})
    return part


# ---------------------------------------------------------------------------
# READ whose assignment fails (overflow, bad subscript): the item has not been delivered, so it is still the next item

FA_TARGETS = ['A', 'K%', 'Q(11)', 'B$', 'L%']
FA_DATA = ['1', '40000', '3', '-50000', '5']


def failed_assign_cases(maxstmts):
    import itertools
    lists = [l for n in (1, 2, 3) for l in itertools.product(range(len(FA_TARGETS)), repeat=n)]
    out = []
    for k in range(1, maxstmts + 1):
        for stmts in itertools.product(lists, repeat=k):
            if sum(len(l) for l in stmts) <= (3 if maxstmts == 1 else 4):
                out.append(stmts)
    return out


def _fa_reference(stmts):
    """-> expected printed text: per READ statement the error code or 0, then the values, then the remaining items."""
    items = list(FA_DATA)
    vals = {'A': '0', 'K%': '0', 'L%': '0', 'B$': ''}
    out = []
    for lst in stmts:
        err = 0
        for t in lst:
            name = FA_TARGETS[t]
            if not items:
                err = 4
                break
            v = items[0]
            if name == 'Q(11)':
                err = 9
                break
            if name.endswith('%') and not -32768 <= int(v) <= 32767:
                err = 6
                break
            items.pop(0)
            vals[name] = v
        out.append('E%d' % err)
    out.append('V %s %s %s %s' % (vals['A'], vals['K%'], vals['L%'], vals['B$']))
    out.append('R ' + ' '.join(items))
    return ';'.join(out)


def work_failed_assign(shard):
    from mc import harness as H
    part = Partial()
    s = H.new_session()
    for stmts in shard:
        lines = ['10 ON ERROR GOTO 900', '20 DATA ' + ','.join(FA_DATA)]
        n = 30
        for lst in stmts:
            lines.append('%d E=0:READ %s' % (n, ','.join(FA_TARGETS[t] for t in lst)))
            lines.append('%d PRINT "E";E;";";' % (n + 5))
            n += 10
        lines.append('200 PRINT "V";A;K%;L%;" ";B$;";R";')
        lines.append('210 ON ERROR GOTO 950')
        lines.append('220 READ D#:PRINT D#;:GOTO 220')
        lines.append('900 E=ERR:RESUME NEXT')
        lines.append('950 END')
        case = {'leg': 'failed-assign', 'reads': [list(l) for l in stmts], 'program': lines}
        H.run(s, b'ON ERROR GOTO 0:NEW')
        for l in lines:
            r = H.run(s, l.encode('ascii'))
            if r.exc is not None or r.out.strip():
                raise CheckError('line not accepted: %r -> %r' % (l, r))
        r = H.run(s, b'RUN')
        part.n += 1
        part.traces += 1
        if r.exc is not None:
            part.violation('failed-assign/host-exception/%s' % H.exc_key(r.exc), '%r raised %r' % (lines, r.exc), case)
            s = H.new_session()
            continue
        import re as _re
        got = r.out.decode('latin-1')
        want = _fa_reference(stmts)
        norm = lambda t: _re.findall(r'[A-Za-z$]+|-?[0-9]+|;', t)
        if norm(got) != norm(want):
            part.violation('failed-assign/%s' % ('item-skipped-or-repeated' if norm(got.split('R')[-1]) != norm(want.split('R')[-1]) else 'wrong-values'),
                           'READ statements %r on DATA %s printed %r, expected %r' % (
                               [','.join(FA_TARGETS[t] for t in l) for l in stmts], ','.join(FA_DATA), got, want), case)
        part.classes.add('failed-assign/%s' % '+'.join(sorted(set(x for x in _fa_reference(stmts).split(';') if x.startswith('E')))))
    s.close()
    part.sample({'leg': 'failed-assign', 'reads': [list(l) for l in shard[0]]})
    return part


def legs(ctx):
    fa = failed_assign_cases(1 if ctx.quick else 2)
    return _legs_dep(ctx) + [
        Leg('failed-assign', list(chunked(fa, 40)), work_failed_assign, exhaustive=True,
            bound='%d programs: all sequences of <= %d READ statements of 1..3 targets over %s (overflowing integers, an out-of-range '
                  'subscript) under ON ERROR ... RESUME NEXT on DATA %s: an item whose assignment failed is still the next item; the '
                  'rest is read to exhaustion' % (len(fa), 1 if ctx.quick else 2, FA_TARGETS, ','.join(FA_DATA)))]


def _legs_dep(ctx):
    dep = dependent_cases(3 if ctx.quick else 4)
    return _legs_model(ctx) + [
        Leg('dependent', list(chunked(dep, 60)), work_dependent, exhaustive=True,
            bound='all %d READ lists of 2..%d targets over %s (an element target behind a scalar target) on fixed DATA: '
                  'items are assigned in list order and each target is located when its turn comes' % (
                      len(dep), 3 if ctx.quick else 4, DEP_TARGETS))]


def _legs_model(ctx):
    kmax = 2 if ctx.quick else 3
    tc = traverse_cases(kmax)
    scripts = restore_scripts(3 if ctx.quick else 4)
    layouts = restore_layouts()
    rshards = []
    for place in layouts:
        for grp in chunked(scripts, 150):
            rshards.append((place, grp))
    return [
        Leg('traverse', list(chunked(tc, 40)), work_traverse, exhaustive=True,
            bound='%d layouts (<= %d DATA statements x %d contents x all ordered placements on lines %s x %d '
                  'neighbour patterns) x 5 read-to-exhaustion scripts' % (
                      len(tc), kmax, len(CONTENTS), DATA_LINES, len(FILLERS))),
        Leg('restore', rshards, work_restore, exhaustive=True,
            bound='%d placements of <= 3 DATA statements x all %d scripts of <= %d steps over READ A, READ A$, '
                  'RESTORE, RESTORE n (n in %s: DATA lines, DATA-less line 90, missing lines)' % (
                      len(layouts), len(scripts), 3 if ctx.quick else 4, RESTORE_TARGETS[1:])),
        Leg('trapped', list(chunked(trapped_cases(ctx.quick), 100)), work_trapped, exhaustive=True,
            bound='%d programs under ON ERROR GOTO / RESUME NEXT: 1-2 DATA statements from %d contents x all scripts of '
                  '%d steps over %d step kinds (single and 2-3-variable READs that can fail part-way, RESTORE), '
                  'then the remaining items read one by one' % (
                      len(trapped_cases(ctx.quick)), len(TRAP_CONTENTS), 2 if ctx.quick else 3, len(TRAP_STEPS))),
    ]


def replay(ctx, leg, case):
    part = Partial()
    runner = Runner()
    if case['leg'] == 'failed-assign':
        return work_failed_assign([tuple(tuple(l) for l in case['reads'])])
    if case['leg'] == 'dependent':
        return work_dependent([tuple(case['targets'])])
    if case['leg'] == 'trapped':
        return work_trapped([(tuple(case['contents']), tuple(case['place']), [tuple(x) for x in case['script']])])
    if case['leg'] == 'traverse':
        contents = tuple(case['contents'])
        data = layout_lines(contents, tuple(case['place']), case['filler'])
        script = dict(traverse_scripts(count_items(contents)))[case['script']]
        run_one(part, runner, data, script, case['multi'], case, 'replay')
    else:
        place = tuple(case['place'])
        data = layout_lines(tuple([10] * len(place)), place, 'bare')
        script = [tuple(x) for x in case['script']]
        run_one(part, runner, data, script, len(script) % 2 == 0, case, 'replay')
    return part
