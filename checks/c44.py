"""
C44 - TIME$, DATE$ and ENVIRON read back what was set.

All legs run BASIC statements through a live Session with the wall clock replaced by
harness.VirtualClock (frozen; stepped by the harness).

  time-valid    every hh:mm:ss (thorough: all 86,400; quick: all hh x {00,01,30,59}^2), every hh:mm, every hh;
                after the assignment TIME$ returns the value, and value + k after k virtual seconds
  date-valid    every mm x dd x yyyy (1980..2099) as mm-dd-yyyy / mm/dd/yyyy, and two-digit years;
                calendar-invalid days must raise Illegal function call and change nothing
  time-invalid  all 1-, 2-, 3-component strings over a component alphabet of valid, out-of-range, negative,
  date-invalid  signed, blank, non-numeric and huge components, wrong separator counts, foreign separators
  environ       names x values (every single byte value, '=' in value, long values), read back under every
                capitalisation; two-step histories setting the same name in different case
Oracle: the statement; reference calendar = Python's datetime.date.
"""
import os
import re
import datetime
import itertools

from mc.core import Leg, Partial, CheckError, chunked
from mc import harness as H
from mc import fast

PROPERTY = 'C44'
ENGINE = 'E1 domain'
LEVEL = 'model_checking'
LEVEL_TEXT = (
    'Exhaustive over the whole valid domain in the thorough tier: all 86,400 + 1,440 + 24 valid times and all '
    '12 x 31 x 120 dates in three formats (calendar-invalid days included as must-fail cases), plus the full '
    'product of a 24-string component alphabet for malformed values (1, 2, 3 and 4 components, two separators), '
    'and every single-byte environment value under every capitalisation of 6 names. Each case is executed on a '
    'live Session under a virtual clock and compared with a reference written from the statement.')
LEVEL_NOTE = ('The wall clock is replaced through the pcbasic.basic.clock.datetime module attribute; os.environ is '
              'snapshotted and restored around every ENVIRON case.')
TECHNIQUE = ('exhaustive enumeration of time/date/environment strings on a live Session with a virtual clock '
             'against a reference parser + calendar written from the statement')
RULE = ('a case = one assignment statement + read-back; class = (leg, component kinds, outcome); non-trivial = '
        'everything but a plain two-digit valid value accepted')
ASSUMPTIONS = [
    'valid component = 1 or 2 ASCII digits in range (years: 2 or 4 digits); TIME$ is read back zero-padded '
    'HH:MM:SS and DATE$ as MM-DD-YYYY',
    'unspecified, accepted either as the number or as Illegal function call (but never half-applied): a '
    'component with a leading +, leading/trailing blanks, -0, extra leading zeros, 1- or 3-digit years, and '
    '"." used as separator in TIME$',
    'two-digit years: 80..99 -> 19yy, 00..77 -> 20yy, 78 and 79 invalid (the statement says "in range")',
    'the host environment cannot hold a NUL byte: a value containing NUL may be rejected with a BASIC error; '
    'names that are empty or not ASCII may be rejected with a BASIC error',
    'an empty value may delete the variable (as DOS does); ENVIRON$ then returns the empty string either way',
    'values are read back through Session.get_variable (bytes) to avoid the screen/output codepage path',
]

IFC = 5
SETUP = fast.TOP


###############################################################################
# reference

def comp_kind(s, lo, hi, widths=(1, 2)):
    """-> ('valid', n) | ('unspec', n) | ('invalid', None) for one numeric component."""
    if re.fullmatch(rb'[0-9]+', s) and len(s) in widths:
        n = int(s)
        return ('valid', n) if lo <= n <= hi else ('invalid', None)
    m = re.fullmatch(rb'[ \t]*([+-]?)[ \t]*([0-9]+)[ \t]*', s)
    if m:
        n = int(m.group(2))
        if m.group(1) == b'-':
            n = -n
        if lo <= n <= hi:
            return ('unspec', n)
    return ('invalid', None)


def ref_time(s):
    """-> ('valid'|'unspec'|'invalid', 'HH:MM:SS' or None)."""
    unspec = False
    if b'.' in s:
        unspec = True
        s = s.replace(b'.', b':')
    parts = s.split(b':')
    if not 1 <= len(parts) <= 3:
        return 'invalid', None
    vals = []
    for p, hi in zip(parts, (23, 59, 59)):
        k, n = comp_kind(p, 0, hi)
        if k == 'invalid':
            return 'invalid', None
        if k == 'unspec':
            unspec = True
        vals.append(n)
    vals += [0] * (3 - len(vals))
    return ('unspec' if unspec else 'valid'), b'%02d:%02d:%02d' % tuple(vals)


def ref_year(p):
    if re.fullmatch(rb'[0-9]{4}', p):
        n = int(p)
        return ('valid', n) if 1980 <= n <= 2099 else ('invalid', None)
    if re.fullmatch(rb'[0-9]{2}', p):
        n = int(p)
        if 80 <= n <= 99:
            return 'valid', 1900 + n
        if 0 <= n <= 77:
            return 'valid', 2000 + n
        return 'invalid', None
    m = re.fullmatch(rb'[ \t]*([+-]?)[ \t]*([0-9]+)[ \t]*', p)
    if m:
        n = int(m.group(2))
        if m.group(1) == b'-':
            n = -n
        if 80 <= n <= 99:
            return 'unspec', 1900 + n
        if 0 <= n <= 77:
            return 'unspec', 2000 + n
        if 1980 <= n <= 2099:
            return 'unspec', n
    return 'invalid', None


def ref_date(s):
    """-> ('valid'|'unspec'|'invalid', 'MM-DD-YYYY' or None)."""
    parts = s.replace(b'/', b'-').split(b'-')
    if len(parts) != 3:
        return 'invalid', None
    unspec = False
    km, m = comp_kind(parts[0], 1, 12)
    kd, d = comp_kind(parts[1], 1, 31)
    ky, y = ref_year(parts[2])
    if 'invalid' in (km, kd, ky):
        return 'invalid', None
    try:
        datetime.date(y, m, d)
    except ValueError:
        return 'invalid', None
    unspec = 'unspec' in (km, kd, ky)
    return ('unspec' if unspec else 'valid'), b'%02d-%02d-%04d' % (m, d, y)


def add_seconds(t, k):
    h, m, s = (int(x) for x in t.split(b':'))
    tot = (h * 3600 + m * 60 + s + k) % 86400
    return b'%02d:%02d:%02d' % (tot // 3600, tot // 60 % 60, tot % 60)


###############################################################################
# driving the session

def basic_str(b):
    """BASIC string expression for arbitrary bytes."""
    parts = []
    cur = b''
    for c in b:
        if 0x20 <= c <= 0x7e and c != 0x22:
            cur += bytes([c])
        else:
            if cur:
                parts.append(b'"' + cur + b'"')
                cur = b''
            parts.append(b'CHR$(%d)' % c)
    if cur or not parts:
        parts.append(b'"' + cur + b'"')
    return b'+'.join(parts)


CLOCKS = [
    datetime.datetime(2020, 3, 4, 5, 6, 7),
    datetime.datetime(2024, 2, 29, 23, 59, 58, 999999),
    datetime.datetime(1999, 12, 31, 12, 0, 0, 500000),
]


class Env(object):
    def __init__(self, clock=0):
        fast.no_sleep()
        fast.quiet()
        self.vc = H.VirtualClock(CLOCKS[clock]).install()
        self.s = H.new_session(horizon=100)

    def __enter__(self):
        return self

    def __exit__(self, *a):
        try:
            self.s.close()
        except Exception:
            pass
        self.vc.uninstall()

    def read(self):
        r = H.run(self.s, SETUP + b'PRINT TIME$;"|";DATE$')
        if r.exc is not None:
            raise CheckError('C44: reading TIME$/DATE$ raised %r' % (r.exc,))
        m = re.match(rb'^([^|\r\n]*)\|([^\r\n]*)\r?\n', r.out)
        if not m:
            raise CheckError('C44: cannot parse TIME$/DATE$ output %r' % (r.out,))
        return m.group(1), m.group(2)

    def fresh(self):
        try:
            self.s.close()
        except Exception:
            pass
        self.s = H.new_session(horizon=100)


def _kinds_label(kinds):
    return ''.join(k[0] for k in kinds)


def check_assign(part, e, which, value, elapsed, leg):
    """which: b'TIME$' or b'DATE$'.  One case: assign, read back, advance, read back."""
    case = {'which': which, 'value': value, 'elapsed': elapsed}
    kind, exp = (ref_time if which == b'TIME$' else ref_date)(value)
    before = e.read()
    r = H.run(e.s, SETUP + which + b'=' + basic_str(value))
    part.n += 1
    part.traces += 1
    name = which[:-1].decode().lower()
    if r.exc is not None:
        part.violation('%s/host-exception/%s/%s' % (name, H.exc_key(r.exc), _shape(value, which)),
                       '%s="%s" escaped with %r' % (which.decode(), value.decode('latin-1'), r.exc), case)
        part.outcome('%s:%s:host-exception' % (leg, kind))
        e.fresh()
        return
    after = e.read()
    idx = 0 if which == b'TIME$' else 1
    accepted = r.err is None
    part.outcome('%s:%s:%s' % (leg, kind, 'accepted' if accepted else 'err%s' % r.err))
    part.classes.add('%s/%s/%s/%s' % (
        leg, kind, _class_shape(kind, value, which),
        'accepted' if accepted else 'err%s' % r.err))
    if kind == 'invalid' or (kind == 'unspec' and not accepted):
        if accepted:
            part.violation('%s/invalid-accepted/%s' % (name, _shape(value, which)),
                           '%s="%s" was accepted (now %s), expected Illegal function call' % (
                               which.decode(), value.decode('latin-1'), after[idx].decode()), case)
        elif r.err != IFC:
            part.violation('%s/invalid-wrong-error/%s' % (name, _shape(value, which)),
                           '%s="%s" raised error %s, expected Illegal function call (5)' % (
                               which.decode(), value.decode('latin-1'), r.err), case)
        if after != before and not accepted:
            part.violation('%s/invalid-changed-state/%s' % (name, _shape(value, which)),
                           '%s="%s" failed with error %s but TIME$|DATE$ went %r -> %r' % (
                               which.decode(), value.decode('latin-1'), r.err, before, after), case)
        return
    # valid, or unspecified-and-accepted
    if not accepted:
        part.violation('%s/valid-rejected/%s' % (name, _shape(value, which)),
                       '%s="%s" raised error %s, expected it to be accepted as %s' % (
                           which.decode(), value.decode('latin-1'), r.err, exp.decode()), case)
        return
    if after[idx] != exp:
        part.violation('%s/wrong-readback/%s' % (name, _shape(value, which)),
                       '%s="%s" then %s returns %s, expected %s' % (
                           which.decode(), value.decode('latin-1'), which.decode(), after[idx].decode(),
                           exp.decode()), case)
        return
    if which == b'DATE$' and after[0] != before[0]:
        part.violation('date/time-moved/%s' % _shape(value, which),
                       'DATE$="%s" moved TIME$ from %s to %s with the clock frozen' % (
                           value.decode('latin-1'), before[0].decode(), after[0].decode()), case)
    if which == b'TIME$' and elapsed:
        e.vc.advance(elapsed)
        later = e.read()
        want = add_seconds(exp, elapsed)
        if later[0] != want:
            part.violation('time/elapsed/%s' % _shape(value, which),
                           'TIME$="%s", %d s later TIME$ returns %s, expected %s' % (
                               value.decode('latin-1'), elapsed, later[0].decode(), want.decode()), case)


def _ckind(p):
    if p == b'':
        return 'empty'
    if re.fullmatch(rb'[0-9]+', p):
        return 'huge' if len(p) > 4 else 'range'
    if re.fullmatch(rb'[ \t]*-[ \t]*[0-9]+[ \t]*', p):
        return 'neg'
    if re.fullmatch(rb'[0-9]+(_+[0-9]+)+', p):
        return 'underscore'
    if re.fullmatch(rb'[ \t]+', p):
        return 'blank'
    if re.fullmatch(rb'[ \t]*\+?[ \t]*[0-9]+[ \t]*', p):
        return 'signed-or-padded-range'
    return 'other'


def _shape(value, which):
    """Input class of a value for violation keys: the kinds of the components the reference rejects
    ('structure' = wrong number of components, 'calendar' = no such day, 'none' = nothing rejected)."""
    if which == b'TIME$':
        parts = value.replace(b'.', b':').split(b':')
        if not 1 <= len(parts) <= 3:
            return 'structure'
        bad = [_ckind(p) for p, hi in zip(parts, (23, 59, 59)) if comp_kind(p, 0, hi)[0] == 'invalid']
    else:
        parts = value.replace(b'/', b'-').split(b'-')
        if len(parts) != 3:
            return 'structure'
        bad = [_ckind(p) for p, (lo, hi) in zip(parts[:2], ((1, 12), (1, 31)))
               if comp_kind(p, lo, hi)[0] == 'invalid']
        if ref_year(parts[2])[0] == 'invalid':
            bad.append('year-' + _ckind(parts[2]))
        if not bad and ref_date(value)[0] == 'invalid':
            return 'calendar'
    return '+'.join(sorted(set(bad))) or 'none'


def _class_shape(kind, value, which):
    if kind == 'invalid':
        return _shape(value, which)
    if kind == 'valid':
        return re.sub(rb'[0-9]', b'n', value).decode('latin-1')
    parts = re.split(rb'[:.]' if which == b'TIME$' else rb'[/-]', value)
    odd = set(_ckind(p) for p in parts if not re.fullmatch(rb'[0-9]{1,2}', p))
    if which == b'TIME$' and b'.' in value:
        odd.add('dot-separator')
    return '+'.join(sorted(odd)) or 'none'


ELAPSED = (0, 1, 59, 60, 3599, 3600, 86399)


def work_assign(shard):
    which, clock, leg, values = shard
    part = Partial()
    with Env(clock) as e:
        for i, v in enumerate(values):
            check_assign(part, e, which, v, ELAPSED[(i + len(v)) % len(ELAPSED)], leg)
    part.sample({'which': which, 'value': values[0]})
    return part


###############################################################################
# histories: TIME$ and DATE$ assignments interleaved with elapsed time

HIST_OPS = [
    ('T', b'10:20:30'), ('T', b'01:02:03'), ('D', b'01-02-1990'), ('D', b'12-31-2099'),
    ('T', b'25:00:00'), ('D', b'02-30-2000'), ('A', 3600),
]


def work_history(shard):
    """Every sequence of assignments / clock advances; after each step TIME$ and DATE$ must be
    what was last set (plus the elapsed seconds); an invalid value changes nothing."""
    import itertools as _it
    clock, seqs = shard
    part = Partial()
    for seq in seqs:
        with Env(clock) as e:
            t, d = e.read()
            for k, (op, val) in enumerate(seq):
                case = {'history': [[o, v] for o, v in seq], 'clock': clock}
                part.n += 1
                part.traces += 1
                if op == 'A':
                    e.vc.advance(val)
                    h_, m_, s_ = (int(x) for x in t.split(b':'))
                    if h_ * 3600 + m_ * 60 + s_ + val >= 86400:
                        # the time passes midnight: the date moves on with it
                        mm, dd, yy = (int(x) for x in d.split(b'-'))
                        nd = datetime.date(yy, mm, dd) + datetime.timedelta(days=1)
                        d = b'%02d-%02d-%04d' % (nd.month, nd.day, nd.year)
                    t = add_seconds(t, val)
                    r = None
                else:
                    which = b'TIME$' if op == 'T' else b'DATE$'
                    r = H.run(e.s, SETUP + which + b'=' + basic_str(val))
                    kind, exp = (ref_time if op == 'T' else ref_date)(val)
                    if r.exc is not None:
                        part.violation('history/host-exception/%s' % H.exc_key(r.exc), repr(r.exc), case)
                        break
                    if kind == 'valid':
                        if r.err is not None:
                            part.violation('history/valid-rejected/%s' % op, '%r rejected with %r' % (val, r.err), case)
                            break
                        if op == 'T':
                            t = exp
                        else:
                            d = exp
                    elif r.err != IFC:
                        part.violation('history/invalid-not-ifc/%s' % op, '%r gave %r' % (val, r.err), case)
                        break
                got = e.read()
                part.classes.add('history/%s' % ''.join(o for o, _ in seq[:k + 1]))
                if got != (t, d):
                    what = 'time' if got[0] != t else 'date'
                    part.violation(
                        'history/%s-changed-by-%s' % (what, {'T': 'TIME$-assignment', 'D': 'DATE$-assignment',
                                                          'A': 'elapsed-time'}[op]),
                        'after %r: TIME$|DATE$ = %r, expected %r' % (seq[:k + 1], got, (t, d)), case)
                    break
    part.sample({'history': [list(x) for x in seqs[0]]})
    return part


# many assignments with fractions of a second in between: the time advances by the elapsed time, no more, no less

DRIFT_STEPS = (0.6, 0.25, 0.9)
DRIFT_STMTS = [b'DATE$="06-15-1999"', b'DATE$="02-29-2000"', b'TIME$="10:00:00"', b'X$=TIME$+DATE$']


def work_drift(shard):
    part = Partial()
    for clock, step, si, n in shard:
        case = {'drift': [clock, step, si, n]}
        with Env(clock) as e:
            r = H.run(e.s, SETUP + b'TIME$="10:00:00":DATE$="01-01-1990"')
            if r.exc is not None or r.err is not None:
                raise CheckError('C44 drift: set-up failed: %r' % (r,))
            total = 0.0
            last_time_set = 0.0
            for k in range(n):
                e.vc.advance(step)
                total += step
                r = H.run(e.s, SETUP + DRIFT_STMTS[si])
                if r.exc is not None:
                    part.violation('drift/host-exception/%s' % H.exc_key(r.exc), repr(r.exc), case)
                    break
                if si == 2:
                    last_time_set = total
            part.n += 1
            part.traces += 1
            t, d = e.read()
            h_, m_, s_ = (int(x) for x in t.split(b':'))
            got = h_ * 3600 + m_ * 60 + s_ - 36000
            # the clock started somewhere inside its second: the whole seconds elapsed since 10:00:00 was last set,
            # give or take the one that the starting fraction may complete
            el = total - last_time_set
            want = {int(el), int(el) + 1}
            if got not in want:
                part.violation('drift/time-%s-by-%s' % ('behind' if got < min(want) else 'ahead', DRIFT_STMTS[si].split(b'=')[0].decode()),
                               'after %d times (%.2f s, then %r): TIME$ is %r, %d s after 10:00:00; %.2f s have passed' % (
                                   n, step, DRIFT_STMTS[si], t, got, el), case)
            part.classes.add('drift/%s/%s' % (DRIFT_STMTS[si].split(b'=')[0].decode(), step))
    part.sample({'drift': list(shard[0])})
    return part


def history_seqs(maxlen):
    import itertools as _it
    out = []
    for n in range(2, maxlen + 1):
        out.extend(_it.product(HIST_OPS, repeat=n))
    return out


###############################################################################
# value sets

def time_valid(quick):
    vals = []
    mins = (0, 1, 30, 59) if quick else range(60)
    for h in range(24):
        for m in mins:
            for s in mins:
                vals.append(b'%02d:%02d:%02d' % (h, m, s))
    for h in range(24):
        for m in range(60):
            vals.append(b'%02d:%02d' % (h, m))
        vals.append(b'%02d' % h)
        vals.append(b'%d' % h)
    # unpadded and '.'-separated forms
    for h in (0, 7, 23):
        for m in (0, 5, 59):
            for s in (0, 9, 59):
                vals.append(b'%d:%d:%d' % (h, m, s))
                vals.append(b'%02d.%02d.%02d' % (h, m, s))
            vals.append(b'%d.%d' % (h, m))
    return vals


def date_valid(quick):
    vals = []
    years = (1980, 1981, 1999, 2000, 2024, 2077, 2078, 2098, 2099) if quick else range(1980, 2100)
    for y in years:
        for m in range(1, 13):
            for d in range(1, 32):
                vals.append(b'%02d-%02d-%04d' % (m, d, y))
                if not quick or d in (1, 28, 29, 30, 31):
                    vals.append(b'%02d/%02d/%04d' % (m, d, y))
    for yy in range(100):
        for m, d in ((1, 1), (2, 28), (2, 29), (12, 31)):
            vals.append(b'%02d-%02d-%02d' % (m, d, yy))
            vals.append(b'%d/%d/%02d' % (m, d, yy))
    return vals


BAD = [b'-1', b'-0', b'100', b'', b' ', b'x', b'1x', b'x1', b'+5', b' 5', b'5 ', b'1e1', b'0x1', b'1_0',
       b'\xb2', b'100000000000000000000', b'007', b'-']


def time_invalid(quick):
    good = [b'00', b'7', b'23']
    comps = good + [b'24', b'59', b'60', b'99'] + BAD
    vals = set()
    for n in (1, 2, 3):
        for tup in itertools.product(comps, repeat=n):
            if quick and n == 3 and sum(1 for c in tup if c not in good) > 1:
                continue
            vals.add(b':'.join(tup))
            if n > 1 and (not quick):
                vals.add(b'.'.join(tup))
    for tup in itertools.product([b'00', b'1', b'', b'x'], repeat=4):
        vals.add(b':'.join(tup))
    for v in (b'12-30-00', b'12/30/00', b'12;30;00', b'12,30,00', b'12 30 00', b'12:30:00 ', b' 12:30:00',
              b'12:30:00x', b'noon', b'12:30:00:', b':12:30:00', b'12::00', b'12:.00', b'1.5:00:00', b'1.5',
              b'12:30:00PM', b'\x0012:30:00', b'12:30:00\x00'):
        vals.add(v)
    # strings of the length of hh:mm:ss with one of the two separators replaced
    for sep in (b'-', b'/', b';', b',', b' ', b'x', b'0', b'\x00'):
        vals.add(b'12:30' + sep + b'00')
        vals.add(b'12' + sep + b'30:00')
        vals.add(b'12.30' + sep + b'00')
    vals = sorted(vals)
    # keep only values the reference does not class as plainly valid (those are in time-valid)
    return [v for v in vals if ref_time(v)[0] != 'valid']


def date_invalid(quick):
    goodm = [b'01', b'2', b'12']
    goodd = [b'01', b'9', b'28', b'29', b'30', b'31']
    goody = [b'1980', b'2000', b'2023', b'2024', b'2099', b'80', b'00', b'77', b'99']
    badm = [b'0', b'00', b'13', b'99'] + BAD
    badd = [b'0', b'00', b'32', b'99'] + BAD
    bady = [b'78', b'79', b'100', b'1979', b'2100', b'9999', b'5', b'099', b'02000', b'19 80'] + BAD
    vals = set()
    for m in goodm + badm:
        for d in goodd + badd:
            for y in goody + bady:
                nbad = (m in badm) + (d in badd) + (y in bady)
                if quick and nbad > 1:
                    continue
                vals.add(b'-'.join((m, d, y)))
                if nbad <= 1:
                    vals.add(b'/'.join((m, d, y)))
                    vals.add(m + b'-' + d + b'/' + y)
    for tup in itertools.product([b'01', b'1', b'', b'2000'], repeat=2):
        vals.add(b'-'.join(tup))
    for tup in itertools.product([b'01', b'', b'2000', b'x'], repeat=4):
        vals.add(b'-'.join(tup))
    for v in (b'', b'-', b'--', b'01:02:2000', b'01.02.2000', b'01 02 2000', b'2000-01-02', b'01-02-2000 ',
              b' 01-02-2000', b'01-02-2000x', b'today', b'01-02', b'1/2', b'\x0001-02-2000', b'02-29-1900',
              b'02-29-2100', b'02-29-2023', b'02-29-99', b'04-31-2000', b'06-31-85'):
        vals.add(v)
    return [v for v in sorted(vals) if ref_date(v)[0] != 'valid']


###############################################################################
# ENVIRON

NAMES = [b'A', b'a', b'Ab', b'aBc9', b'A B', b'A_B']
ODD_NAMES = [b'', b'\x82', b'A\x82']


def env_values(quick):
    vals = [b'', b'v', b'V v', b'a=b', b'=', b'==', b'x' * 200, b'Mixed Case Value', b' lead', b'trail ']
    for c in range(256):
        vals.append(bytes([c]))
        if not quick or c < 0x30 or c > 0x7e:
            vals.append(b'x' + bytes([c]) + b'y')
    return vals


def caps(name):
    out = []
    for v in (name, name.upper(), name.lower(), name.swapcase()):
        if v not in out:
            out.append(v)
    return out


def _restore_env(saved):
    for k in list(os.environ.keys()):
        if k not in saved:
            del os.environ[k]
    for k, v in saved.items():
        if os.environ.get(k) != v:
            os.environ[k] = v


def environ_case(part, e, steps, read_name):
    """steps: list of (name, value) set in order; then ENVIRON$ of every capitalisation of read_name
    must give the value of the last step whose name matches case-insensitively."""
    case = {'steps': [[n, v] for n, v in steps], 'read': read_name}
    saved = dict(os.environ)
    try:
        part.n += 1
        part.traces += 1
        expect = None
        tolerated_error = False
        for name, value in steps:
            stmt = b'ENVIRON ' + basic_str(name + b'=' + value)
            r = H.run(e.s, SETUP + stmt)
            vshape = _vshape(value)
            if r.exc is not None:
                part.violation('environ/host-exception/%s/%s' % (H.exc_key(r.exc), vshape),
                               '%s escaped with %r' % (stmt.decode('latin-1'), r.exc), case)
                part.outcome('environ:host-exception')
                e.fresh()
                return
            odd = (not name) or any(c > 0x7e or c < 0x21 and c != 0x20 for c in name) or b'\0' in value
            if r.err is not None:
                if odd:
                    tolerated_error = True
                    part.outcome('environ:odd-rejected-err%s' % r.err)
                    part.classes.add('environ/odd/%s/err%s' % (vshape, r.err))
                    continue
                part.violation('environ/set-rejected/%s' % vshape,
                               '%s raised error %s' % (stmt.decode('latin-1'), r.err), case)
                part.outcome('environ:set-rejected')
                return
            if name.upper() == read_name.upper():
                expect = value
        if expect is None:
            return
        for rn in caps(read_name):
            r = H.run(e.s, SETUP + b'V$=ENVIRON$(' + basic_str(rn) + b')')
            if r.exc is not None:
                part.violation('environ/host-exception/%s/read' % H.exc_key(r.exc),
                               'ENVIRON$(%r) escaped with %r' % (rn, r.exc), case)
                e.fresh()
                return
            if r.err is not None:
                part.violation('environ/read-error/%s' % _vshape(expect),
                               'ENVIRON$("%s") raised error %s after %r' % (rn.decode('latin-1'), r.err, steps),
                               case)
                return
            got = e.s.get_variable('V$')
            if got != expect:
                same_case = rn == steps[-1][0]
                part.violation(
                    'environ/%s/%s' % ('wrong-value' if same_case else 'case-sensitive-or-wrong-value',
                                       _vshape(expect)),
                    'after %s, ENVIRON$("%s") returns %r, expected %r' % (
                        ' : '.join('ENVIRON "%s=%s"' % (n.decode('latin-1'), v.decode('latin-1')[:40])
                                   for n, v in steps),
                        rn.decode('latin-1'), got, expect), case)
                part.outcome('environ:FAIL')
                return
        part.outcome('environ:ok')
        part.classes.add('environ/%s/%s/ok' % ('1step' if len(steps) == 1 else '2step', _vshape(expect)))
    finally:
        _restore_env(saved)


def _vshape(value):
    if value == b'':
        return 'empty'
    if b'\0' in value:
        return 'nul'
    if len(value) > 100:
        return 'long'
    if any(c < 0x20 for c in value):
        return 'control'
    if any(c > 0x7e for c in value):
        return 'highbit'
    if b'=' in value:
        return 'equals'
    return 'plain'


def work_environ(shard):
    part = Partial()
    with Env(0) as e:
        for steps, read_name in shard:
            environ_case(part, e, steps, read_name)
    part.sample({'steps': [[n, v] for n, v in shard[0][0]], 'read': shard[0][1]})
    return part


def environ_cases(quick):
    cases = []
    vals = env_values(quick)
    for name in NAMES:
        for v in vals:
            cases.append(([(name, v)], name))
    for name in ODD_NAMES:
        for v in (b'', b'v', b'\xff'):
            cases.append(([(name, v)], name or b'A'))
    # no '=' at all, '=' first
    for raw in (b'A', b'', b'=', b'=v', b'A B'):
        pass
    # same variable under two capitalisations, and two distinct variables
    for n1, n2 in itertools.product([b'Ab', b'AB', b'ab', b'aB', b'Abc'], repeat=2):
        for v1, v2 in ((b'one', b'two'), (b'one', b''), (b'', b'two')):
            cases.append(([(n1, v1), (n2, v2)], n1))
            cases.append(([(n1, v1), (n2, v2)], n2))
    # longest statement: 255 characters in all
    cases.append(([(b'A', b'z' * 253)], b'A'))
    cases.append(([(b'LONGNAME' * 4, b'y' * 200)], b'longname' * 4))
    return cases


###############################################################################

def legs(ctx):
    out = []
    q = ctx.quick

    def shards(which, leg, values, size):
        size = 100 if q else size
        sh = []
        for i, ch in enumerate(chunked(values, size)):
            sh.append((which, i % len(CLOCKS), leg, ch))
        return sh
    tv = time_valid(q)
    out.append(Leg('time-valid', shards(b'TIME$', 'time-valid', tv, 300), work_assign, exhaustive=True,
                   bound='%d values: %s hh:mm:ss, all 1440 hh:mm, all hh (padded and unpadded), unpadded and '
                         '"."-separated samples; elapsed k in %r; 3 virtual clock settings' % (
                             len(tv), 'all hh x {00,01,30,59}^2' if q else 'all 86400', ELAPSED)))
    dv = date_valid(q)
    out.append(Leg('date-valid', shards(b'DATE$', 'date-valid', dv, 300), work_assign, exhaustive=True,
                   bound='%d values: mm 1-12 x dd 1-31 x yyyy %s as mm-dd-yyyy and mm/dd/yyyy (calendar-invalid '
                         'days must fail), all two-digit years x 4 days x 2 formats' % (
                             len(dv), '{1980,1981,1999,2000,2024,2077,2078,2098,2099}' if q else '1980..2099')))
    ti = time_invalid(q)
    out.append(Leg('time-invalid', shards(b'TIME$', 'time-invalid', ti, 300), work_assign, exhaustive=True,
                   bound='%d malformed/unspecified values: product of a %d-string component alphabet for 1, 2 and '
                         '3 components%s, 4-component strings, foreign separators, trailing garbage' % (
                             len(ti), 7 + len(BAD), ' (quick: at most one bad component in 3-component strings)'
                             if q else ' with ":" and "."')))
    di = date_invalid(q)
    out.append(Leg('date-invalid', shards(b'DATE$', 'date-invalid', di, 300), work_assign, exhaustive=True,
                   bound='%d malformed/unspecified values: product of month x day x year alphabets with out-of-'
                         'range, negative, signed, blank, non-numeric, huge components%s; 2 and 4 components; '
                         'foreign separators; non-leap 02-29' % (
                             len(di), ' (quick: at most one bad component)' if q else '')))
    hs = history_seqs(3 if q else 4)
    out.append(Leg('history', [(i % len(CLOCKS), c) for i, c in enumerate(chunked(hs, 20))], work_history,
                   exhaustive=True,
                   bound='all %d sequences of length 2..%d over %d operations (2 valid and 1 invalid TIME$, 2 valid and '
                         '1 invalid DATE$, clock +3600 s); TIME$ and DATE$ read back after every step' % (
                             len(hs), 3 if q else 4, len(HIST_OPS))))
    ec = environ_cases(q)
    dr = [(c, st, si, n) for c in range(len(CLOCKS)) for st in DRIFT_STEPS for si in range(len(DRIFT_STMTS))
          for n in ((1, 7, 40) if q else (1, 2, 3, 7, 40, 200))]
    out.append(Leg('drift', list(chunked(dr, 12)), work_drift, exhaustive=True,
                   bound='%d runs: 3 clocks x steps of %s s x %d statements (DATE$ / TIME$ assignment, reading both) repeated n times '
                         '(n up to %d): TIME$ has advanced by the elapsed time' % (len(dr), DRIFT_STEPS, len(DRIFT_STMTS), 40 if q else 200)))
    out.append(Leg('environ', list(chunked(ec, 40 if q else 60)), work_environ, exhaustive=True,
                   bound='%d cases: %d names x %d values (every single byte 00..FF alone%s, "=", long), odd names, '
                         'all ordered pairs of 5 capitalisations x 3 value pairs as 2-step histories; every read '
                         'under 4 capitalisations' % (len(ec), len(NAMES), len(env_values(q)),
                                                      ' and embedded' if not q else ' and embedded for non-printables')))
    return out


def replay(ctx, leg, case):
    if leg == 'drift':
        return work_drift([tuple(case['drift'])])
    part = Partial()
    if 'history' in case:
        return work_history((case.get('clock', 0), [tuple((o, v) for o, v in case['history'])]))
    if 'steps' in case:
        with Env(0) as e:
            environ_case(part, e, [(n, v) for n, v in case['steps']], case['read'])
        return part
    for clock in range(len(CLOCKS)):
        with Env(clock) as e:
            check_assign(part, e, case['which'], case['value'], case.get('elapsed', 0), leg)
        if part.viol:
            break
    return part
