"""
C29 - files written to a cassette image read back intact.

A *tape* is a sequence of files (name, kind, size); kinds: D data file (PRINT#), A ASCII program
(SAVE ,A), B tokenised program (SAVE), P protected program (SAVE ,P), M memory image (BSAVE).
Every tape is written through BASIC statements by one Session on a fresh CAS: or WAV: image, the
session is closed, and *new* Sessions read it back:
    order     every file by name, first to last, in one session (nothing to skip)
    wrap      a later file first, then an earlier one in the same session: Device Timeout (the search
              runs off the end and the tape is rewound) is accepted once, then the file must be found
    skip-to-t for every t > 0, a fresh session asks for file t first (files before it are skipped)
    nameless  a fresh session does LOAD "CAS1:" (thorough tier)
    partial   a file is opened and closed after 3 bytes (or loaded); the next file is then read in full
    append    a session reads the last file, then writes one more; a new session reads that one
    untitled  fresh sessions do OPEN "CAS1:" FOR INPUT / LOAD "CAS1:" / BLOAD "CAS1:": the first file of the
              matching type is found, the files of other types before it are skipped
Oracle (reference model = the list of files): the "Found." message names the file with the type it
was written with, the files before it are reported "Skipped." and no others, the content read back
is byte-for-byte what was written (data: INPUT$ of exactly `size` bytes then EOF; programs: LIST;
memory: PEEK of the loaded area and the bytes just beyond it), and the next file is still found.

Legs
  len     2-file tapes: first file of every kind with EVERY size 0..520 (quick: 0..20, 240..270, 500..520),
          second file fixed; CAS
  pairs   2-file tapes: all kind pairs x all size pairs from the boundary set L (CAS)
  triples 3-file tapes: all kind triples x size triples from a smaller boundary set (CAS, thorough)
  quads   4-file tapes of D/A files with sizes at the record boundary (CAS, thorough)
  wav     the boundary sizes again on WAV images
"""
import os
import re
import itertools

from mc.core import Leg, Partial, CheckError, chunked
from mc import harness as H
from mc import fast

PROPERTY = 'C29'
ENGINE = 'E2 bfs (history enumeration; no two histories share a state, so no de-duplication applies)'
LEVEL = 'model_checking'
LEVEL_TEXT = (
    'Bounded exhaustive enumeration of tape-writing histories: every first-file size 0..520 for each of the 5 '
    'file kinds, all kind x size combinations over a boundary size set for 2-file tapes, reduced sets for 3- and '
    '4-file tapes, on CAS images and (boundary sizes) WAV images. Each tape is written by the real interpreter, '
    'the session is closed, and fresh sessions read every file back by name in order and with skipping; names, '
    'types, Found/Skipped messages and every content byte are compared with the list-of-files model.')
LEVEL_NOTE = ('Sizes beyond 520 bytes (3+ data records / 3+ blocks), tapes of more than 4 files, file names '
              'longer than 8 characters and images not produced by pcbasic are outside the bound.')
TECHNIQUE = ('bounded exhaustive enumeration of tape sessions (file kinds x sizes x read orders) on real '
             'Sessions with CAS:/WAV: images against a list-of-files reference model')
RULE = ('a case = (image format, tape = sequence of (kind, size), read order); class = (format, kind, size '
        'residue class w.r.t. the 255-byte record / 256-byte block, position on tape, read order)')
ASSUMPTIONS = [
    'data files are written with PRINT#1,"...";  (no separators) and read with INPUT$(n,#1); the payload uses '
    'only letters and digits, so no text-mode translation applies',
    'program contents are compared through LIST (the default session does not hide protected listings); the '
    'type is taken from the "name.T Found." message',
    'memory images are BSAVEd from and BLOADed to text video memory (segment B800h, pages 1 and 2), which the '
    'interpreter lets BASIC read and write freely',
    'after a file has been read completely the tape is positioned at the next file; after Device Timeout it is '
    'rewound (statement: "finds each file by name ... skips the others")',
    'nameless LOAD "CAS1:" is only required to load exactly one of the program files, unmixed',
]

KINDS = 'DABPM'
TYPE_LETTER = {'D': b'D', 'A': b'A', 'B': b'B', 'P': b'P', 'M': b'M', 'N': b'M', 'F': b'M', 'Z': b'M'}
# kind 'N' (membytes leg only): a 2-byte memory image whose last byte is the size parameter


###############################################################################
# reference model: what each file contains

def payload(idx, n):
    """n bytes of letters/digits, depending on position and file index (so mixing shows)."""
    alpha = b'ABCDEFGHIJKLMNOPQRSTUVWXYZ0123456789abcdefghijklmnopqrstuvwxyz'
    return bytes(alpha[(i * 7 + idx * 13 + i // 62) % len(alpha)] for i in range(n))


def mem_pattern(idx, n, kind='M'):
    if kind == 'N':
        return bytes([0x55, n])
    if kind in 'FZ':
        # (fill leg only) a memory image of one repeated byte: FF looks like the leader tone, 00 like silence
        return (b'\xff' if kind == 'F' else b'\0') * n
    return bytes(((i * 7 + idx * 29 + 3) % 251) for i in range(n))


def program_lines(idx, n):
    """Program whose string literals add up to n characters."""
    body = payload(idx, n)
    lines = [b'1 REM FILE %d' % idx]
    no = 10
    for i in range(0, n, 200):
        lines.append(b'%d PRINT "%s"' % (no, body[i:i + 200]))
        no += 10
    return lines


# naming of the files on a tape: 'plain' F<index><kind>, or 'prefix': every later name is a proper
# prefix of all earlier ones (NXXXXX, NXXXX, ...), which only an exact comparison of names tells apart
_NAMING = ['plain']


def fname(idx, kind):
    if _NAMING[0] == 'prefix':
        return b'N' + b'X' * (5 - idx)
    return b'F%d%s' % (idx, kind.encode())


###############################################################################
# writing

def write_tape_one(s, tape, only, part, case):
    return write_tape(s, tape, part, case, only=only)


def write_tape(s, tape, part, case, only=None):
    """Write all files (or file `only`). Returns False if a statement failed (reported as violation)."""
    for idx, (kind, n) in enumerate(tape):
        if only is not None and idx != only:
            continue
        name = fname(idx, kind)
        stmts = []
        if kind == 'D':
            stmts.append(b'OPEN "CAS1:%s" FOR OUTPUT AS 1' % name)
            body = payload(idx, n)
            for i in range(0, n, 200):
                stmts.append(b'PRINT#1,"%s";' % body[i:i + 200])
            stmts.append(b'CLOSE 1')
        elif kind in 'ABP':
            stmts.append(b'NEW')
            stmts.extend(program_lines(idx, n))
            stmts.append(b'SAVE "CAS1:%s"%s' % (name, {'A': b',A', 'B': b'', 'P': b',P'}[kind]))
        else:
            pat = mem_pattern(idx, n, kind)
            n = len(pat)
            stmts.append(b'DEF SEG=&HB800')
            for i in range(0, n, 40):
                stmts.append(b':'.join(b'POKE %d,%d' % (4096 + i + j, c) for j, c in enumerate(pat[i:i + 40])))
            stmts.append(b'BSAVE "CAS1:%s",4096,%d' % (name, n))
        for st in stmts:
            r = H.run(s, fast.TOP + st if not st[:1].isdigit() else st)
            if r.exc is not None:
                part.violation('write/%s/host-exception/%s' % (kind, H.exc_key(r.exc)),
                               'writing file %d %r of tape %r: %r raised %r' % (idx, name, tape, st[:60], r.exc),
                               case)
                return False
            if r.err is not None:
                part.violation('write/%s/basic-error-%s/%s' % (kind, r.err, size_class(kind, n)),
                               'writing file %d %r of tape %r: %r gave error %s' % (idx, name, tape, st[:60], r.err),
                               case)
                return False
    return True


###############################################################################
# reading and judging

MSG_RE = re.compile(rb'^(.{8})\.([A-Z]) (Found|Skipped)\.\r?$', re.M)


UNIT = {'D': 255, 'A': 255, 'B': 256, 'P': 256, 'M': 256, 'N': 256, 'F': 256, 'Z': 256}


def stream_len(kind, n):
    """Bytes that go into the file's data record(s) on tape for size parameter n (from the file formats):
    D: payload + NUL terminator; A: LIST text with CR line ends + NUL; B/P: tokenised program image
    (4 bytes + tokens + NUL per line, 2-byte end marker); M: the memory bytes."""
    lines = -(-n // 200)
    if kind == 'D':
        return n + 1
    if kind == 'A':
        return 13 + 12 * lines + n + 1
    if kind in 'BP':
        return 15 + 9 * lines + n
    if kind == 'N':
        return 2
    return n


def size_class(kind, n):
    """Residue class of the stream length w.r.t. the framing unit (255-byte records for data/ASCII
    files, 256-byte blocks for tokenised/protected/memory files): used in keys and coverage classes."""
    if kind == 'N':
        return 'last-byte-%s' % ('1A' if n == 0x1a else ('00' if n == 0 else 'other'))
    u = UNIT[kind]
    sl = stream_len(kind, n)
    if sl == 0:
        return 'S=0'
    r = sl % u
    if kind in 'DA' and r == 0xa5:
        # the last record then starts with the count byte A5h, which is also the header marker
        return 'S=k*255+165'
    if r == 0:
        return 'S=k*%d' % u
    if r == 1 and sl > u:
        return 'S=k*%d+1' % u
    if r == u - 1:
        return 'S=k*%d-1' % u
    return 'S-other'


def sizes_near(kind, targets, lo=0, hi=520):
    """All n in lo..hi whose stream length is one of the targets."""
    return [n for n in range(lo, hi + 1) if stream_len(kind, n) in targets]


SPECIAL = ('D:S=k*255', 'A:S=k*255', 'M:S=0', 'D:S=k*255+165', 'A:S=k*255+165')


def before(tape, t):
    """Framing-boundary classes among the files that precede file t on the tape (the reader has to get
    past all of them): the part of a violation key that names the input class."""
    cls = sorted(set('%s:%s' % (k, size_class(k, n)) for k, n in tape[:t]))
    sp = [c for c in cls if c in SPECIAL]
    return 'after-' + ('+'.join(sp) if sp else ('plain' if t else 'start'))


def messages(out):
    return [(m.group(1).rstrip(), m.group(2), m.group(3)) for m in MSG_RE.finditer(out)]


def check_messages(part, case, tape, pos, t, out, what):
    """Expected: files pos..t-1 skipped, file t found."""
    exp = [(fname(i, tape[i][0]), TYPE_LETTER[tape[i][0]], b'Skipped') for i in range(pos, t)]
    exp.append((fname(t, tape[t][0]), TYPE_LETTER[tape[t][0]], b'Found'))
    got = messages(out)
    if got == exp:
        return True
    kind = tape[t][0]
    # classify
    if got and got[-1][2] == b'Found' and got[-1][0] == exp[-1][0] and got[-1][1] != exp[-1][1]:
        key = 'messages/wrong-type/%s' % kind
    elif len(got) < len(exp):
        key = 'messages/missing/%s/%s' % (before(tape, t), kind)
    else:
        key = 'messages/unexpected/%s/%s' % (before(tape, t), kind)
    part.violation(key, '%s: tape %r, asked for file %d from position %d: messages %r, expected %r' % (
        what, tape, t, pos, got, exp), case)
    return False


def read_file(s, part, case, tape, pos, t, what, wrapped=False, nameless=False):
    """Open/load file t by name (or, nameless, as the first file of its type class) with the tape at position
    pos; compare.  Returns new position or None when reading cannot sensibly continue."""
    kind, n = tape[t]
    name = b'' if nameless else fname(t, kind)
    sc = size_class(kind, n)
    after = before(tape, t)
    part.n += 1
    nviol0 = sum(part._vcount.values())

    def fail(key, msg):
        part.outcome('%s:%s:%s' % (what, kind, key.split('/')[0] + '-' + key.split('/')[-1]))
        part.violation(key, '%s: tape %r file %d (%s, size %d): %s' % (what, tape, t, kind, n, msg), case)

    def find():
        if kind == 'D':
            return H.run(s, fast.TOP + b'OPEN "CAS1:%s" FOR INPUT AS 1' % name)
        elif kind in 'ABP':
            return H.run(s, fast.TOP + b'LOAD "CAS1:%s"' % name)
        # clear the target area first so that stale bytes cannot pass for loaded ones
        H.run(s, fast.TOP + b'DEF SEG=&HB800:FOR I%%=0 TO %d:POKE 8192+I%%,255:NEXT' % (n + 3))
        return H.run(s, fast.TOP + b'DEF SEG=&HB800:BLOAD "CAS1:%s",8192' % name)
    r = find()
    if wrapped and r.exc is None and r.err == 24:
        # the file lies behind the head: the search ran off the end of the tape, which is then
        # rewound (Device Timeout); asked again, the file must be found from the start of the tape
        part.outcome('%s:%s:timeout-then-retry' % (what, kind))
        H.run(s, b'CLOSE')
        pos = 0
        wrapped = False
        r = find()
    if r.exc is not None:
        fail('read/%s/host-exception/%s' % (kind, H.exc_key(r.exc)), 'raised %r' % (r.exc,))
        return None
    if r.err is not None:
        fail('find/%s/error-%s/%s' % (after, r.err, kind),
             'not found: BASIC error %s, output %r' % (r.err, r.out[-120:]))
        H.run(s, b'CLOSE')
        return None
    if wrapped:
        part.outcome('%s:%s:found-without-timeout' % (what, kind))
    else:
        check_messages(part, case, tape, pos, t, r.out, what)
    # contents
    if kind == 'D':
        want = payload(t, n)
        got = b''
        ok = True
        for i in range(0, n, 255):
            k = min(255, n - i)
            r = H.run(s, fast.TOP + b'V$=INPUT$(%d,#1)' % k)
            if r.exc is not None:
                fail('read/D/host-exception/%s' % H.exc_key(r.exc), 'INPUT$ raised %r' % (r.exc,))
                return None
            if r.err is not None:
                fail('content/D/%s/shorter' % sc,
                     'INPUT$(%d,#1) after %d bytes gave error %s (file shorter than written)' % (k, i, r.err))
                ok = False
                break
            got += s.get_variable('V$')
        if ok and got != want:
            fail('content/D/%s/different' % sc, 'read %r..., wrote %r...' % (got[:40], want[:40]))
            ok = False
        if ok:
            r = H.run(s, fast.TOP + b'E%=EOF(1)')
            if r.exc is not None or r.err is not None:
                fail('content/D/%s/eof-error' % sc, 'EOF(1) gave %r' % (r,))
            elif s.get_variable('E%') == 0:
                r2 = H.run(s, fast.TOP + b'V$=INPUT$(1,#1)')
                extra = s.get_variable('V$') if r2.err is None and r2.exc is None else None
                fail('content/D/%s/longer' % sc,
                     'all %d bytes read back but EOF(1) is false; the next byte read is %r (data beyond the '
                     'end of the file: the following record belongs to the next file)' % (n, extra))
        H.run(s, fast.TOP + b'CLOSE 1')
    elif kind in 'ABP':
        r = H.run(s, fast.TOP + b'LIST')
        want = b''.join(l + b'\r\n' for l in program_lines(t, n))
        got = r.out
        if r.exc is not None or r.err is not None:
            fail('content/%s/%s/list-error' % (kind, sc), 'LIST gave %r' % (r,))
        elif got != want:
            fail('content/%s/%s/different' % (kind, sc),
                 'LIST gives %d bytes %r..., saved %d bytes %r...' % (len(got), got[:60], len(want), want[:60]))
    else:
        want = mem_pattern(t, n, kind)
        n = len(want)
        want += b'\xff\xff'
        got = b''
        for i in range(0, n + 2, 255):
            k = min(255, n + 2 - i)
            r = H.run(s, fast.TOP + b'V$="":FOR I%%=%d TO %d:V$=V$+CHR$(PEEK(8192+I%%)):NEXT' % (i, i + k - 1))
            if r.exc is not None or r.err is not None:
                raise CheckError('C29: cannot read back video memory: %r' % (r,))
            got += s.get_variable('V$')
        if got[:n] != want[:n]:
            bad = next(i for i in range(n) if got[i] != want[i])
            if bad == n - 1 and want[bad] == 0x1a and got[bad] == 0xff:
                fail('content/M/last-byte-1A/lost', 'the last byte of the image, 1Ah, was not loaded '
                     '(read %r, saved %r)' % (got[bad:bad + 1], want[bad:bad + 1]))
            else:
                fail('content/M/%s/different' % sc, 'first difference at offset %d: read %r, saved %r' % (
                bad, got[bad:bad + 8], want[bad:bad + 8]))
        elif got[n:] != want[n:]:
            fail('content/M/%s/overrun' % sc, 'bytes beyond the saved length were overwritten: %r' % got[n:])
    if sum(part._vcount.values()) == nviol0:
        part.outcome('%s:%s:ok' % (what, kind))
    return t + 1


def run_tape(part, fmt, tape, orders, case=None):
    """Write a tape, read it back in the given orders."""
    case = case or {'fmt': fmt, 'tape': [list(f) for f in tape], 'orders': orders}
    fmt, _plus, naming = fmt.partition('+')
    _NAMING[0] = naming or 'plain'
    try:
        _run_tape(part, fmt, tape, orders, case)
    finally:
        _NAMING[0] = 'plain'


def _run_tape(part, fmt, tape, orders, case):
    fast.no_sleep()
    fast.quiet()
    with H.Scratch('pcbverif_c29_') as sc:
        img = os.path.join(sc, 'tape.' + fmt.lower())
        dev = {'CAS1:': '%s:%s' % (fmt, img), 'Z': None}
        w = H.new_session(devices=dev, horizon=200000)
        try:
            ok = write_tape(w, tape, part, case)
        finally:
            w.close()
        part.traces += 1
        # one history = one final tape state; one transition per file written
        part.states += 1
        part.transitions += len(tape)
        if not ok:
            return
        for order in orders:
            if order == 'order':
                targets = [list(range(len(tape)))]
            elif order == 'skip':
                targets = [[t] for t in range(1, len(tape))]
            elif order == 'nameless':
                targets = ['nameless']
            elif order == 'untitled':
                # no file name given: the first data file (OPEN), the first program (LOAD), the first memory image
                # (BLOAD) is found, files of other types before it are skipped
                targets = []
                for cls in ('D', 'ABP', 'MNFZ'):
                    first = [i for i, (k, n) in enumerate(tape) if k in cls]
                    if first:
                        targets.append(('untitled', first[0]))
            elif order == 'partial':
                # a file is opened and left after a few bytes (or loaded); the next file is then read in full
                targets = [('partial', t) for t in range(len(tape) - 1)]
            elif order == 'append':
                # the tape is read to its end, then the same session writes one more file; a new session reads it
                targets = [('append',)]
            elif order == 'wrap':
                # a later file first, then an earlier one (it lies behind the head)
                targets = [[t, u] for t in range(1, len(tape)) for u in range(t)]
            else:
                raise CheckError('unknown order %r' % (order,))
            for tg in targets:
                s = H.new_session(devices=dev, horizon=200000)
                try:
                    if tg == 'nameless':
                        nameless(s, part, case, tape)
                    elif tg[0] == 'untitled':
                        read_file(s, part, case, tape, 0, tg[1], 'no-name', nameless=True)
                    elif tg[0] == 'partial':
                        t = tg[1]
                        kind, n = tape[t]
                        name = fname(t, kind)
                        if kind == 'D':
                            H.run(s, fast.TOP + b'OPEN "CAS1:%s" FOR INPUT AS 1' % name)
                            if n:
                                H.run(s, fast.TOP + b'V$=INPUT$(%d,#1)' % min(3, n))
                            H.run(s, fast.TOP + b'CLOSE 1')
                        elif kind in 'ABP':
                            H.run(s, fast.TOP + b'LOAD "CAS1:%s"' % name)
                        else:
                            H.run(s, fast.TOP + b'DEF SEG=&HB800:BLOAD "CAS1:%s",8192' % name)
                        read_file(s, part, case, tape, t + 1, t + 1, 'after-partial-read')
                    elif tg[0] == 'append':
                        last = len(tape) - 1
                        pos = read_file(s, part, case, tape, 0, last, 'skip-to')
                        if pos is not None:
                            extra = tuple(tape) + (('D', 7),)
                            ok = write_tape_one(s, extra, len(tape), part, case)
                            s.close()
                            if ok:
                                s = H.new_session(devices=dev, horizon=200000)
                                read_file(s, part, case, extra, 0, len(tape), 'appended-after-read')
                    else:
                        pos = 0
                        for i, t in enumerate(tg):
                            what = {'order': 'in-order', 'wrap': 'behind-head' if i else 'skip-to'}.get(order, 'skip-to')
                            pos = read_file(s, part, case, tape, pos, t, what, wrapped=(order == 'wrap' and i > 0))
                            if pos is None:
                                break
                finally:
                    s.close()
    for idx, (kind, n) in enumerate(tape):
        part.classes.add('%s/%s/%s/pos%d' % (fmt, kind, size_class(kind, n), min(idx, 2)))


def nameless(s, part, case, tape):
    progs = [i for i, (k, n) in enumerate(tape) if k in 'ABP']
    r = H.run(s, fast.TOP + b'LOAD "CAS1:"')
    part.n += 1
    if r.exc is not None:
        part.violation('nameless/host-exception/%s' % H.exc_key(r.exc), 'LOAD "CAS1:" on %r raised %r' % (tape, r.exc), case)
        return
    if not progs:
        if r.err is None:
            part.violation('nameless/loaded-non-program', 'LOAD "CAS1:" on %r succeeded: %r' % (tape, r.out), case)
        return
    if r.err is not None:
        part.violation('nameless/not-found/%s' % before(tape, len(tape)), 'LOAD "CAS1:" on %r gave error %s (%r)' % (tape, r.err, r.out), case)
        return
    lst = H.run(s, fast.TOP + b'LIST').out
    if not any(lst == b''.join(l + b'\r\n' for l in program_lines(i, tape[i][1])) for i in progs):
        part.violation('nameless/mixed-or-wrong-content/%s' % before(tape, len(tape)),
                       'LOAD "CAS1:" on %r loaded %r..., which is none of the saved programs' % (tape, lst[:80]), case)


def work_tapes(shard):
    fmt, orders, tapes = shard
    part = Partial()
    for tape in tapes:
        run_tape(part, fmt, tape, orders)
    part.sample({'fmt': fmt, 'tape': [list(f) for f in tapes[0]], 'orders': orders})
    return part


###############################################################################
# enumeration

SECOND = {'D': ('A', 5), 'A': ('D', 7), 'B': ('D', 7), 'P': ('A', 5), 'M': ('D', 7)}


def boundary_sizes(kind, level):
    """Sizes whose stream length sits at / next to the framing unit. level 0: {0, U}; 1: + {U-1, U+1, 2U};
    2: + {1, 2U-1, 2U+1, small}"""
    u = UNIT[kind]
    targets = {0: [u], 1: [u - 1, u, u + 1, 2 * u], 2: [u - 1, u, u + 1, u + 2, 2 * u - 1, 2 * u, 2 * u + 1]}[level]
    ns = set(sizes_near(kind, targets))
    ns.add(0)
    if level >= 2:
        ns.add(1)
        ns.add(100)
    return sorted(ns)


def legs(ctx):
    out = []
    q = ctx.quick
    tapes = []
    for k in KINDS:
        if q:
            u = UNIT[k]
            sizes = sorted(set(list(range(0, 6)) + sizes_near(k, range(u - 3, u + 4)) +
                               sizes_near(k, range(2 * u - 2, 2 * u + 3)) +
                               (sizes_near(k, (0xa4, 0xa5, 0xa6, 255 + 0xa5)) if k in 'DA' else [])))
        else:
            sizes = list(range(0, 521))
        tapes += [((k, n), SECOND[k]) for n in sizes]
    out.append(Leg('len', [('CAS', ['order', 'skip'], ch) for ch in chunked(tapes, 2 if q else 6)], work_tapes,
                   exhaustive=True,
                   bound='2-file CAS tapes (%d): first file of each of the 5 kinds with %s, fixed second '
                         'file of another kind; read in order and skip-to-second' % (
                             len(tapes), 'sizes 0..5 and every size whose stream length is within 3 of the '
                             'record/block size, within 2 of twice that, or (data/ASCII) makes the last record 164..166 bytes' if q else 'every size 0..520')))
    tapes = [(('N', b), ('D', 3)) for b in range(256)]
    out.append(Leg('membytes', [('CAS', ['order'], ch) for ch in chunked(tapes, 16)], work_tapes, exhaustive=True,
                   bound='2-byte memory images whose last byte takes every value 00..FF, followed by a data file'))
    lvl = 0 if q else 2
    tapes = [((k1, n1), (k2, n2)) for k1 in KINDS for k2 in KINDS
             for n1 in boundary_sizes(k1, 1 if q else 2) for n2 in boundary_sizes(k2, lvl)]
    out.append(Leg('pairs', [('CAS', ['order', 'skip', 'wrap', 'untitled', 'partial', 'append'] + ([] if q else ['nameless']), ch)
                             for ch in chunked(tapes, 3 if q else 6)], work_tapes, exhaustive=True,
                   bound='2-file CAS tapes (%d): all 25 kind pairs x boundary sizes (stream length in '
                         '{0, U-1, U, U+1, 2U%s} for the first file, %s for the second; U = 255-byte record '
                         'or 256-byte block)' % (len(tapes), '' if q else ', U+2, 2U-1, 2U+1, n=1, n=100',
                                                 '{0, U}' if q else 'the same set')))
    if not q:
        tapes = [tuple(zip(ks, ns)) for ks in itertools.product(KINDS, repeat=3)
                 for ns in itertools.product(*[boundary_sizes(k, 1)[:4] for k in ks])]
        tapes = [t for t in tapes]
        out.append(Leg('triples', [('CAS', ['order', 'skip'], ch) for ch in chunked(tapes, 6)], work_tapes,
                       exhaustive=True,
                       bound='3-file CAS tapes (%d): all 125 kind triples x 4 boundary sizes each '
                             '(stream length 0, U-1, U, U+1)' % len(tapes)))
        tapes = [tuple(zip(ks, ns)) for ks in itertools.product('DA', repeat=4)
                 for ns in itertools.product(*[sizes_near(k, [UNIT[k] - 1, UNIT[k]]) for k in ks])]
        out.append(Leg('quads', [('CAS', ['order', 'skip'], ch) for ch in chunked(tapes, 4)], work_tapes,
                       exhaustive=True,
                       bound='4-file CAS tapes (%d): all D/A kind quadruples x stream length {254,255}^4' % len(tapes)))
    # a header written after a larger binary file (its length field is inherited from that file), then skipped
    tapes = [((k1, n1), (k2, n2), k3) for k1 in 'BPM' for n1 in sizes_near(k1, [UNIT[k1] + 1, 2 * UNIT[k1], 2 * UNIT[k1] + 1])
             for k2 in 'DA' for n2 in boundary_sizes(k2, 0) + [7] for k3 in (('D', 5), ('B', 40))]
    out.append(Leg('after-binary', [('CAS', ['order', 'skip', 'wrap', 'untitled', 'partial', 'append'], ch) for ch in chunked(tapes, 3)], work_tapes,
                   exhaustive=True,
                   bound='3-file CAS tapes (%d): tokenised/protected/memory file of more than one block (stream length '
                         'U+1, 2U, 2U+1), then a data/ASCII file (0, 7, U bytes), then a data or program file; read in '
                         'order and skip-to-second/third' % len(tapes)))
    # memory images of one repeated byte (the last block of a file is padded with its last byte, too)
    tapes = [((k, n), second) for k in 'FZ' for n in ((1, 64, 255, 256, 257, 300, 512, 600) if not q else (64, 256, 300, 600))
             for second in (('D', 3), ('B', 40))]
    out.append(Leg('fill', [('CAS', ['order', 'skip'], ch) for ch in chunked(tapes, 4)]
                   + [('WAV', ['order', 'skip'], ch) for ch in chunked([t for t in tapes if t[0][1] in (64, 300)], 2)], work_tapes,
                   exhaustive=True,
                   bound='2-file tapes (%d CAS, %d WAV): a memory image of n bytes FF or 00 (n around and beyond the block size), then a data or '
                         'program file; read in order and skip-to-second' % (len(tapes), len([t for t in tapes if t[0][1] in (64, 300)]))))
    # names that are prefixes of each other: same-kind and compatible-kind files, the shorter name looked up first
    tapes = [((k1, 5), (k2, 7), (k3, 3)) for k1 in KINDS for k2 in KINDS for k3 in (KINDS if not q else 'DB')]
    out.append(Leg('prefix-names', [('CAS+prefix', ['order', 'skip', 'wrap'], ch) for ch in chunked(tapes, 5)], work_tapes,
                   exhaustive=True,
                   bound='3-file CAS tapes (%d) named NXXXXX, NXXXX, NXXX (each later name a proper prefix of the earlier ones): '
                         'all kind triples%s; read in order, skip-to-second/third, and wrapped' % (
                             len(tapes), ' with the third in {D,B}' if q else '')))
    if q:
        tapes = [((k, n), SECOND[k]) for k in KINDS for n in boundary_sizes(k, 0)]
    else:
        tapes = [((k1, n1), (k2, n2)) for k1 in KINDS for k2 in 'DB' for n1 in boundary_sizes(k1, 1)
                 for n2 in boundary_sizes(k2, 0)]
    out.append(Leg('wav', [('WAV', ['order', 'skip', 'wrap'], ch) for ch in chunked(tapes, 2)], work_tapes,
                   exhaustive=True,
                   bound='2-file WAV tapes (%d): %s' % (
                       len(tapes), 'first file of each kind with stream length {0, U}, fixed second file' if q else
                       'all 5 first kinds x second kind in {D,B} x first stream length {0,U-1,U,U+1,2U} x second {0,U}')))
    return out


def replay(ctx, leg, case):
    part = Partial()
    tape = tuple((k, n) for k, n in case['tape'])
    run_tape(part, case['fmt'], tape, case['orders'], case)
    return part
