"""
C30 - graphics never draws outside the viewport or the active page;
      in text modes graphics statements raise Illegal function call and change nothing.

E1 (bounded grammar x configurations) on the real interpreter:

  leg gfx  : every (adapter, SCREEN) graphics mode of modes._MODES
             x viewport  {none, VIEW (12.5,6.5)-(26.5,16.5) [= (13,7)-(27,17)], VIEW SCREEN (4,10)-(19,21),
                          VIEW touching the bottom-right corner, VIEW SCREEN touching (0,0)}
             x WINDOW    {none, WINDOW (0,0)-(100,100), WINDOW SCREEN (-1,-1)-(1,1)}
             x (active page, polarity)  {(0, bg 0 / draw 1), (1, bg max / draw 0), ...}
             x the statement grammar below over a boundary coordinate alphabet
             (far outside, just outside, on, just inside every viewport and screen edge).
  leg text : every (adapter, WIDTH) text mode x page setting x graphics statement:
             outcome must be indistinguishable from `ERROR 5`.

Oracle (gfx): before every case the active page holds a known uniform background
(0 for polarity 0, the highest attribute for polarity 1; all other pages too) and the
statement draws with an attribute different from it, so every write outside
the allowed rectangle is visible.  After the statement: all rows of all other pages
unchanged; on the active page nothing changed outside the viewport rectangle
(for VIEW itself: outside the new rectangle + its 1-pixel border).  BASIC errors are
accepted (nothing may change outside either way); a host exception or a hang is a violation.
"""
from mc.core import Leg, Partial, CheckError
from mc import harness as H
from mc import gfxlib as G
from mc.gfxlib import fmt_num

PROPERTY = 'C30'
ENGINE = 'E1 domain'
LEVEL = 'model_checking'
LEVEL_TEXT = (
    'Bounded exhaustive enumeration: every graphics mode of every adapter in modes._MODES, crossed '
    'with 5 viewport settings, 3 WINDOW settings, active page != visual page and two background '
    'polarities, and in each configuration the complete product of a boundary coordinate alphabet '
    '(9-14 values per axis: +-32767, +-1000, each viewport and screen edge -1/0/+1) with the statement '
    'grammar PSET/PRESET/LINE[,B|BF|style]/CIRCLE/PAINT/DRAW/PUT/VIEW (about 2,700 statements per '
    'configuration thorough, 400 quick). Every pixel of every page is compared after every statement. '
    'All 20 text modes x every graphics statement form are compared with ERROR 5.'
)
LEVEL_NOTE = (
    'Trusted: the page pixel matrices read at display.pages[i]._pixels (asserted equal to '
    'Session.get_pixels()), the background poke through the same rows, and that geometry does not '
    'depend on the drawing attribute beyond the two polarities enumerated.'
)
TECHNIQUE = ('bounded exhaustive enumeration of (mode x viewport x window x page x statement) on the '
             'real interpreter (Session.execute) against a rectangle-containment oracle on full page snapshots')
RULE = ('cases = full product of per-axis boundary coordinate classes with statement templates, per '
        'configuration; a case class is (statement kind, viewport kind, window kind, outcome in '
        '{changed-inside, no-change, BASIC error n}); non-trivial = every class whose coordinates touch or '
        'cross a viewport edge (all except the interior-only ones)')
ASSUMPTIONS = [
    'internal seam: display.pages[i]._pixels._rows (read, and written only to lay the background)',
    'for the VIEW statement itself the allowed region is the new rectangle, plus its 1-pixel border ring '
    'only if a border attribute was given',
    'BASIC errors (Overflow, Illegal function call) are accepted outcomes in graphics modes; only the '
    'absence of changes outside the viewport / active page is required',
    'text modes: "changes nothing" is decided by equality of the complete screen state (pixels of all '
    'pages, characters, attributes, cursor) with the state after `ERROR 5` from the same start, since the '
    'error message itself is printed on the screen',
    'GET, WINDOW and POINT(x,y) are included in the text-mode leg as graphics statements',
    'a clipped single-pixel write clears the text-buffer cell (1,1) (SCREEN(1,1) changes) although no pixel '
    'changes: outside the statement (pixels only), reported separately, not a violation here',
]

VIEWS = ('none', 'rel', 'abs', 'relcorner', 'abs0')
WINS = ('none', 'cart', 'scr')
WIN_PARAMS = {
    'cart': (0., 0., 100., 100., True),
    'scr': (-1., -1., 1., 1., False),
}
WIN_STMT = {
    'cart': b'WINDOW (0,0)-(100,100)',
    'scr': b'WINDOW SCREEN (-1,-1)-(1,1)',
}


def view_rect(view, W, Hh):
    """-> (statement or None, absolute rect, relative?)"""
    if view == 'none':
        return None, (0, 0, W - 1, Hh - 1), False
    if view == 'rel':
        # (left edge and top edge differ, one way in 'rel' and the other in 'abs': bounds of the two axes must not be mixed up)
        # (written with fractions: corners are rounded to the nearest pixel, halves away from zero)
        return b'VIEW (12.5,6.5)-(26.5,16.5)', (13, 7, 27, 17), True
    if view == 'abs':
        return b'VIEW SCREEN (4,10)-(19,21)', (4, 10, 19, 21), False
    if view == 'relcorner':
        # (corners given right-to-left: VIEW puts them in order)
        return b'VIEW (%d,%d)-(%d,%d)' % (W - 1, Hh - 12, W - 16, Hh - 1), (W - 16, Hh - 12, W - 1, Hh - 1), True
    if view == 'abs0':
        # (corners given bottom-to-top)
        return b'VIEW SCREEN (0,11)-(15,0)', (0, 0, 15, 11), False
    raise CheckError('unknown view ' + view)


class Env(object):
    """One configuration on a live session."""

    def __init__(self, cfg):
        self.cfg = cfg
        adapter, nr, name, view, win, apage, pol, order = cfg[:8]
        g = self.g = G.Gfx(adapter, nr)
        if g.mode.name != name:
            raise CheckError('mode name mismatch %s != %s' % (g.mode.name, name))
        self.view, self.win, self.pol = view, win, pol
        self.dead = False
        self._ctrl = {}
        W, Hh = g.w, g.h
        self.view_stmt, self.rect, self.rel = view_rect(view, W, Hh)
        ax0, ay0, ax1, ay1 = self.rect
        self.vw, self.vh = ax1 - ax0 + 1, ay1 - ay0 + 1
        self.ox = ax0 if self.rel else 0
        self.oy = ay0 if self.rel else 0
        self.bg = 0 if pol == 0 else g.maxattr
        self.c = 1 if pol == 0 else 0
        if apage >= g.npages:
            apage = g.npages - 1
        self.apage = apage
        g.assert_seam()
        # sprites, taken on the unclipped screen
        f = g.wfactor
        sw, sh = (3 if f == 1 else 4), 3
        if view == 'none':
            vw, vh = 16, 12
        else:
            vw, vh = self.vw, self.vh
        bw, bh = vw + f, vh + 1
        self.sprites = {'S': (sw, sh), 'V': (vw, vh), 'B': (bw, bh)}
        n_int = 4 + ((bw // 8 + 2) * bh * 4) // 2
        g.must(b'DIM S0%%(%d),S1%%(%d),V0%%(%d),V1%%(%d),B0%%(%d),B1%%(%d)' % ((n_int,) * 6))
        for bit, val in ((1, g.maxattr), (0, 0)):
            g.must(b'LINE (0,0)-(60,40),%d,BF' % val)
            for nm, (w_, h_) in self.sprites.items():
                g.must(b'GET (0,0)-(%d,%d),%s%d%%' % (w_ // f - 1, h_ - 1, nm.encode(), bit))
        g.must(b'CLS')
        if g.npages > 1:
            if apage and pol:
                # arrive in this mode with the active page already selected: a mode change keeps
                # the active page number (go through text mode and come back)
                r = H.run(g.s, b'SCREEN 0,,%d,%d' % (apage, apage))
                H.run(g.s, b'SCREEN %d' % nr)
                g.refresh()
                if g.mode.name != name:
                    raise CheckError('mode round trip failed')
            g.must(b'SCREEN ,,%d,0' % apage)
        if g.apagenum != apage:
            raise CheckError('active page not set')
        first, second = (self.view_stmt, WIN_STMT.get(win))
        if order:
            first, second = second, first
        for st in (first, second):
            if st:
                g.must(st)
        # background on all pages (laid after VIEW, which may itself draw)
        row = bytes([self.bg]) * W
        self.tmpl = [row] * Hh
        for p in range(g.npages):
            g.poke(p, self.tmpl)
        g.must(b'LOCATE 1,1')
        self.check_clean('set-up')

    def close(self):
        self.g.close()

    def reissue_view(self):
        """Re-establish the configuration's viewport after a VIEW case."""
        self.g.must(self.view_stmt or b'VIEW')
        self.g.poke(self.apage, self.tmpl)

    # coordinate helpers -------------------------------------------------

    def lx(self, p):
        if self.win == 'none':
            return p
        fx0, fy0, fx1, fy1, cart = WIN_PARAMS[self.win]
        return fx0 + p * (fx1 - fx0) / float(self.vw - 1)

    def ly(self, p):
        if self.win == 'none':
            return p
        fx0, fy0, fx1, fy1, cart = WIN_PARAMS[self.win]
        if cart:
            return fy1 + p * (fy0 - fy1) / float(self.vh - 1)
        return fy0 + p * (fy1 - fy0) / float(self.vh - 1)

    def lr(self, r):
        if self.win == 'none':
            return r
        fx0, fy0, fx1, fy1, cart = WIN_PARAMS[self.win]
        return r * (fx1 - fx0) / float(self.vw - 1)

    def P(self, x, y):
        return b'(' + fmt_num(self.lx(x)) + b',' + fmt_num(self.ly(y)) + b')'

    def S(self, dx, dy):
        """STEP offset (logical size of a physical offset)."""
        if self.win == 'none':
            return b'(%d,%d)' % (dx, dy)
        return b'(' + fmt_num(self.lx(dx) - self.lx(0)) + b',' + fmt_num(self.ly(dy) - self.ly(0)) + b')'

    def axis(self, horizontal, level):
        """Boundary classes of one axis in physical statement coordinates."""
        ax0, ay0, ax1, ay1 = self.rect
        if horizontal:
            lo, hi, o, size = ax0 - self.ox, ax1 - self.ox, self.ox, self.g.w
        else:
            lo, hi, o, size = ay0 - self.oy, ay1 - self.oy, self.oy, self.g.h
        if level == 'E':
            vals = [-32768, lo - 1, lo, hi, hi + 1, 32767]
        elif level == 'Q':
            vals = [-32768, lo - 1, lo, hi, hi + 1, size - o, 32767]
        else:
            vals = [-32768, -1000, -o - 1, -o, lo - 1, lo, lo + 1, hi - 1, hi, hi + 1,
                    size - 1 - o, size - o, 1000, 32767]
        out = []
        for v in vals:
            if v not in out:
                out.append(v)
        return out

    # the oracle ----------------------------------------------------------

    def check_clean(self, what):
        g = self.g
        for p in range(g.npages):
            if g.rows(p) != self.tmpl:
                raise CheckError('background not in place after %s' % what)

    def inspect(self, allowed, ctrl=None):
        """Compare all pages with the reference picture (the background, or for a case that
        ended in a BASIC error the picture after `ERROR n` from the same state, which holds
        the printed error message).  -> (changed_inside, [(where, detail)]).
        Restores the background."""
        g = self.g
        x0, y0, x1, y1 = allowed
        bad = []
        changed = False
        tmpl = self.tmpl
        for p in range(g.npages):
            rows = g.rows(p)
            ref = ctrl.get(p) if ctrl else None
            if ref is None:
                if rows == tmpl:
                    continue
                ref = tmpl
            for y, row in enumerate(rows):
                t = ref[y]
                if len(row) != len(t):
                    # the picture itself has changed shape: pixels were stored beyond the edge of the screen
                    bad.append(('beyond-screen', 'page %d row %d is %d pixels long, the screen is %d wide' % (
                        p, y, len(row), len(t))))
                    row[:] = tmpl[y]
                    continue
                if row != t:
                    if p != self.apage:
                        x = next(i for i in range(g.w) if row[i] != t[i])
                        bad.append(('other-page', 'page %d (active %d) pixel (%d,%d) = %d' % (
                            p, self.apage, x, y, row[x])))
                    elif y < y0 or y > y1:
                        x = next(i for i in range(g.w) if row[i] != t[i])
                        bad.append(('above' if y < y0 else 'below', 'pixel (%d,%d) = %d' % (x, y, row[x])))
                    else:
                        if row[:x0] != t[:x0]:
                            x = next(i for i in range(x0) if row[i] != t[i])
                            bad.append(('left', 'pixel (%d,%d) = %d' % (x, y, row[x])))
                        if row[x1 + 1:] != t[x1 + 1:]:
                            x = next(i for i in range(g.w - 1, x1, -1) if row[i] != t[i])
                            bad.append(('right', 'pixel (%d,%d) = %d' % (x, y, row[x])))
                        changed = True
                if row != tmpl[y]:
                    row[:] = tmpl[y]
        return changed, bad

    def control(self, err):
        """Picture left by the interpreter printing the message of error `err` with the cursor
        at (1,1) on the clean background: {page: rows} for the pages it touches.
        Called with a possibly dirty screen: the current picture is saved and put back."""
        if err in self._ctrl:
            return self._ctrl[err]
        g = self.g
        saved = {}
        for p in range(g.npages):
            if g.rows(p) != self.tmpl:
                saved[p] = g.snap(p)
                g.poke(p, self.tmpl)
        g.must(b'LOCATE 1,1')
        r = g.run(b'ERROR %d' % err)
        if r.err != err:
            raise CheckError('control ERROR %d gave %r' % (err, r))
        ctrl = {}
        for p in range(g.npages):
            if g.rows(p) != self.tmpl:
                ctrl[p] = g.snap(p)
                g.poke(p, self.tmpl)
        g.must(b'LOCATE 1,1')
        for p, rows in saved.items():
            g.poke(p, rows)
        self._ctrl[err] = ctrl
        return ctrl


def gen_statements(env, quick):
    """The statement grammar of one configuration -> list of (kind, statement)."""
    P, S = env.P, env.S
    c = env.c
    g = env.g
    out = []
    X = env.axis(True, 'Q' if quick else 'X')
    Y = env.axis(False, 'Q' if quick else 'X')
    EX, EY = env.axis(True, 'E'), env.axis(False, 'E')
    diag = list(zip(EX, EY))
    anti = list(zip(EX, reversed(EY)))
    D12 = diag + anti
    D6 = diag
    D4 = [diag[1], diag[2], anti[3], diag[5]]
    EE = [(x, y) for x in EX for y in EY]
    XX = [(x, y) for x in X for y in Y]
    # PSET / PRESET
    for (x, y) in XX:
        out.append(('pset', b'PSET %s,%d' % (P(x, y), c)))
    for (x, y) in (D12 if quick else EE):
        out.append(('pset', b'PSET %s' % P(x, y) if env.pol == 0 else b'PRESET %s' % P(x, y)))
        if not quick:
            out.append(('pset', b'PRESET %s,%d' % (P(x, y), c)))
    # LINE
    p0s, p1s = (D12, D4) if quick else (EE, D12)
    for (x0, y0) in p0s:
        for (x1, y1) in p1s:
            out.append(('line', b'LINE %s-%s,%d' % (P(x0, y0), P(x1, y1), c)))
    p0s, p1s = (D6, D4) if quick else (D12, D12)
    for (x0, y0) in p0s:
        for (x1, y1) in p1s:
            out.append(('line-b', b'LINE %s-%s,%d,B' % (P(x0, y0), P(x1, y1), c)))
            out.append(('line-bf', b'LINE %s-%s,%d,BF' % (P(x0, y0), P(x1, y1), c)))
            if not quick:
                out.append(('line-style', b'LINE %s-%s,%d,,&HF0F0' % (P(x0, y0), P(x1, y1), c)))
                out.append(('line-b-style', b'LINE %s-%s,%d,B,&HAAAA' % (P(x0, y0), P(x1, y1), c)))
    # shapes that lie wholly off the screen at a moderate distance (negative absolute coordinates that are
    # still in the range of a row or column index): nothing may appear anywhere
    W_, H_ = g.w, g.h
    off = [(-150, 10, -120, 20), (10, -150, 20, -120), (-50, -50, -2, -2), (-2, 5, -2, 9), (5, -3, 9, -2),
           (W_ + 2, 10, W_ + 50, 20), (10, H_ + 2, 20, H_ + 50), (-W_ + 5, 3, -W_ + 30, 8), (3, -H_ + 5, 8, -H_ + 30)]
    for (ax, ay, bx, by) in off:
        p0, p1 = P(ax - env.ox, ay - env.oy), P(bx - env.ox, by - env.oy)
        out.append(('line-bf', b'LINE %s-%s,%d,BF' % (p0, p1, c)))
        out.append(('line-bf', b'LINE %s-%s,%d,BF' % (p1, p0, c)))
        out.append(('line-b', b'LINE %s-%s,%d,B' % (p0, p1, c)))
        out.append(('line', b'LINE %s-%s,%d' % (p0, p1, c)))
        out.append(('pset', b'PSET %s,%d' % (p0, c)))
    # CIRCLE
    lr = env.lr
    if quick:
        combos = [(ctr, r, asp, arc) for i, ctr in enumerate(D6) for j, r in enumerate((1, 50))
                  for k, asp in enumerate((None, .5, 2)) for arc in ((i + j + k) % 2,)]
    else:
        combos = [(ctr, r, asp, arc) for ctr in D12 for r in (0, 1, 5, 50)
                  for asp in (None, .5, 2) for arc in (0, 1)]
        combos += [(ctr, 1000, asp, 0) for ctr in (D12[2], D12[4]) for asp in (None, .5, 2)]
    for (x, y), r, asp, arc in combos:
        st = b'CIRCLE %s,%s,%d' % (P(x, y), fmt_num(lr(r)), c)
        if arc or asp is not None:
            st += b',-1,-2' if arc else b',,'
        if asp is not None:
            st += b',' + fmt_num(asp)
        out.append(('circle', st))
    # PAINT: flat background, barred background, tile
    ax0, ay0, ax1, ay1 = env.rect
    lo_x, hi_x = ax0 - env.ox, ax1 - env.ox
    lo_y, hi_y = ay0 - env.oy, ay1 - env.oy
    bars = b'LINE %s-%s,%d:LINE %s-%s,%d,,&HF0F0:' % (
        P(lo_x + 2, lo_y), P(lo_x + 2, hi_y), c, P(lo_x, lo_y + 3), P(hi_x, lo_y + 3), c)
    fill2 = (2 % g.nattr) if env.pol == 0 else (g.maxattr - 1)
    for (x, y) in (D12 if quick else XX):
        out.append(('paint', b'PAINT %s,%d' % (P(x, y), c)))
    for (x, y) in (D4 if quick else EE):
        out.append(('paint-bars', bars + b'PAINT %s,%d' % (P(x, y), c)))
        out.append(('paint-bars', bars + b'PAINT %s,%d,%d' % (P(x, y), fill2, c)))
        tile = b'CHR$(&H55)+CHR$(&HAA)' if env.pol == 0 else b'CHR$(&H50)+CHR$(&H0A)+CHR$(0)'
        out.append(('paint-tile', b'PAINT %s,%s,%d' % (P(x, y), tile, c)))
    # DRAW (physical viewport coordinates, M limited to +-9999)
    def cl(v):
        return max(-9999, min(9999, v))
    moves = [b'U1000', b'D1000', b'L1000', b'R1000', b'E1000', b'F1000', b'G1000', b'H1000',
             b'M+1000,-1000', b'M-1000,+1000']
    pts = D4 if quick else D12
    for i, (x, y) in enumerate(pts):
        mv = moves + [b'M%d,%d' % (cl(pts[(i + 1) % len(pts)][0]), cl(pts[(i + 1) % len(pts)][1]))]
        if quick:
            mv = mv[i % 2::2]
        for m in mv:
            out.append(('draw', b'DRAW "C%dBM%d,%d%s"' % (c, cl(x), cl(y), m)))
        out.append(('draw-paint', b'DRAW "BM%d,%dP%d,%d"' % (cl(x), cl(y), c, c)))
    # PUT
    own = 1 if env.pol == 0 else 0     # sprite whose PSET is visible on this background
    for (x, y) in (D12 if quick else XX):
        out.append(('put', b'PUT %s,S%d%%,PSET' % (P(x, y), own)))
    verbs = (b'PSET', b'PRESET', b'AND', b'OR', b'XOR', None)
    sw, sh = env.sprites['S']
    vw, vh = env.sprites['V']
    inside_s = [(lo_x, lo_y), (hi_x - sw + 1, hi_y - sh + 1), (hi_x - sw + 2, lo_y), (lo_x, hi_y - sh + 2)]
    inside_v = [(lo_x, lo_y), (lo_x + 1, lo_y), (lo_x, lo_y + 1), (lo_x - 1, lo_y),
                (hi_x - vw + 1, hi_y - vh + 1)]
    for nm, pts in (('S', (D4 if quick else D12) + inside_s),
                    ('V', (D4 + inside_v[:3]) if quick else (D12 + inside_v)),
                    ('B', (D4[:2] + inside_v[:1]) if quick else (D4 + inside_v[:2]))):
        for (x, y) in pts:
            for vi, verb in enumerate(verbs):
                for bit in (0, 1):
                    if quick and (vi + bit) % 2:
                        continue
                    st = b'PUT %s,%s%d%%' % (P(x, y), nm.encode(), bit)
                    if verb:
                        st += b',' + verb
                    out.append(('put-' + nm, st))
    # STEP forms (history: the current point set by the preceding statement)
    for (x, y) in (D4 if quick else D12):
        pre = b'PSET %s,%d:' % (P(x, y), c)
        out.append(('step', pre + b'LINE -STEP%s,%d' % (S(1000, 1000), c)))
        out.append(('step', pre + b'LINE STEP%s-STEP%s,%d,BF' % (S(-5, -5), S(10, 10), c)))
        out.append(('step', pre + b'CIRCLE STEP%s,%s,%d' % (S(0, 0), fmt_num(lr(5)), c)))
        out.append(('step', pre + b'PAINT STEP%s,%d' % (S(1, 1), c)))
        out.append(('step', pre + b'PSET STEP%s,%d' % (S(-1000, 3), c)))
    return out


def gen_view_statements(env, quick):
    """VIEW with fill and border -> list of (kind, statement, allowed rectangle)."""
    W, Hh = env.g.w, env.g.h
    c = env.c
    xs = [0, 1, 8, W - 2, W - 1]
    ys = [0, 1, Hh - 2, Hh - 1]
    xp = [(a, b) for i, a in enumerate(xs) for b in xs[i + 1:]]
    yp = [(a, b) for i, a in enumerate(ys) for b in ys[i + 1:]]
    if quick:
        xp = [xp[0], xp[6], xp[9]]
        yp = [yp[0], yp[5]]
    c2 = (2 % env.g.nattr) if env.pol == 0 else (env.g.maxattr - 1)
    out = []
    for (x0, x1) in xp:
        for (y0, y1) in yp:
            for scr in (b'', b'SCREEN '):
                tails = (('view-plain', b'', 0), ('view-fill', b',%d' % c, 0), ('view-border', b',,%d' % c, 1),
                         ('view-fill-border', b',%d,%d' % (c2, c), 1))
                for k, (kind, tail, ring) in enumerate(tails):
                    if quick and k == 2 and scr:
                        continue
                    # corners given in either order
                    if (x0 + y0 + k) % 2:
                        st = b'VIEW %s(%d,%d)-(%d,%d)%s' % (scr, x1, y0, x0, y1, tail)
                    else:
                        st = b'VIEW %s(%d,%d)-(%d,%d)%s' % (scr, x0, y0, x1, y1, tail)
                    # the border ring is outside the viewport by definition: allowed only when a
                    # border was asked for
                    allowed = (max(0, x0 - ring), max(0, y0 - ring), min(W - 1, x1 + ring), min(Hh - 1, y1 + ring))
                    out.append((kind, st, allowed))
    return out


def _kind_key(kind, where, env):
    if kind.startswith('view-'):
        # the configuration's own viewport is irrelevant for VIEW itself
        return '%s/%s' % (kind, 'other-page-changed' if where == 'other-page' else 'outside-new-viewport')
    return '%s/%s/view=%s' % (
        kind, 'other-page-changed' if where == 'other-page' else 'outside-viewport-' + where, env.view)


def run_case(env, part, kind, stmt, allowed=None, restore_view=False):
    """Run one statement in the prepared configuration and apply the oracle."""
    g = env.g
    case = {'cfg': list(env.cfg), 'kind': kind, 'stmt': stmt,
            'allowed': list(allowed) if allowed else None}
    r = g.run(stmt, seconds=60)
    part.n += 1
    part.traces += 1
    if r.exc is not None:
        if isinstance(r.exc, G.Watchdog):
            part.violation('%s/hang/view=%s' % (kind, env.view),
                           '%s on %s SCREEN %d did not finish in 60 s' % (stmt, g.adapter, g.nr), case)
            env.dead = True
            return r, False, []
        part.violation('%s/host-exception/%s' % (kind, H.exc_key(r.exc)),
                       '%r on %s SCREEN %d (%s): %r' % (stmt, g.adapter, g.nr, env.cfg[3:], r.exc), case)
    ctrl = None
    if r.err is not None:
        # the interpreter printed the error message on the screen: compare with the picture
        # ERROR n leaves from the same cursor position
        ctrl = env.control(r.err)
    elif r.out:
        raise CheckError('unexpected output %r from %r' % (r.out, stmt))
    changed, bad = env.inspect(allowed or env.rect, ctrl)
    if r.err is not None:
        g.must(b'LOCATE 1,1')
    for where, detail in bad[:4]:
        part.violation(
            _kind_key(kind, where, env),
            '%s SCREEN %d view=%s win=%s apage=%d: %r changed %s; allowed rectangle %r' % (
                g.adapter, g.nr, env.view, env.win, env.apage, stmt, detail, tuple(allowed or env.rect)),
            case)
    if r.err is not None:
        oc = 'err%d' % r.err
    elif r.exc is not None:
        oc = 'exc'
    else:
        oc = 'changed' if changed else 'nochange'
    part.outcome('%s:%s' % (kind, oc))
    part.classes.add('%s/%s/%s' % (kind, env.view, oc))
    part.classes.add('%s/win-%s' % (kind, env.win))
    part.classes.add('mode/%s/%s' % (g.mode.name, env.view))
    if restore_view:
        env.reissue_view()
    return r, changed, bad


def work_gfx(cfg):
    part = Partial()
    quick = cfg[8]
    env = Env(cfg)
    try:
        stmts = gen_statements(env, quick)
        for kind, stmt in stmts:
            run_case(env, part, kind, stmt)
            if env.dead:
                return part
        for kind, stmt, allowed in gen_view_statements(env, quick):
            run_case(env, part, kind, stmt, allowed, restore_view=True)
            if env.dead:
                return part
        # a VIEW statement that is refused changes nothing: the configuration's viewport stays in force
        W, Hh = env.g.w, env.g.h
        c = env.c
        for bad in (b'VIEW (9,3)-(9,%d),%d,%d' % (Hh - 4, c, c), b'VIEW SCREEN (3,7)-(%d,7),%d' % (W - 4, c),
                    b'VIEW (2,2)-(%d,%d),300' % (W - 3, Hh - 3), b'VIEW SCREEN (2,2)-(%d,%d),%d,300' % (W - 3, Hh - 3, c),
                    b'VIEW (2,2)-(%d,%d),%d' % (W + 10, Hh - 3, c), b'VIEW (2,2)-(10,10),"a"'):
            r, _, _ = run_case(env, part, 'view-refused', bad)
            if env.dead:
                return part
            if r.err is None and r.exc is None:
                # (accepted after all: not what this case is for)
                env.reissue_view()
                continue
            run_case(env, part, 'after-refused-view', b'LINE (-30000,-30000)-(30000,30000),%d,BF' % c, restore_view=True)
            if env.dead:
                return part
        env.check_clean('run')
        part.sample({'cfg': list(cfg), 'first': stmts[0][1], 'n': len(stmts)})
    finally:
        env.close()
    return part


# ---------------------------------------------------------------------------
# text modes

TEXT_STMTS = [
    b'PSET (1,1)', b'PSET (1,1),1', b'PRESET (1,1)', b'PSET STEP (1,1)', b'PSET (-32768,32767)',
    b'PRESET (1000,-1),0', b'PSET (0,0),0',
    b'LINE (0,0)-(10,10)', b'LINE -(5,5),1,B', b'LINE (0,0)-(1,1),,BF', b'LINE (0,0)-(9,9),1,,&HAAAA',
    b'LINE (-1000,0)-(32767,5),1,BF', b'LINE STEP(1,1)-STEP(2,2)',
    b'CIRCLE (10,10),5', b'CIRCLE (10,10),5,1,0,1,.5', b'CIRCLE STEP (1,1),2', b'CIRCLE (0,0),0',
    b'PAINT (1,1)', b'PAINT (1,1),1,1', b'PAINT (1,1),CHR$(85)', b'PAINT STEP (0,0),1',
    b'DRAW "U3"', b'DRAW "BM10,10"', b'DRAW "C1R5D5L5U5"', b'DRAW "P1,1"',
    b'PUT (0,0),A%', b'PUT (0,0),A%,PSET', b'PUT (0,0),A%,PRESET', b'PUT (0,0),A%,XOR',
    b'PUT (0,0),A%,AND', b'PUT (0,0),A%,OR', b'PUT (100,100),A%',
    b'GET (0,0)-(2,2),A%',
    b'VIEW', b'VIEW (1,1)-(10,10)', b'VIEW SCREEN (1,1)-(10,10),1,1', b'VIEW (1,1)-(10,10),1',
    b'WINDOW', b'WINDOW (0,0)-(1,1)', b'WINDOW SCREEN (0,0)-(1,1)',
    b'X=POINT(1,1)',
]


def _text_session(adapter, width, apage):
    g = G.Gfx(adapter, None, width)
    if not g.text:
        raise CheckError('expected a text mode')
    if g.mode.width != width:
        # adapter refused the width: not a configuration
        g.close()
        return None
    g.must(b'DIM A%(40)')
    g.must(b'A%(0)=8:A%(1)=2:A%(2)=-1')
    g.must(b'COLOR 7,0:CLS:PRINT "abc";TAB(20);"xyz":LOCATE 5,3:PRINT "Q";')
    if apage:
        if apage >= g.npages:
            g.close()
            return None
        g.must(b'SCREEN ,,%d,0' % apage)
        g.must(b'LOCATE 2,2:PRINT "page";')
    return g


def _text_state(g):
    try:
        ts = g.s._impl.text_screen
        st = []
        for p in g.pages:
            st.append((
                [bytes(r) for r in p._pixels._rows],
                [(b''.join(r.chars), tuple(r.attrs), r.length, r.wrap) for r in p._rows],
            ))
        return (st, ts.current_row, ts.current_col, g.apagenum, g.vpagenum, g.mode.name)
    except AttributeError as e:
        raise CheckError('internal seam missing: %s' % e)


def _text_case(part, adapter, width, apage, stmt, control):
    g = _text_session(adapter, width, apage)
    try:
        r = g.run(stmt, seconds=30)
        state = _text_state(g)
    finally:
        g.close()
    case = {'adapter': adapter, 'width': width, 'apage': apage, 'stmt': stmt}
    part.n += 1
    part.traces += 1
    kind = stmt.split(b' ')[0].split(b'=')[-1].split(b'(')[0].decode('ascii').lower()
    if r.exc is not None:
        part.violation('text/%s/host-exception/%s' % (kind, H.exc_key(r.exc)),
                       '%r in %s text %d: %r' % (stmt, adapter, width, r.exc), case)
        return
    part.outcome('text:err%s' % r.err)
    part.classes.add('text/%s/p%d' % (kind, apage))
    part.classes.add('text/%s/w%d' % (adapter, width))
    if r.err != 5:
        part.violation('text/%s/not-illegal-function-call' % kind,
                       '%r in %s text mode width %d: error %r, expected Illegal function call (5); output %r' % (
                           stmt, adapter, width, r.err, r.out), case)
        return
    if state != control:
        what = 'screen state'
        for i, (a, b) in enumerate(zip(state[0], control[0])):
            if a[0] != b[0]:
                what = 'pixels of page %d' % i
            elif a[1] != b[1]:
                what = 'text of page %d' % i
        part.violation('text/%s/changed-something' % kind,
                       '%r in %s text mode width %d raised IFC but %s differs from the state after ERROR 5' % (
                           stmt, adapter, width, what), case)


def work_text(shard):
    adapter, width, apage = shard
    part = Partial()
    g = _text_session(adapter, width, apage)
    if g is None:
        part.outcome('text:config-not-available')
        return part
    try:
        r = g.run(b'ERROR 5')
        if r.err != 5:
            raise CheckError('control statement ERROR 5 gave %r' % r)
        control = _text_state(g)
    finally:
        g.close()
    for stmt in TEXT_STMTS:
        _text_case(part, adapter, width, apage, stmt, control)
    part.sample({'adapter': adapter, 'width': width, 'apage': apage, 'stmts': len(TEXT_STMTS)})
    return part


# ---------------------------------------------------------------------------

def _gfx_configs(quick):
    modes = G.graphics_modes()
    first, rest = G.representatives(modes)
    cfgs = []
    pp = [(0, 0), (1, 1), (1, 0), (0, 1)]     # (active page, polarity)
    for (adapter, nr, name) in modes:
        full = (not quick) and (adapter, nr, name) in first
        k = 0
        for view in VIEWS:
            for win in WINS:
                if full:
                    combos = pp
                else:
                    combos = [pp[k % 4]]
                k += 1
                for (apage, pol) in combos:
                    order = (apage + pol + k) % 2 if (view != 'none' and win != 'none') else 0
                    cfgs.append((adapter, nr, name, view, win, apage, pol, order, not full))
    return cfgs, len(modes), len(first)


def legs(ctx):
    cfgs, nmodes, nfirst = _gfx_configs(ctx.quick)
    if ctx.quick:
        bound = ('%d (adapter,SCREEN) modes x 5 views x 3 windows (page/polarity rotating) = %d configurations x '
                 'quick grammar (~400 statements, 7 coordinate classes per axis)' % (nmodes, len(cfgs)))
    else:
        bound = ('%d distinct graphics modes x 5 views x 3 windows x 4 (page,polarity) x full grammar '
                 '(~2,700 statements, up to 14 coordinate classes per axis) + %d further (adapter,SCREEN) pairs '
                 'sharing those modes x 15 x quick grammar = %d configurations' % (
                     nfirst, nmodes - nfirst, len(cfgs)))
    text = [(a, w, p) for (a, w) in G.text_modes() for p in (0, 1)]
    return [
        Leg('gfx', cfgs, work_gfx, exhaustive=True, bound=bound),
        Leg('text', text, work_text, exhaustive=True,
            bound='%d (adapter,width) text modes x active page {0,1} x %d graphics statements' % (
                len(G.text_modes()), len(TEXT_STMTS))),
    ]


def replay(ctx, leg, case):
    part = Partial()
    if leg == 'text':
        g = _text_session(case['adapter'], case['width'], case['apage'])
        try:
            g.run(b'ERROR 5')
            control = _text_state(g)
        finally:
            g.close()
        _text_case(part, case['adapter'], case['width'], case['apage'], case['stmt'], control)
        return part
    cfg = tuple(case['cfg'])
    env = Env(cfg)
    try:
        allowed = tuple(case['allowed']) if case.get('allowed') else None
        run_case(env, part, case['kind'], case['stmt'], allowed, restore_view=bool(allowed))
    finally:
        env.close()
    return part
