"""
C42 - PLAY emits the notes its music string specifies.

E1 (domain enumeration through Session.execute with a recording audio queue):
  seq    : ALL token sequences of length <= 2 (quick) / <= 3 (thorough) over a 43-token MML
           alphabet (notes with sharps/flats/lengths/dots, N, L, T, O, < >, MN/ML/MS, P, X substrings
           by name and by VARPTR$, =variable; numbers, blanks, separators, 8 malformed tokens)
  state  : full product  T x L x O x M x octave shift x note form  (every play-state combination)
  table  : every note name x octave 0..6, N0..N85, L0..L65 x dots 0..3, T31..T256, O0..O7
  tandy  : three-voice PLAY a$,b$,c$ (syntax=tandy): all triples of 12 voice strings
Oracle: models/mml.py (reference interpreter from the statement); frequencies and durations
compared with 1e-9 relative tolerance on the audible timeline of each voice.
"""
import itertools
import logging
import datetime as _dt

from mc.core import Leg, Partial, CheckError, chunked
from mc import harness as H
from models import mml

PROPERTY = 'C42'
ENGINE = 'E1 domain'
LEVEL = 'model_checking'
LEVEL_TEXT = (
    'Bounded exhaustive enumeration of music strings executed by the real PLAY statement in background '
    'mode with a recording audio queue and a frozen sound clock: every token sequence up to length 2/3 over '
    'a 43-token alphabet, the full product of tempo x length x octave x articulation x octave-shift x note '
    'form, the complete value tables of notes/N/L/T/O, and all triples of 12 voice strings on the Tandy '
    'three-voice path; every emitted tone is compared with a reference MML interpreter (1e-9 relative).')
LEVEL_NOTE = (
    'Trusted: models/mml.py, the frozen clock patched into pcbasic.basic.sound, the recording audio queue. '
    'MF (foreground) is not enumerated: it blocks on real time.')
TECHNIQUE = ('bounded exhaustive enumeration of MML strings on the real PLAY statement against a reference '
             'MML interpreter; comparison of the emitted tone signals')
RULE = ('a case is one PLAY statement on fresh play state (CLEAR); a case class is (leg, token classes in the '
        'string, outcome ok/ifc); non-trivial = the string changes play state, uses a variable/substring, '
        'dots, rests or is malformed')
ASSUMPTIONS = [
    'internal seam: impl.queues.audio recording queue; pcbasic.basic.sound.datetime replaced by a frozen '
    'clock (sound timing reads the wall clock only to expire queue entries)',
    'defaults O4 L4 T120 MN are taken from the GW-BASIC manual (the statement does not give them)',
    'the statement can be read as "tone lasts D, then a gap of g*D" or "tone lasts D*(1-g), gap g*D '
    '(the note occupies D)" - both accepted; the gap itself is g*D in both',
    'rests are silent tones (frequency 0 or volume 0); adjacent silences are merged before comparing; '
    'zero-length silent markers (Tandy voice synchronisation) are ignored',
    'unspecified, both outcomes accepted: note length 0 (B0), P0, a trailing or doubled ";"',
    'only black keys may be sharpened/flattened (E#, B#, C-, F- are malformed) as in the GW-BASIC manual',
    'for malformed strings only "Illegal function call" is required by the statement; that the tones '
    'emitted before the error equal the reference prefix is checked under a separate key',
    'Tandy/PCjr play frequencies below 110 Hz as 110 Hz (documented); the Tandy leg uses octaves >= 2',
]

logging.disable(logging.CRITICAL)

VARS = {'A$': b'O3E', 'L%': 8, 'B!': 40000.0, 'H!': 2.5}
PTR_STR = b'\x03\x00\x00'
PTR_INT = b'\x02\x00\x00'

# token: (reference bytes, class)
TOKENS = [
    (b'C', 'note'), (b'C#', 'note#'), (b'D-', 'note-'), (b'E4', 'note-len'), (b'F64.', 'note-len-dot'),
    (b'G..', 'note-dots'), (b'B0', 'note-len0'), (b'A1', 'note-len'), (b'B-8', 'note-len'),
    (b'N0', 'N0'), (b'N1', 'N'), (b'N42', 'N'), (b'N84', 'N'), (b'N85', 'bad'),
    (b'L1', 'L'), (b'L4', 'L'), (b'L64', 'L'), (b'L65', 'bad'),
    (b'T32', 'T'), (b'T120', 'T'), (b'T255', 'T'), (b'T31', 'bad'),
    (b'O0', 'O'), (b'O6', 'O'), (b'O7', 'bad'),
    (b'<', '<'), (b'>', '>'), (b'MN', 'M'), (b'ML', 'M'), (b'MS', 'M'),
    (b'P4', 'P'), (b'P1.', 'P'), (b'P', 'badP'),
    (b'XA$;', 'X'), (b'X' + PTR_STR, 'Xptr'), (b'L=L%;', '=var'), (b'L=' + PTR_INT, '=ptr'),
    # a single beyond the 16-bit range (Illegal function call like any other bad length, not Overflow) and one at .5
    (b'L=B!;', 'bad'), (b'L=H!;', '=var'),
    (b' ', 'blank'), (b';', 'sep'), (b'Q', 'bad'), (b'E#', 'bad'), (b'MZ', 'bad'), (b'N', 'badN'),
]


COARSE = {'note#': 'note', 'note-': 'note', 'note-len': 'note-len', 'note-len-dot': 'note-len', 'note-dots': 'note-len',
          'note-len0': 'note-len0', 'N0': 'N', '<': 'shift', '>': 'shift', 'Xptr': 'X', '=ptr': '=var',
          'blank': 'sep', 'badP': 'bad', 'badN': 'bad'}


def real_expr(ref):
    """BASIC string expression for a reference string (pointers -> VARPTR$)."""
    out = []
    cur = b''
    i = 0
    while i < len(ref):
        if ref[i:i + 3] == PTR_STR:
            out.append(b'"%s"' % cur)
            out.append(b'VARPTR$(A$)')
            cur = b''
            i += 3
        elif ref[i:i + 3] == PTR_INT:
            out.append(b'"%s"' % cur)
            out.append(b'VARPTR$(L%)')
            cur = b''
            i += 3
        else:
            cur += ref[i:i + 1]
            i += 1
    out.append(b'"%s"' % cur)
    return b'+'.join(out)


# ---------------------------------------------------------------------------------------
# frozen clock for pcbasic.basic.sound

class _FrozenDT(_dt.datetime):
    @classmethod
    def now(cls, tz=None):
        return cls(2020, 1, 1, 0, 0, 0)


class _FrozenModule(object):
    datetime = _FrozenDT
    timedelta = _dt.timedelta


def _install_clock():
    import pcbasic.basic.sound as snd
    if not hasattr(snd, 'datetime'):
        raise CheckError('pcbasic.basic.sound has no datetime attribute')
    snd.datetime = _FrozenModule


def new_session(**kw):
    _install_clock()
    s = H.new_session(record_audio=True, horizon=300, at_horizon='raise', **kw)
    return s


def close(a, b):
    return abs(a - b) <= 1e-9 * max(abs(a), abs(b), 1e-300)


def real_timelines(items):
    """voice -> [(freq or 0, dur)] with adjacent silences merged; zero-length entries dropped."""
    tl = {}
    other = []
    for ev in items:
        if ev.event_type != 'tone':
            other.append(ev.event_type)
            continue
        voice, f, dur, loop, volume = ev.params
        if loop:
            other.append('loop')
        if dur == 0:
            continue
        if volume == 0 or f == 0:
            f = 0
        v = tl.setdefault(voice, [])
        if f == 0 and v and v[-1][0] == 0:
            v[-1] = (0, v[-1][1] + dur)
        else:
            v.append((f, dur))
    return tl, other


def same_timeline(real, ref):
    if len(real) != len(ref):
        return False
    for (f1, d1), (f2, d2) in zip(real, ref):
        if (f1 == 0) != (f2 == 0):
            return False
        if f1 and not close(f1, f2):
            return False
        if not close(d1, d2):
            return False
    return True


def describe(tl):
    return '[' + ', '.join('%.6g Hz x %.6g s' % x for x in tl[:6]) + (' ...' if len(tl) > 6 else '') + ']'


def _lower(ref):
    """The same music string in lower case (the pointers of VARPTR$ are binary and stay as they are)."""
    out = b''
    i = 0
    while i < len(ref):
        if ref[i:i + 3] in (PTR_STR, PTR_INT):
            out += ref[i:i + 3]
            i += 3
        else:
            out += ref[i:i + 1].lower()
            i += 1
    return out


def run_case(s, part, leg, ref_strings, classes, case, spell=None):
    """Execute PLAY on fresh play state; compare every voice with the reference.
    ref_strings: list of reference byte strings (1 or 3 voices); spell: how the strings are written for the interpreter."""
    q = s._impl.queues.audio
    spell = spell or (lambda b: b)
    exprs = b','.join(real_expr(spell(b'MB' + r)) if i == 0 else real_expr(spell(r)) for i, r in enumerate(ref_strings))
    stmt = b'CLEAR:A$="%s":L%%=%d:B!=%d:H!=2.5:PLAY %s' % (VARS['A$'], VARS['L%'], int(VARS['B!']), exprs)
    q.drain()
    try:
        r = H.run(s, stmt)
    except H.Horizon:
        part.violation('%s/blocks/%s' % (leg, classes), 'PLAY did not return: %r' % stmt, case)
        return None
    items = q.drain()
    part.n += 1
    part.traces += 1
    if r.exc is not None:
        part.violation('%s/host-exception/%s' % (leg, H.exc_key(r.exc)), '%r: %r' % (stmt, r.exc), case)
        return None
    real, other = real_timelines(items)
    exp_status = 'ok'
    unspec = set()
    refs = []
    for v, rs in enumerate(ref_strings):
        status, events, u = mml.run(b'MB' + rs if v == 0 else rs, VARS)
        unspec |= u
        refs.append((status, events))
        if status == 'ifc':
            exp_status = 'ifc'
    got_status = 'ok' if r.err is None else ('ifc' if r.err == 5 else 'err%d' % r.err)
    part.outcome(got_status)
    if got_status != exp_status:
        if unspec and got_status in ('ok', 'ifc'):
            part.outcome('unspecified:' + '+'.join(sorted(unspec)))
            return got_status
        part.violation(
            '%s/%s/%s' % (leg, 'malformed-accepted' if exp_status == 'ifc' else 'valid-rejected', classes),
            'PLAY %r: got %s, reference %s' % (b' , '.join(ref_strings), got_status, exp_status), case)
        return got_status
    if 'loop' in other:
        part.violation('%s/looping-tone/%s' % (leg, classes), 'PLAY %r emitted a looping tone' % stmt, case)
    if len(ref_strings) == 1 and set(real) - {0}:
        part.violation('%s/wrong-voice/%s' % (leg, classes),
                       'PLAY %r emitted tones on voices %r' % (stmt, sorted(real)), case)
    for v, (status, events) in enumerate(refs):
        rt = real.get(v, [])
        ok = any(same_timeline(rt, mml.timeline(events, reading)) for reading in (1, 2))
        if not ok and 'note-length-0' in unspec:
            continue
        if not ok and any(same_timeline(rt, mml.timeline(events, reading, -1)) for reading in (1, 2)):
            # every tone is exactly one semitone below the statement's formula, i.e. note number n sounds
            # at 440*2^((n-34)/12): N34 = A440, N1 = 65.4 Hz (what GW-BASIC plays); everything else agrees
            part.violation(
                'freq/statement-formula-off-by-one-semitone',
                'PLAY %r voice %d: emitted %s = 440*2^((n-34)/12); the statement says 440*2^((n-33)/12): %s' % (
                    b' , '.join(ref_strings), v, describe(rt), describe(mml.timeline(events, 1))), case)
            part.outcome('one-semitone-below-statement')
            continue
        if not ok:
            if exp_status == 'ifc':
                key = '%s/ifc-emitted-prefix-differs/%s' % (leg, classes)
            else:
                key = '%s/wrong-tones/%s' % (leg, classes)
            part.violation(
                key, 'PLAY %r voice %d: emitted %s, reference %s' % (
                    b' , '.join(ref_strings), v, describe(rt), describe(mml.timeline(events, 1))), case)
    return got_status


# ---------------------------------------------------------------------------------------
# legs

def work_seq(shard):
    part = Partial()
    s = new_session()
    for idxs in shard:
        toks = [TOKENS[i] for i in idxs]
        ref = b''.join(t[0] for t in toks)
        classes = '+'.join(sorted(set(COARSE.get(t[1], t[1]) for t in toks))) or 'empty'
        case = {'leg': 'seq', 'tokens': list(idxs)}
        run_case(s, part, 'seq', [ref], classes, case)
        # the same string in lower case
        if ref != _lower(ref):
            run_case(s, part, 'seq-lower', [ref], classes, dict(case, lower=True), spell=_lower)
        part.classes.add(classes if len(classes) < 40 else classes[:40])
    part.sample({'tokens': [list(i) for i in shard[:2]]})
    return part


STATE_T = (b'', b'T32', b'T120', b'T255')
STATE_L = (b'', b'L1', b'L4', b'L64', b'L=L%;')
STATE_O = (b'', b'O0', b'O3', b'O6')
STATE_M = (b'', b'MN', b'ML', b'MS')
STATE_SHIFT = (b'', b'<', b'>', b'>>>>>>>', b'<<<<<<<',
               # saturate at the limit, then come back: the clamp must not remember the excess
               b'><', b'<>', b'>>><', b'<<<>>', b'>>>>>>><<', b'<<<<<<<>>')
STATE_NOTE = (b'C', b'C#', b'D-', b'D', b'E-', b'E', b'F', b'F#', b'G', b'A-', b'A', b'B-', b'B', b'B8', b'A2.',
              b'G64..', b'N1', b'N37.', b'N84', b'P8', b'P2.', b'N0')


def state_cases():
    return list(itertools.product(range(len(STATE_T)), range(len(STATE_L)), range(len(STATE_O)),
                                  range(len(STATE_M)), range(len(STATE_SHIFT)), range(len(STATE_NOTE))))


def work_state(shard):
    part = Partial()
    s = new_session()
    for c in shard:
        t, l, o, m, sh, nt = c
        ref = STATE_T[t] + STATE_L[l] + STATE_O[o] + STATE_M[m] + STATE_SHIFT[sh] + STATE_NOTE[nt] + b'C'
        classes = 'form-%s' % STATE_NOTE[nt].decode()
        run_case(s, part, 'state', [ref], classes, {'leg': 'state', 'idx': list(c)})
        part.classes.add('%s/%s' % (STATE_M[m].decode() or 'M-', STATE_SHIFT[sh].decode()[:2] or 'noshift'))
    part.sample({'idx': [list(c) for c in shard[:2]]})
    return part


def table_cases():
    out = []
    names = [b'C', b'C#', b'C+', b'C-', b'D', b'D#', b'D-', b'E', b'E#', b'E-', b'F', b'F#', b'F-', b'G', b'G#',
             b'G-', b'A', b'A#', b'A-', b'B', b'B#', b'B-']
    for o in range(0, 8):
        for nm in names:
            out.append(('note', b'O%d%s' % (o, nm)))
    for n in range(0, 87):
        out.append(('N', b'N%d' % n))
    for l in range(0, 67):
        for dots in range(4):
            out.append(('L', b'L%dC%s' % (l, b'.' * dots)))
            out.append(('len', b'C%d%s' % (l, b'.' * dots)))
            out.append(('P', b'P%d%s' % (l, b'.' * dots)))
    for t in range(30, 258):
        out.append(('T', b'T%dC' % t))
    return out


def work_table(shard):
    part = Partial()
    s = new_session()
    for kind, ref in shard:
        run_case(s, part, 'table', [ref], kind, {'leg': 'table', 'ref': ref, 'kind': kind})
        part.classes.add(kind)
    part.sample({'table': [r for _, r in shard[:3]]})
    return part


TANDY_VOICE = (b'', b'C', b'O2C', b'O5L8E', b'T255G', b'MLA', b'MSB-4.', b'P4', b'>F#', b'L=L%;D', b'N30', b'XA$;')


def work_tandy(shard):
    part = Partial()
    s = new_session(syntax='tandy', video='tandy')
    for c in shard:
        a, b, cc = c
        refs = [TANDY_VOICE[a], TANDY_VOICE[b], TANDY_VOICE[cc]]
        if not any(refs):
            continue
        classes = 'voices%d%d%d' % (bool(refs[0]), bool(refs[1]), bool(refs[2]))
        run_case(s, part, 'tandy', refs, classes, {'leg': 'tandy', 'idx': list(c)})
        part.classes.add(classes)
    part.sample({'idx': [list(c) for c in shard[:2]]})
    return part


# play state carried from one PLAY statement to the next, also past statements that break off

PERSIST_UNITS = [b'O2', b'T200', b'L8', b'MS', b'>C', b'<<<', b'ML',
                 b'O7', b'O-1', b'T20', b'T300', b'L0', b'L65', b'CO9D', b'N85', b'E8T9', b'O=L%;']
PERSIST_PROBES = [b'C', b'<F>G', b'N30', b'E.P8B-']


def work_persist(shard):
    part = Partial()
    s = new_session()
    q = s._impl.queues.audio
    for seq in shard:
        texts = [PERSIST_UNITS[i] for i in seq[:-1]] + [PERSIST_PROBES[seq[-1]]]
        case = {'leg': 'persist', 'seq': list(seq)}
        r = H.run(s, b'CLEAR:L%%=%d:PLAY "MB"' % VARS['L%'])
        q.drain()
        st = mml.State()
        mml.run(b'MB', VARS, st)
        part.n += 1
        part.traces += 1
        for k, text in enumerate(texts):
            try:
                r = H.run(s, b'PLAY "%s"' % text)
            except H.Horizon:
                part.violation('persist/blocks', 'PLAY %r did not return (after %r)' % (text, texts[:k]), case)
                break
            items = q.drain()
            if r.exc is not None:
                part.violation('persist/host-exception/%s' % H.exc_key(r.exc), '%r after %r: %r' % (text, texts[:k], r.exc), case)
                s = new_session()
                q = s._impl.queues.audio
                break
            status, events, unspec = mml.run(text, VARS, st)
            got = 'ok' if r.err is None else ('ifc' if r.err == 5 else 'err%d' % r.err)
            failed_before = any(mml.run(t, VARS)[0] == 'ifc' for t in texts[:k])
            where = 'after-failed-statement' if failed_before else 'plain'
            if got != status:
                part.violation('persist/status/%s' % where, 'PLAY %r after %r: got %s, reference %s' % (text, texts[:k], got, status), case)
                break
            real, other = real_timelines(items)
            rt = real.get(0, [])
            if not any(same_timeline(rt, mml.timeline(events, reading, shift)) for reading in (1, 2) for shift in (0, -1)):
                part.violation('persist/wrong-tones/%s' % where,
                               'PLAY %r after %r: emitted %s, reference %s' % (
                                   text, [t.decode() for t in texts[:k]], describe(rt), describe(mml.timeline(events, 1))), case)
                break
        part.classes.add('persist/%s' % ''.join('F' if mml.run(t, VARS)[0] == 'ifc' else 'v' for t in texts))
    part.sample({'leg': 'persist', 'seq': list(shard[0])})
    return part


def legs(ctx):
    out = _legs(ctx)
    nu, npr = len(PERSIST_UNITS), len(PERSIST_PROBES)
    depth = 2 if ctx.quick else 3
    seqs = [u + (p_,) for d in range(1, depth + 1) for u in itertools.product(range(nu), repeat=d) for p_ in range(npr)]
    out.append(Leg('persist', list(chunked(seqs, 200)), work_persist, exhaustive=True,
                   bound='all sequences of 1..%d PLAY statements over %d units (7 that set octave / tempo / length / articulation, 10 that break '
                         'off with Illegal function call after 0-1 notes) followed by each of %d probe strings, play state carried over' % (
                             depth, nu, npr)))
    return out


def _legs(ctx):
    nt = len(TOKENS)
    depth = 2 if ctx.quick else 3
    seqs = [()]
    for d in range(1, depth + 1):
        seqs.extend(itertools.product(range(nt), repeat=d))
    sc = state_cases()
    if ctx.quick:
        # quick tier: tempo and length reduced to {default, one value}
        sc = [c for c in sc if c[0] in (0, 3) and c[1] in (0, 3, 4)]
    tc = table_cases()
    tv = list(itertools.product(range(len(TANDY_VOICE)), repeat=3))
    if ctx.quick:
        tv = [c for c in tv if sum(1 for x in c if x) <= 2 or len(set(c)) == 1]
    return [
        Leg('seq', list(chunked(seqs, 400)), work_seq, exhaustive=True,
            bound='all %d token sequences of length <= %d over %d tokens' % (len(seqs), depth, nt)),
        Leg('state', list(chunked(sc, 400)), work_state, exhaustive=True,
            bound='full product tempo x length x octave x articulation x shift x note form = %d strings' % len(sc)),
        Leg('table', list(chunked(tc, 200)), work_table, exhaustive=True,
            bound='22 note spellings x O0..O7, N0..N86, L/suffix/P 0..66 x 0..3 dots, T30..T257 = %d strings' % len(tc)),
        Leg('tandy', list(chunked(tv, 200)), work_tandy, exhaustive=True,
            bound='%d triples of %d voice strings, PLAY a$,b$,c$ with syntax=tandy' % (len(tv), len(TANDY_VOICE))),
    ]


def replay(ctx, leg, case):
    leg = case.get('leg', leg)
    if leg == 'seq':
        return work_seq([tuple(case['tokens'])])
    if leg == 'state':
        return work_state([tuple(case['idx'])])
    if leg == 'table':
        return work_table([(case['kind'], case['ref'])])
    if leg == 'tandy':
        return work_tandy([tuple(case['idx'])])
    if leg == 'persist':
        return work_persist([tuple(case['seq'])])
    raise CheckError('unknown leg %r' % leg)
