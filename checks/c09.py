"""
C09 - string functions and statements match their reference definitions.

E1 (full products of fixed alphabets, every case executed as a BASIC statement through
Session.execute so that argument parsing / conversion is included):
  slice    : LEFT$ / RIGHT$  S x N,  MID$ function  S x N x (N + omitted); variable, temporary
             and literal operands
  search   : INSTR  (N + omitted) x S x S
  build    : STRING$  N x (N u S), SPACE$ N, CHR$ N, ASC S, LEN S, concatenation S x S
  sweep    : every integer argument -2..258 for LEFT$/RIGHT$/MID$/SPACE$/CHR$/STRING$, ASC of
             every byte value
  compare  : all 6 relations over all pairs of strings of length <= L over {00, 61, FF} plus
             long strings differing at the end
  midstmt  : MID$(A$,p[,n])=rhs  S x N x (N + omitted) x (S u {A$ itself, MID$(A$,2), LEFT$(A$,1), A$+""}),
             scalar and array-element targets
  lrset    : LSET / RSET  S x (S u {A$, LEFT$(A$,2)}), scalar and array-element targets,
             never-assigned target
  program  : MID$/LSET/RSET on a string literal inside a program line, run twice, listing unchanged
Oracle: models/strref.py (Python slices written from the statement and the manual).
"""
import itertools

from mc.core import Leg, Partial, CheckError, chunked, from_pcbasic
from mc import harness as H
from mc import nosleep
from models import strref as R

nosleep.install()

PROPERTY = 'C09'
ENGINE = 'E1 domain'
LEVEL = 'model_checking'
LEVEL_TEXT = (
    'Every string function and in-place string statement is executed through the interpreter on the full '
    'product of a boundary string alphabet (lengths 0,1,2,3,254,255; bytes 00, 22, FF) and a boundary numeric '
    'alphabet (below -32768, negative, 0, 1, around the string length, 254..257, 32767, above 32767, '
    'fractional, typed literals), and compared with slice-based reference definitions; single-argument '
    'functions are additionally swept over every integer -2..258 and every byte value; the MID$ statement '
    'includes the target itself and substrings of the target as source.')
LEVEL_NOTE = (
    'Trusted: models/strref.py and the headless session harness. Strings outside the alphabets (other lengths '
    'between 6 and 253, other byte values in long strings) are not covered; FIELD-buffer targets are not covered.')
TECHNIQUE = ('bounded exhaustive enumeration of (function, string operands, numeric arguments, operand form) on real '
             'sessions through Session.execute against Python-slice reference definitions')
RULE = ('full product of the string alphabet S and the numeric alphabet N per function (plus integer sweeps); '
        'a case class is (function, operand form, class of each numeric argument relative to the string length, '
        'outcome kind); non-trivial = every class except an in-range call on a short variable operand')
ASSUMPTIONS = [
    'public seam: Session.set_variable/get_variable and direct statements through Session.execute (harness.run)',
    'when several arguments are out of range (e.g. one overflows, another is negative) any of the applicable '
    'errors is accepted: the statement does not fix the order of the checks',
    'INSTR reference definition is the GW-BASIC manual\'s: 0 whenever start > LEN(parent) (also for an empty child '
    'at start = LEN(parent)+1 and for parent = ""), start for an empty child otherwise',
    'MID$ statement with length 0 and a position outside [1,255]: Illegal function call or no effect both accepted',
    'MID$(A$,p[,n])=A$ (source is the target variable itself): the reference definition is the sequential '
    'replacement GW-BASIC performs (bytes copied from the left, so already replaced bytes are re-read; recorded in '
    'tests/basic/unsorted/MIDS: A$="12345678":MID$(A$,4)=A$ gives 12312312); evaluating the right-hand side first '
    '(12312345) is reported as midstmt/self-overlap-not-sequential',
    'fractional arguments are only used where rounding is not a tie (.4, 255.4, 1.6, ...): tie rounding is C03',
    'a negative literal -n reaches the function as a Single (unary minus); its CINT conversion is exact here',
]

OVF = R.OVF

# ---------------------------------------------------------------------------
# alphabets

S_QUICK = [b'', b'a', b'ab', b'abc', b'aab', b'\x00', b'\xff"\x00', b'x' * 254 + b'y', b'x' * 255]
S_MORE = [b'abcd', b'0123456789', b'm' * 128, b'ab' * 127, b'y' + b'x' * 253, bytes(range(1, 256)), bytes(range(0, 255)), b'\x00\x00\x00',
          b'ab' * 127 + b'a']

N_QUICK = [('-32769', OVF), ('-32768', -32768), ('-1', -1), ('0', 0), ('1', 1), ('2', 2), ('3', 3), ('4', 4),
           ('254', 254), ('255', 255), ('256', 256), ('32767', 32767), ('32768', OVF),
           ('.4', 0), ('255.4', 255), ('2#', 2), ('3%', 3),
           # halves are rounded away from zero
           ('.5', 1), ('2.5', 3)]
N_MORE = [('-.4', 0), ('-2', -2), ('5', 5), ('127', 127), ('128', 128), ('253', 253), ('257', 257),
          ('1E5', OVF), ('-1D20', OVF), ('1.6', 2), ('254.6', 255), ('255.6', 256)]


def alph(tier):
    if tier == 'quick':
        return S_QUICK, N_QUICK
    return S_QUICK + S_MORE, N_QUICK + N_MORE


def literal_ok(s):
    return len(s) <= 8 and all(0x20 <= c < 0x7f and c != 0x22 for c in s)


def ncls(v, length=None):
    """Class of a numeric argument relative to a string length."""
    if v is None:
        return 'omit'
    if v == OVF:
        return 'ovf'
    if v < 0:
        return 'neg'
    if v == 0:
        return '0'
    if v > 255:
        return '256+'
    if length is not None:
        if v < length:
            return '<len'
        if v == length:
            return '=len'
        if v == length + 1:
            return 'len+1'
        return '>len'
    return 'in'


def scls(s):
    n = len(s)
    return 'e' if n == 0 else ('1' if n == 1 else ('s' if n < 20 else str(n)))


# ---------------------------------------------------------------------------
# case generators; a case is a dict (JSON-able, sufficient for replay)

def _opforms(s):
    forms = ['var', 'tmp']
    if literal_ok(s):
        forms.append('lit')
    return forms


def gen_slice(tier):
    S, N = alph(tier)
    for s in S:
        for form in _opforms(s):
            for nt, nv in N:
                yield {'fn': 'LEFT$', 'A': s, 'form': form, 'n': [nt], 'v': [nv]}
                yield {'fn': 'RIGHT$', 'A': s, 'form': form, 'n': [nt], 'v': [nv]}
            for pt, pv in N:
                yield {'fn': 'MID$', 'A': s, 'form': form, 'n': [pt], 'v': [pv, None]}
                for nt, nv in N:
                    yield {'fn': 'MID$', 'A': s, 'form': form, 'n': [pt, nt], 'v': [pv, nv]}


def gen_search(tier):
    S, N = alph(tier)
    extra = [b'b', b'bc', b'c', b'y', b'xy', b'xx', b'"', b'\x00'] if tier != 'quick' else [b'b', b'y', b'xy']
    for a in S:
        for b in S + extra:
            for form in ('var', 'tmp'):
                yield {'fn': 'INSTR', 'A': a, 'B': b, 'form': form, 'n': [], 'v': [None]}
                for nt, nv in N:
                    yield {'fn': 'INSTR', 'A': a, 'B': b, 'form': form, 'n': [nt], 'v': [nv]}


def gen_build(tier):
    S, N = alph(tier)
    for nt, nv in N:
        yield {'fn': 'SPACE$', 'n': [nt], 'v': [nv]}
        yield {'fn': 'CHR$', 'n': [nt], 'v': [nv]}
        for ct, cv in N:
            yield {'fn': 'STRING$', 'n': [nt, ct], 'v': [nv, cv]}
        for s in S:
            for form in ('var', 'tmp'):
                yield {'fn': 'STRING$', 'B': s, 'form': form, 'n': [nt], 'v': [nv]}
    for s in S:
        for form in _opforms(s):
            yield {'fn': 'ASC', 'A': s, 'form': form}
            yield {'fn': 'LEN', 'A': s, 'form': form}
    lens = S + [b'z' * k for k in (1, 2, 127, 128, 253)]
    for a in lens:
        for b in lens:
            yield {'fn': '+', 'A': a, 'B': b}


def gen_sweep(tier):
    S, _ = alph('thorough')
    rng = [str(i) for i in range(-2, 259)]
    strs = [b'', b'a', b'abc', b'x' * 254 + b'y', bytes(range(1, 256))]
    for i in range(-2, 259):
        t = str(i)
        yield {'fn': 'SPACE$', 'n': [t], 'v': [i]}
        yield {'fn': 'CHR$', 'n': [t], 'v': [i]}
        for s in strs:
            yield {'fn': 'LEFT$', 'A': s, 'form': 'var', 'n': [t], 'v': [i]}
            yield {'fn': 'RIGHT$', 'A': s, 'form': 'var', 'n': [t], 'v': [i]}
            yield {'fn': 'MID$', 'A': s, 'form': 'var', 'n': [t], 'v': [i, None]}
            for k in (0, 1, 2, 255):
                yield {'fn': 'MID$', 'A': s, 'form': 'var', 'n': [t, str(k)], 'v': [i, k]}
                yield {'fn': 'MID$', 'A': s, 'form': 'var', 'n': [str(k), t], 'v': [k, i]}
        for k in (0, 1, 2, 254, 255, 256):
            yield {'fn': 'STRING$', 'n': [str(k), t], 'v': [k, i]}
        for c in (0, 65, 255):
            yield {'fn': 'STRING$', 'n': [t, str(c)], 'v': [i, c]}
    for c in range(256):
        yield {'fn': 'ASC', 'A': bytes([c]), 'form': 'var'}
        yield {'fn': 'ASC', 'A': bytes([c, 255 - c]), 'form': 'tmp'}
        yield {'fn': 'STRING$', 'B': bytes([c, 65]), 'form': 'var', 'n': ['3'], 'v': [3]}


def gen_compare(tier):
    maxlen = 2 if tier == 'quick' else 3
    alpha = (0x00, 0x61, 0xff)
    strs = [b'']
    for k in range(1, maxlen + 1):
        strs += [bytes(t) for t in itertools.product(alpha, repeat=k)]
    strs += [b'x' * 254, b'x' * 254 + b'y', b'x' * 254 + b'z', b'x' * 255, b'x' * 253 + b'y', b'y']
    for a in strs:
        for b in strs:
            for rel in ('=', '<>', '<', '>', '<=', '>='):
                yield {'fn': 'cmp', 'A': a, 'B': b, 'rel': rel}


RHS_FORMS = ['A$', 'MID$(A$,2)', 'LEFT$(A$,1)', 'A$+""', 'LEFT$(A$,255)', 'RIGHT$(A$,255)', 'MID$(A$,1)', 'MID$(A$,1,255)']


def gen_midstmt(tier):
    S, N = alph(tier)
    for target in ('A$', 'A$(1)'):
        if target == 'A$(1)':
            # array-element targets: reduced numeric alphabet
            Nn = [x for x in N if x[0] in ('-1', '0', '1', '2', '3', '4', '254', '255', '256', '32768')]
            Ss = [s for s in S if s in (b'', b'a', b'abc', b'aab', b'x' * 254 + b'y', b'x' * 255)]
        else:
            Nn, Ss = N, S
        for a in Ss:
            for pt, pv in Nn:
                for nt, nv in [(None, None)] + Nn:
                    nn = [pt] if nt is None else [pt, nt]
                    for b in Ss:
                        yield {'fn': 'MID$=', 'T': target, 'A': a, 'B': b, 'rhs': 'B$', 'n': nn, 'v': [pv, nv]}
                    for rhs in RHS_FORMS:
                        yield {'fn': 'MID$=', 'T': target, 'A': a, 'rhs': rhs, 'n': nn, 'v': [pv, nv]}


def gen_lrset(tier):
    S, N = alph(tier)
    for fn in ('LSET', 'RSET'):
        for target in ('A$', 'A$(1)'):
            for a in S:
                for b in S:
                    yield {'fn': fn, 'T': target, 'A': a, 'B': b, 'rhs': 'B$'}
                for rhs in ('A$', 'LEFT$(A$,2)', 'MID$(A$,2)', 'A$+"q"'):
                    if rhs == 'A$+"q"' and len(a) == 255:
                        continue
                    yield {'fn': fn, 'T': target, 'A': a, 'rhs': rhs}
        for b in S:
            yield {'fn': fn, 'T': 'NEVER$', 'A': None, 'B': b, 'rhs': 'B$'}


def gen_churn(tier):
    """Function calls repeated / followed by string-space churn (forces garbage collection)."""
    big = b'x' * 254 + b'y'
    small = b'hello'
    for a in (big, small):
        la = len(a)
        for form in ('var', 'tmp'):
            for n in (0, 1, la, 255, 256):
                yield {'fn': 'churn', 'f': 'LEFT$', 'A': a, 'form': form, 'v': [n]}
                yield {'fn': 'churn', 'f': 'RIGHT$', 'A': a, 'form': form, 'v': [n]}
            for pn in ((1, 0), (1, 1), (1, None), (2, None), (la, 1), (la, 0), (la + 1, 1), (la + 1, None),
                       (la + 2, None), (255, None), (255, 0), (0, 1), (256, None)):
                if pn[0] > 256:
                    continue
                yield {'fn': 'churn', 'f': 'MID$', 'A': a, 'form': form, 'v': list(pn)}
            for child in (a[:1], a[-1:], a[1:3], b'q', b'', a + b'q' if la < 255 else a):
                for start in (None, 1, 2, la, la + 1, 255, 0):
                    if start is not None and start > 255:
                        continue
                    yield {'fn': 'churn', 'f': 'INSTR', 'A': a, 'B': child, 'form': form, 'v': [start]}
            yield {'fn': 'churn', 'f': 'ASC', 'A': a, 'form': form, 'v': []}
            yield {'fn': 'churn', 'f': 'LEN', 'A': a, 'form': form, 'v': []}
            for b in (b'q', b'', a):
                yield {'fn': 'churn', 'f': 'STRING$', 'A': a, 'B': b, 'form': form, 'v': [3]}
                yield {'fn': 'churn', 'f': 'cmp', 'A': a, 'B': b, 'form': form, 'v': []}
                yield {'fn': 'churn', 'f': '+', 'A': a[:100], 'B': b[:100], 'form': form, 'v': []}
                yield {'fn': 'churn', 'f': 'LSET', 'A': a, 'B': b, 'form': form, 'v': []}
                yield {'fn': 'churn', 'f': 'RSET', 'A': a, 'B': b, 'form': form, 'v': []}
                for pn in ((1, None), (2, 1), (la, None), (la + 1, None), (1, 0)):
                    yield {'fn': 'churn', 'f': 'MID$=', 'A': a, 'B': b, 'form': form, 'v': list(pn)}


def gen_program(tier):
    targets = ['abcdef', 'a', 'abc']
    values = ['', 'X', 'XY', 'XYZWVUTS']
    for a in targets:
        for b in values:
            for p in (1, 2, 3, 6):
                for n in (None, 0, 1, 2, 255):
                    yield {'fn': 'prog-mid', 'A': a, 'B': b, 'p': p, 'n': n}
            yield {'fn': 'prog-lset', 'A': a, 'B': b}
            yield {'fn': 'prog-rset', 'A': a, 'B': b}
        # source is the code-resident target itself
        for p in (1, 2, 3, 6):
            for n in (None, 1, 2, 255):
                yield {'fn': 'prog-mid', 'A': a, 'B': a, 'p': p, 'n': n, 'src': 'self'}
        # source in string space, which is so full that copying the literal out of the program
        # text collects garbage and moves the source
        for b in values[1:]:
            for p in (1, 2, len(a)):
                for n in (None, 1):
                    for free in (0, len(a) - 1, len(a), len(a) + 1):
                        for st in ('mid', 'lset', 'rset'):
                            if st != 'mid' and (p, n) != (1, None):
                                continue
                            yield {'fn': 'prog-' + st, 'A': a, 'B': b, 'p': p, 'n': n, 'src': 'heap', 'free': free}


GENERATORS = {
    'slice': gen_slice, 'search': gen_search, 'build': gen_build, 'sweep': gen_sweep,
    'compare': gen_compare, 'midstmt': gen_midstmt, 'lrset': gen_lrset, 'program': gen_program,
    'churn': gen_churn,
}

_CASES = {}


def cases_of(leg, tier):
    key = (leg, tier)
    if key not in _CASES:
        _CASES[key] = list(GENERATORS[leg](tier))
    return _CASES[key]


# ---------------------------------------------------------------------------
# execution

SENT = b'\x7fsentinel\x7f'


def _operand(name, s, form):
    if form == 'var':
        return name
    if form == 'tmp':
        return name + b'+""'
    if form == 'lit':
        return b'"' + s + b'"'
    raise CheckError('form %r' % form)


class Ses(object):
    """One worker session with cached variable contents."""

    def __init__(self):
        self.s = H.new_session(horizon=100)
        r = H.run(self.s, b'DIM A$(2)')
        if r.err is not None or r.exc is not None:
            raise CheckError('cannot DIM: %r' % r)
        self.count = 0

    def setv(self, name, value):
        self.s.set_variable(name, value)

    def getv(self, name):
        return self.s.get_variable(name)

    def run(self, stmt):
        self.count += 1
        # keep the cursor on the top row: an error message then never scrolls the (slow) screen buffer
        return H.run(self.s, b'LOCATE 1,1:' + stmt)

    def close(self):
        self.s.close()


def _verdict(part, case, fn, cls, r, errs, ok_values, got_value, detail, special_key=None):
    """Compare one outcome with the reference; returns outcome label."""
    if r.exc is not None:
        part.violation('%s/host-exception/%s' % (fn, H.exc_key(r.exc)), '%s: %r' % (detail, r.exc), case)
        return 'host-exception'
    if errs:
        if r.err is None:
            part.violation(special_key or '%s/error-missed/%s' % (fn, cls),
                           '%s: no error (result %r), reference: error %s' % (detail, got_value, sorted(errs)), case)
            return 'ok'
        if r.err not in errs:
            part.violation('%s/wrong-error/%s' % (fn, cls),
                           '%s: error %d, reference: error %s' % (detail, r.err, sorted(errs)), case)
        return 'err%d' % r.err
    if r.err is not None:
        part.violation('%s/spurious-error/%s' % (fn, cls),
                       '%s: error %d, reference: %r' % (detail, r.err, _short(ok_values)), case)
        return 'err%d' % r.err
    if got_value not in ok_values:
        part.violation(special_key or '%s/wrong-value/%s' % (fn, cls),
                       '%s: got %r, reference %r' % (detail, _short([got_value])[0], _short(ok_values)), case)
    return 'ok'


def _short(vals):
    out = []
    for v in vals:
        if isinstance(v, bytes) and len(v) > 40:
            out.append(v[:16] + b'...(%d)...' % len(v) + v[-16:])
        else:
            out.append(v)
    return out


def exec_case(ses, part, case):
    fn = case['fn']
    part.n += 1
    part.traces += 1
    if fn in ('LEFT$', 'RIGHT$', 'MID$'):
        a = case['A']
        ses.setv('A$', a)
        ses.setv('R$', SENT)
        op = _operand(b'A$', a, case['form'])
        stmt = b'R$=' + fn.encode() + b'(' + op + b''.join(b',' + t.encode() for t in case['n']) + b')'
        v = case['v']
        if fn == 'LEFT$':
            errs, exp = R.left(a, v[0])
            cls = ncls(v[0], len(a))
        elif fn == 'RIGHT$':
            errs, exp = R.right(a, v[0])
            cls = ncls(v[0], len(a))
        else:
            errs, exp = R.mid(a, v[0], v[1])
            cls = '%s,%s' % (ncls(v[0], len(a)), ncls(v[1], max(0, len(a) - (v[0] if isinstance(v[0], int) else 0) + 1)))
        r = ses.run(stmt)
        got = ses.getv('R$')
        out = _verdict(part, case, fn.lower(), cls, r, errs, [exp], got, stmt.decode('latin-1') + ' with A$=%r' % _short([a])[0])
        if ses.getv('A$') != a:
            part.violation('%s/operand-modified' % fn.lower(), '%s changed A$' % stmt.decode('latin-1'), case)
        part.classes.add('%s:%s:%s:%s' % (fn, case['form'], cls, out))
        part.outcome(out)
    elif fn == 'INSTR':
        a, b = case['A'], case['B']
        ses.setv('A$', a)
        ses.setv('B$', b)
        ses.setv('R%', -7)
        opa = _operand(b'A$', a, case['form'])
        opb = _operand(b'B$', b, case['form'])
        stmt = b'R%=INSTR(' + b''.join(t.encode() + b',' for t in case['n']) + opa + b',' + opb + b')'
        errs, exp = R.instr(case['v'][0], a, b)
        cls = '%s,%s' % (ncls(case['v'][0], len(a)), 'empty' if not b else 'child')
        r = ses.run(stmt)
        got = ses.getv('R%')
        out = _verdict(part, case, 'instr', cls, r, errs, exp or (), got,
                       stmt.decode('latin-1') + ' with A$=%r B$=%r' % (_short([a])[0], _short([b])[0]))
        part.classes.add('INSTR:%s:%s:%s' % (case['form'], cls, out if out != 'ok' else ('found' if got else 'notfound')))
        part.outcome(out)
    elif fn in ('SPACE$', 'CHR$'):
        ses.setv('R$', SENT)
        stmt = b'R$=' + fn.encode() + b'(' + case['n'][0].encode() + b')'
        errs, exp = (R.space if fn == 'SPACE$' else R.chr_)(case['v'][0])
        cls = ncls(case['v'][0])
        r = ses.run(stmt)
        out = _verdict(part, case, fn.lower(), cls, r, errs, [exp], ses.getv('R$'), stmt.decode())
        part.classes.add('%s:%s:%s' % (fn, cls, out))
        part.outcome(out)
    elif fn == 'STRING$':
        ses.setv('R$', SENT)
        if 'B' in case:
            b = case['B']
            ses.setv('B$', b)
            stmt = b'R$=STRING$(' + case['n'][0].encode() + b',' + _operand(b'B$', b, case['form']) + b')'
            errs, exp = R.string_(case['v'][0], b)
            cls = '%s,str-%s' % (ncls(case['v'][0]), scls(b))
            special = 'string$/empty-string-accepted' if b == b'' and R.IFC in errs and len(errs) == 1 else None
            detail = stmt.decode() + ' with B$=%r' % _short([b])[0]
        else:
            stmt = b'R$=STRING$(' + case['n'][0].encode() + b',' + case['n'][1].encode() + b')'
            errs, exp = R.string_(case['v'][0], case['v'][1])
            cls = '%s,%s' % (ncls(case['v'][0]), ncls(case['v'][1]))
            special = None
            detail = stmt.decode()
        r = ses.run(stmt)
        out = _verdict(part, case, 'string$', cls, r, errs, [exp], ses.getv('R$'), detail, special)
        part.classes.add('STRING$:%s:%s' % (cls, out))
        part.outcome(out)
    elif fn in ('ASC', 'LEN'):
        a = case['A']
        ses.setv('A$', a)
        ses.setv('R%', -7)
        stmt = b'R%=' + fn.encode() + b'(' + _operand(b'A$', a, case['form']) + b')'
        errs, exp = (R.asc if fn == 'ASC' else R.len_)(a)
        r = ses.run(stmt)
        out = _verdict(part, case, fn.lower(), scls(a), r, errs, [exp], ses.getv('R%'),
                       stmt.decode('latin-1') + ' with A$=%r' % _short([a])[0])
        part.classes.add('%s:%s:%s:%s' % (fn, case['form'], scls(a) if len(a) != 1 else 'b%x' % (a[0] >> 5), out))
        part.outcome(out)
    elif fn == '+':
        a, b = case['A'], case['B']
        ses.setv('A$', a)
        ses.setv('B$', b)
        ses.setv('R$', SENT)
        errs, exp = R.concat(a, b)
        r = ses.run(b'R$=A$+B$')
        tot = len(a) + len(b)
        cls = 'len%s' % ('<255' if tot < 255 else ('=255' if tot == 255 else ('=256' if tot == 256 else '>256')))
        out = _verdict(part, case, 'concat', cls, r, errs, [exp], ses.getv('R$'),
                       'A$+B$ with LEN %d + %d' % (len(a), len(b)))
        if ses.getv('A$') != a or ses.getv('B$') != b:
            part.violation('concat/operand-modified', 'A$+B$ changed an operand', case)
        part.classes.add('+:%s:%s' % (cls, out))
        part.outcome(out)
    elif fn == 'cmp':
        a, b, rel = case['A'], case['B'], case['rel']
        ses.setv('A$', a)
        ses.setv('B$', b)
        ses.setv('R%', -7)
        errs, exp = R.compare(rel, a, b)
        r = ses.run(b'R%=(A$' + rel.encode() + b'B$)')
        if len(a) == len(b):
            cls = 'samelen-' + ('eq' if a == b else 'ne')
        elif a.startswith(b) or b.startswith(a):
            cls = 'prefix'
        else:
            cls = 'difflen'
        out = _verdict(part, case, 'compare', '%s/%s' % (rel, cls), r, errs, [exp], ses.getv('R%'),
                       'A$%sB$ with A$=%r B$=%r' % (rel, _short([a])[0], _short([b])[0]))
        part.classes.add('cmp:%s:%s:%s' % (rel, cls, exp))
        part.outcome('true' if exp else 'false')
    elif fn == 'MID$=':
        _exec_midstmt(ses, part, case)
    elif fn in ('LSET', 'RSET'):
        _exec_lrset(ses, part, case)
    elif fn.startswith('prog-'):
        _exec_program(part, case)
    elif fn == 'churn':
        _exec_churn(part, case)
    else:
        raise CheckError('unknown case %r' % (case,))


def _rhs_value(rhs, a, b):
    if rhs == 'B$':
        return b
    if rhs == 'A$':
        return a
    if rhs == 'MID$(A$,2)':
        return a[1:]
    if rhs == 'LEFT$(A$,1)':
        return a[:1]
    if rhs == 'LEFT$(A$,2)':
        return a[:2]
    if rhs in ('A$+""', 'LEFT$(A$,255)', 'RIGHT$(A$,255)', 'MID$(A$,1)', 'MID$(A$,1,255)'):
        # the whole value, but a function result: not the variable itself
        return a
    if rhs == 'A$+"q"':
        return a + b'q'
    raise CheckError(rhs)


def _set_target(ses, target, a):
    if target == 'A$':
        ses.setv('A$', a)
        return
    # array element: through BASIC (keeps the public API to scalars)
    ses.setv('T$', a)
    r = ses.run(b'A$(1)=T$+"":A$(0)="left":A$(2)="right"')
    if r.err is not None or r.exc is not None:
        raise CheckError('array assignment failed: %r' % r)


def _get_target(ses, target):
    if target == 'A$':
        return ses.getv('A$')
    r = ses.run(b'T$=A$(1):U$=A$(0)+A$(2)')
    if r.err is not None or r.exc is not None:
        raise CheckError('array read failed: %r' % r)
    if ses.getv('U$') != b'leftright':
        return ('neighbours-clobbered', ses.getv('U$'))
    return ses.getv('T$')


def _exec_midstmt(ses, part, case):
    target, a, rhs = case['T'], case['A'], case['rhs']
    b = case.get('B', b'')
    v = case['v']
    _set_target(ses, target, a)
    if rhs == 'B$':
        ses.setv('B$', b)
    rhs_text = rhs.replace('A$', target) if target != 'A$' else rhs
    stmt = ('MID$(%s,%s)=%s' % (target, ','.join(case['n']), rhs_text)).encode()
    value = _rhs_value(rhs, a, b)
    errs, exp, optional = R.mid_statement(a, v[0], v[1], value)
    cls = '%s,%s,%s' % (ncls(v[0], len(a)), ncls(v[1]), 'self' if rhs == 'A$' else ('sub' if rhs != 'B$' else 'other'))
    r = ses.run(stmt)
    got = _get_target(ses, target)
    detail = '%s with %s=%r%s' % (stmt.decode(), target, _short([a])[0],
                                  ' B$=%r' % _short([b])[0] if rhs == 'B$' else '')
    part.outcome('err%d' % r.err if r.err else 'ok')
    part.classes.add('MID$=:%s:%s:%s' % (target, cls, 'err%d' % r.err if r.err else 'ok'))
    if r.exc is not None:
        part.violation('midstmt/host-exception/%s' % H.exc_key(r.exc), '%s: %r' % (detail, r.exc), case)
        return
    if optional:
        if not ((r.err in errs or r.err is None) and got == a):
            part.violation('midstmt/wrong-outcome/%s' % cls, '%s: err %r, target %r' % (detail, r.err, _short([got])[0]), case)
        return
    if errs:
        if r.err is None:
            part.violation('midstmt/error-missed/%s' % cls, '%s: no error (target now %r), reference: error %s' % (
                detail, _short([got])[0], sorted(errs)), case)
        elif r.err not in errs:
            part.violation('midstmt/wrong-error/%s' % cls, '%s: error %d, reference %s' % (detail, r.err, sorted(errs)), case)
        elif got != a:
            part.violation('midstmt/target-changed-on-error/%s' % cls, '%s: error %d but target now %r' % (
                detail, r.err, _short([got])[0]), case)
        return
    if r.err is not None:
        part.violation('midstmt/spurious-error/%s' % cls, '%s: error %d, reference: %r' % (detail, r.err, _short([exp])[0]), case)
        return
    value_semantics = exp
    if rhs == 'A$':
        # source and target are the same string: sequential replacement (see ASSUMPTIONS)
        exp = R.mid_statement_forward_copy(a, v[0], v[1])
    if got != exp:
        if rhs == 'A$' and got == value_semantics and isinstance(got, bytes) and len(got) == len(a):
            part.violation('midstmt/self-overlap-not-sequential',
                           '%s: got %r (right-hand side evaluated first); GW-BASIC replaces sequentially: %r' % (
                               detail, _short([got])[0], _short([exp])[0]), case)
            return
        if isinstance(got, bytes) and len(got) != len(a):
            part.violation('midstmt/length-changed/%s' % cls, '%s: LEN %d -> %d' % (detail, len(a), len(got)), case)
        else:
            part.violation('midstmt/wrong-value/%s' % cls, '%s: got %r, reference %r' % (
                detail, _short([got])[0], _short([exp])[0]), case)
    if rhs == 'B$' and ses.getv('B$') != b:
        part.violation('midstmt/source-modified', '%s changed B$ to %r' % (detail, _short([ses.getv('B$')])[0]), case)


def _exec_lrset(ses, part, case):
    fn, target, a, rhs = case['fn'], case['T'], case['A'], case['rhs']
    b = case.get('B', b'')
    if target == 'NEVER$':
        # a variable that has never been assigned: the statement has no effect
        name = 'N%d$' % (ses.count % 7)
        ses.run(b'CLEAR:DIM A$(2)')
        ses.setv('B$', b)
        r = ses.run(('%s %s=B$' % (fn, name)).encode())
        got = ses.getv(name)
        part.classes.add('%s:never:%s' % (fn, scls(b)))
        part.outcome('noop')
        if r.exc is not None:
            part.violation('%s/host-exception/%s' % (fn.lower(), H.exc_key(r.exc)), repr(r.exc), case)
        elif r.err is not None or got != b'':
            part.violation('%s/unallocated-target' % fn.lower(), '%s %s=B$ on a never-assigned variable: err %r value %r' % (
                fn, name, r.err, got), case)
        return
    _set_target(ses, target, a)
    if rhs == 'B$':
        ses.setv('B$', b)
    rhs_text = rhs.replace('A$', target) if target != 'A$' else rhs
    stmt = ('%s %s=%s' % (fn, target, rhs_text)).encode()
    value = _rhs_value(rhs, a, b)
    errs, exp = (R.lset if fn == 'LSET' else R.rset)(a, value)
    r = ses.run(stmt)
    got = _get_target(ses, target)
    cls = '%s,%s' % ('short' if len(value) < len(a) else ('fit' if len(value) == len(a) else 'long'),
                     'self' if rhs == 'A$' else ('sub' if rhs != 'B$' else 'other'))
    detail = '%s with %s=%r%s' % (stmt.decode(), target, _short([a])[0], ' B$=%r' % _short([b])[0] if rhs == 'B$' else '')
    part.classes.add('%s:%s:%s:%s' % (fn, target, scls(a), cls))
    part.outcome('err%d' % r.err if r.err else 'ok')
    if r.exc is not None:
        part.violation('%s/host-exception/%s' % (fn.lower(), H.exc_key(r.exc)), '%s: %r' % (detail, r.exc), case)
        return
    if r.err is not None:
        part.violation('%s/spurious-error/%s' % (fn.lower(), cls), '%s: error %d' % (detail, r.err), case)
        return
    if got != exp:
        if isinstance(got, bytes) and len(got) != len(a):
            part.violation('%s/length-changed/%s' % (fn.lower(), cls), '%s: LEN %d -> %d' % (detail, len(a), len(got)), case)
        else:
            part.violation('%s/wrong-value/%s' % (fn.lower(), cls), '%s: got %r, reference %r' % (
                detail, _short([got])[0], _short([exp])[0]), case)
    if rhs == 'B$' and ses.getv('B$') != b:
        part.violation('%s/source-modified' % fn.lower(), '%s changed B$' % detail, case)


def _exec_program(part, case):
    """Target is a string literal inside the program text: the statement must work on a copy."""
    fn = case['fn']
    a, b = case['A'], case['B']
    src = case.get('src', 'lit')
    rhs = {'lit': '"%s"' % b, 'self': 'A$', 'heap': 'B$'}[src]
    also = None
    if fn == 'prog-mid':
        p, n = case['p'], case['n']
        st = 'MID$(A$,%d%s)=%s' % (p, '' if n is None else ',%d' % n, rhs)
        errs, exp, optional = R.mid_statement(a.encode(), p, n, b.encode())
        if src == 'self' and not errs:
            # the target is copied out of the program text first; the source may be read from
            # the program text (value semantics) or from the copy (sequential): both accepted
            also = R.mid_statement_forward_copy(a.encode(), p, n)
    elif fn == 'prog-lset':
        st = 'LSET A$=%s' % rhs
        errs, exp = R.lset(a.encode(), b.encode())
    else:
        st = 'RSET A$=%s' % rhs
        errs, exp = R.rset(a.encode(), b.encode())
    line = '10 A$="%s":%s:PRINT "[";A$;"]";LEN(A$)' % (a, st)
    lines = [line]
    if src == 'heap':
        line = '70 A$="%s":%s:PRINT "[";A$;"]";LEN(A$):IF B$<>"%s" THEN PRINT "source changed"' % (a, st, b)
        lines = ['10 DIM Z$(400):A$="":I=0', '20 G$=SPACE$(100)', '30 B$="%s"+""' % b, '40 G$=""',
                 '50 WHILE FRE(0)>300:I=I+1:Z$(I)=SPACE$(250):WEND',
                 '60 I=I+1:Z$(I)=SPACE$(FRE(0)\\2):I=I+1:Z$(I)=SPACE$(FRE(0)-%d)' % case['free'], line]
    s = H.new_session(horizon=20000)
    try:
        for l in lines:
            H.run(s, l.encode())
        listing0 = H.run(s, b'LIST').out
        outs = []
        for _ in range(2):
            r = H.run(s, b'RUN')
            part.traces += 1
            if r.exc is not None:
                part.violation('program/host-exception/%s' % H.exc_key(r.exc), '%s: %r' % (line, r.exc), case)
                return
            outs.append((r.err, r.out))
        listing1 = H.run(s, b'LIST').out
        after = None
        if errs and outs[0][0] is not None:
            # the statement was refused: the target still reads as before, also after other strings were
            # made and string space was collected
            after = []
            for probe in (b'T9$="q"+"r":PRINT "[";A$;"]";', b'T9$=T9$+T9$:X=FRE(""):PRINT "[";A$;"]";'):
                r = H.run(s, probe)
                if r.exc is not None:
                    part.violation('program/host-exception/%s' % H.exc_key(r.exc), 'after the refused %s: %r raised %r' % (st, probe, r.exc), case)
                    return
                after.append((r.err, r.out))
    finally:
        s.close()
    cls = fn[5:] + ('' if src == 'lit' else '-' + src)
    if after is not None and any(x != (None, b'[' + a.encode() + b']') for x in after):
        part.violation('program/%s/target-changed-by-refused-statement' % cls,
                       '%s was refused (error %r); afterwards A$ reads %r' % (line, outs[0][0], after), case)
    part.classes.add('prog:%s:%s' % (cls, 'err' if errs else 'ok'))
    part.outcome('err' if outs[0][0] else 'ok')
    if listing0 != listing1:
        part.violation('program/%s/literal-in-program-text-modified' % cls,
                       '%s: listing changed from %r to %r' % (line, listing0, listing1), case)
    if outs[0] != outs[1]:
        part.violation('program/%s/second-run-differs' % cls, '%s: %r then %r' % (line, outs[0], outs[1]), case)
    err, out = outs[0]
    if errs:
        if err not in errs:
            part.violation('program/%s/error-missed' % cls, '%s: err %r out %r, reference error %s' % (line, err, out, sorted(errs)), case)
        return
    want = b'[' + exp + b']' + (' %d ' % len(a)).encode() + b'\r\n'
    if also is not None and out == b'[' + also + b']' + (' %d ' % len(a)).encode() + b'\r\n':
        want = out
    if err is not None or out != want:
        part.violation('program/%s/wrong-value' % cls, '%s: err %r out %r, reference %r' % (line, err, out, want), case)


REPEATS = 270          # 270 x 255 bytes > the 60 kB of free memory: a leak of one operand per call shows
CHURN = b'FOR I%=1 TO 300:Q$=STRING$(255,"z"):NEXT'


def _exec_churn(part, case):
    """The call is repeated (or, if it raises, made once), then string space is churned so that
    garbage collection runs; results and operands must still be the reference values."""
    f, a, form, v = case['f'], case['A'], case['form'], case['v']
    b = case.get('B', b'')
    opa = 'A$' if form == 'var' else 'A$+""'
    opb = 'B$' if form == 'var' else 'B$+""'
    res = 'R$'
    target_changes = None
    if f in ('LEFT$', 'RIGHT$'):
        stmt = 'R$=%s(%s,%d)' % (f, opa, v[0])
        errs, exp = (R.left if f == 'LEFT$' else R.right)(a, v[0])
        cls = 'n' + ncls(v[0], len(a))
    elif f == 'MID$':
        stmt = 'R$=MID$(%s,%d%s)' % (opa, v[0], '' if v[1] is None else ',%d' % v[1])
        errs, exp = R.mid(a, v[0], v[1])
        cls = 'p%s,n%s' % (ncls(v[0], len(a)), ncls(v[1]))
    elif f == 'INSTR':
        res = 'R%'
        stmt = 'R%%=INSTR(%s%s,%s)' % ('' if v[0] is None else '%d,' % v[0], opa, opb)
        errs, exps = R.instr(v[0], a, b)
        exp = exps
        cls = 's%s,%s' % (ncls(v[0], len(a)), 'empty' if not b else ('found' if exps and max(exps) > 0 else 'notfound'))
    elif f in ('ASC', 'LEN'):
        res = 'R%'
        stmt = 'R%%=%s(%s)' % (f, opa)
        errs, exp = (R.asc if f == 'ASC' else R.len_)(a)
        cls = ''
    elif f == 'STRING$':
        stmt = 'R$=STRING$(3,%s)' % opb
        errs, exp = R.string_(3, b)
        cls = 'str-' + scls(b)
    elif f == 'cmp':
        res = 'R%'
        stmt = 'R%%=(%s<%s)' % (opa, opb)
        errs, exp = R.compare('<', a, b)
        cls = ''
    elif f == '+':
        stmt = 'R$=%s+%s' % (opa, opb)
        errs, exp = R.concat(a, b)
        cls = ''
    elif f in ('LSET', 'RSET'):
        res = 'A$'
        stmt = '%s A$=%s' % (f, opb)
        errs, exp = (R.lset if f == 'LSET' else R.rset)(a, b)
        cls = ''
    elif f == 'MID$=':
        res = 'A$'
        stmt = 'MID$(A$,%d%s)=%s' % (v[0], '' if v[1] is None else ',%d' % v[1], opb)
        errs, exp, optional = R.mid_statement(a, v[0], v[1], b)
        if optional:
            return
        cls = 'p%s,n%s' % (ncls(v[0], len(a)), ncls(v[1]))
    else:
        raise CheckError(f)
    fk = f.lower().replace('=', '-stmt')
    cls = '%s:%s:%s' % (form, scls(a), cls)
    if f == 'STRING$' and b == b'':
        return          # reported by the build leg (string$/empty-string-accepted)
    s = H.new_session(horizon=100000)
    try:
        s.set_variable('A$', a)
        s.set_variable('B$', b)
        if res != 'A$':
            s.set_variable(res, SENT if res == 'R$' else -7)
        detail = '%s with A$=%r B$=%r' % (stmt, _short([a])[0], _short([b])[0])
        if errs:
            r = H.run(s, stmt.encode())
            part.traces += 1
            if r.exc is None and r.err not in errs:
                part.violation('churn/%s/error-missed-or-wrong/%s' % (fk, cls), '%s: err %r, reference %s' % (
                    detail, r.err, sorted(errs)), case)
                return
            first = 'the call (error %r)' % r.err
        else:
            loop = 'FOR J%%=1 TO %d:%s:NEXT' % (REPEATS, stmt)
            r = H.run(s, b'LOCATE 1,1:' + loop.encode())
            part.traces += REPEATS
            first = '%d repeats' % REPEATS
            if r.exc is None and r.err is not None:
                key = 'out-of-string-space-on-repeat' if r.err == 14 else 'error-on-repeat'
                part.violation('churn/%s/%s' % (fk, key),
                               '%s repeated %d times: error %d after %s iterations' % (
                                   detail, REPEATS, r.err, s.get_variable('J%')), case)
                return
        if r.exc is not None:
            part.violation('churn/%s/host-exception/%s' % (fk, H.exc_key(r.exc)), '%s: %r' % (detail, r.exc), case)
            return
        r = H.run(s, b'LOCATE 1,1:' + CHURN)
        part.traces += 300
        if r.exc is not None:
            part.violation('churn/%s/host-exception-in-later-garbage-collection/%s' % (fk, H.exc_key(r.exc)),
                           '%s, then %s: %r' % (detail, CHURN.decode(), r.exc), case)
            return
        if r.err is not None:
            part.violation('churn/%s/error-in-later-string-allocation' % fk,
                           '%s, then %s: error %d' % (detail, CHURN.decode(), r.err), case)
            return
        # one more call after the collection, then look at everything
        r = H.run(s, stmt.encode())
        if r.exc is not None:
            part.violation('churn/%s/host-exception/%s' % (fk, H.exc_key(r.exc)), '%s after churn: %r' % (detail, r.exc), case)
            return
        got = s.get_variable(res)
        if errs:
            ok = r.err in errs
        elif f == 'INSTR':
            ok = r.err is None and got in exp
        elif res == 'A$':
            # in-place statements applied repeatedly: idempotent for these alphabets except self-feeding
            ok = r.err is None and got == exp
        else:
            ok = r.err is None and got == exp
        if not ok:
            part.violation('churn/%s/wrong-after-garbage-collection/%s' % (fk, cls),
                           '%s after %s and churn: err %r, %s=%r, reference %r' % (
                               detail, first, r.err, res, _short([got])[0], exp if errs == set() else sorted(errs)), case)
        if res != 'A$' and s.get_variable('A$') != a:
            part.violation('churn/%s/operand-lost-after-garbage-collection' % fk, '%s: A$ is now %r' % (
                detail, _short([s.get_variable('A$')])[0]), case)
        if s.get_variable('B$') != b:
            part.violation('churn/%s/operand-lost-after-garbage-collection' % fk, '%s: B$ is now %r' % (
                detail, _short([s.get_variable('B$')])[0]), case)
        part.classes.add('churn:%s:%s:%s' % (f, cls, 'err' if errs else 'ok'))
        part.outcome('err' if errs else 'ok')
    finally:
        s.close()


# ---------------------------------------------------------------------------

def work(shard):
    leg, tier, lo, hi = shard
    cases = cases_of(leg, tier)
    part = Partial()
    # a fresh session per shard: shards are small, so that state left behind by one case
    # (the churn leg looks for exactly that) cannot pile up over thousands of cases
    ses = Ses()
    try:
        for case in cases[lo:hi]:
            try:
                exec_case(ses, part, case)
            except CheckError:
                raise
            except Exception as e:
                # an exception out of a harness-level call (set_variable / get_variable) that was raised
                # inside pcbasic: state accumulated over the previous cases of this shard broke the session
                if not from_pcbasic(e):
                    raise
                part.violation('accumulated-state/host-exception/%s' % H.exc_key(e),
                               'after %d statements in one session: %r' % (ses.count, e), case)
                ses.close()
                ses = Ses()
    finally:
        ses.close()
    part.sample(cases[lo])
    return part


BOUNDS = {
    'slice': 'LEFT$/RIGHT$: S x N; MID$: S x N x (N+omitted); operands as variable, temporary, literal',
    'search': 'INSTR: (N+omitted) x S x (S + search extras); variable and temporary operands',
    'build': 'STRING$ N x (N u S); SPACE$/CHR$ N; ASC/LEN S; concatenation over 14+ lengths squared',
    'sweep': 'every integer -2..258 as each numeric argument of LEFT$/RIGHT$/MID$/SPACE$/CHR$/STRING$; ASC and '
             'STRING$ on every byte value',
    'compare': 'all 6 relations on all ordered pairs of strings of length <= L over {00,61,FF} plus 6 long strings',
    'midstmt': 'MID$(T,p[,n])=rhs: S x N x (N+omitted) x (S u 4 self-referencing forms), scalar target; reduced '
               'alphabet for array-element target',
    'lrset': 'LSET/RSET: S x (S u 4 self-referencing forms), scalar and array-element targets, unassigned target',
    'churn': 'each function on a 255-byte and a 5-byte operand (variable / temporary), boundary arguments, repeated 270 '
             'times (or once when it raises) and followed by 300 x 255 bytes of string allocation (garbage collection)',
    'program': 'MID$/LSET/RSET on a literal in program text: 3 targets x 4 values x 4 positions x 5 lengths, run twice',
}


def legs(ctx):
    tier = 'quick' if ctx.quick else 'thorough'
    S, N = alph(tier)
    names = ['slice', 'search', 'build', 'compare', 'midstmt', 'lrset', 'program', 'churn']
    if not ctx.quick:
        names.insert(3, 'sweep')
    out = []
    for name in names:
        n = len(cases_of(name, tier))
        size = 60 if name == 'program' else (8 if name == 'churn' else max(150, min(250, n // 64 + 1)))
        shards = [(name, tier, lo, min(lo + size, n)) for lo in range(0, n, size)]
        out.append(Leg(name, shards, work, exhaustive=True,
                       bound='%s; |S|=%d, |N|=%d, %d cases' % (BOUNDS[name], len(S), len(N), n)))
    _freeze_heap()
    return out


def _freeze_heap():
    """The worker pool is forked after legs(): keep the cyclic collector of the children away from the
    (large) inherited heap, otherwise every full collection copies all inherited pages."""
    import gc
    gc.collect()
    gc.freeze()


def replay(ctx, leg, case):
    part = Partial()
    ses = Ses()
    try:
        exec_case(ses, part, case)
    finally:
        ses.close()
    return part
